#!/bin/bash
# Regenerate every evidence file: run all registered quick checks sequentially against /repo's working tree.
cd /verif
out=${1:-/tmp/allquick.summary}
: > $out
for p in $(python3 -c "import json; print(' '.join(c['property_id'] for c in json.load(open('MANIFEST.json'))['checks']))"); do
  s=$(date +%s); ./check $p --tier quick > /tmp/allquick.$p.log 2>&1; rc=$?
  echo "$p rc=$rc $(( $(date +%s)-s ))s viol=$(grep -c '^VIOLATION' /tmp/allquick.$p.log) known=$(grep -c '^KNOWN-FINDING' /tmp/allquick.$p.log) | $(tail -1 /tmp/allquick.$p.log | cut -c1-150)" >> $out
done
echo DONE >> $out
