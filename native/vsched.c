/* libvsched.so -- LD_PRELOAD controlled scheduler / environment for the REAL cppcheck binary.
 *
 * VSCHED_MODE=t : thread mode.  Exactly one thread of the process runs at a time; every pthread_mutex_lock,
 *                 pthread_create, pthread_join, pthread_once, __cxa_guard_acquire and thread exit is a
 *                 scheduling point at which the explorer-chosen thread continues.  Hand-off uses raw futex
 *                 syscalls in this uninstrumented library, so ThreadSanitizer sees no extra happens-before.
 * VSCHED_MODE=p : process mode.  The process executor's parent loop asks the environment three questions:
 *                 select() (which pipe is readable / nothing yet), waitpid(WNOHANG) (which worker has exited /
 *                 none yet), read() of a large body (full / short).  Each is a choice point.  Workers are real
 *                 forked processes; VSCHED_FAULT kills worker w before its k-th write to the result pipe.
 *
 * VSCHED_PREFIX = "alt/nalts,alt/nalts,..."  choices for the first recorded points (later points: alt 0).
 * VSCHED_TRACE  = file; one line per recorded choice point:  "P <kind> <nalts> <chosen> <free> <info>"
 *                 free=1 when the non-default alternatives cost no deviation (forced switch).
 * Only points with >= 2 alternatives are recorded.  A replayed point whose alternative count differs from the
 * recorded one is a hard error (line "DIVERGE", exit 98).  No enabled thread: line "DEADLOCK", exit 97.
 */
#define _GNU_SOURCE
#include <dlfcn.h>
#include <errno.h>
#include <fcntl.h>
#include <limits.h>
#include <linux/futex.h>
#include <poll.h>
#include <pthread.h>
#include <signal.h>
#include <stdarg.h>
#include <stdint.h>
#include <stdio.h>
#include <stdlib.h>
#include <string.h>
#include <sys/select.h>
#include <sys/syscall.h>
#include <sys/types.h>
#include <sys/wait.h>
#include <unistd.h>

#define MAXT 32
#define MAXM 4096
#define MAXW 64
#define MAXPREFIX 100000

static long raw(long n, long a, long b, long c, long d, long e, long f)
{
    long ret;
    register long r10 __asm__("r10") = d;
    register long r8 __asm__("r8") = e;
    register long r9 __asm__("r9") = f;
    __asm__ volatile ("syscall" : "=a"(ret) : "a"(n), "D"(a), "S"(b), "d"(c), "r"(r10), "r"(r8), "r"(r9)
                      : "rcx", "r11", "memory");
    return ret;
}

/* ---------------------------------------------------------------------------------------------- state */
static int mode;             /* 0 passive, 't', 'p' */
static int trace_fd = -1;
static int policy;           /* 0: drain pipes before noticing exits (default); 1: eager reaping, highest pipe first */
static int horizon = 200000; /* max recorded+unrecorded scheduling points */
static long npoints_total;

static int *prefix_alt, *prefix_n;
static int prefix_len, point_idx;

struct thr {
    volatile int go;
    int used, finished, started;
    pthread_t pt;
    int want_kind;     /* 0 none, 'm' mutex, 'j' join, 'g' guard, 'o' once */
    void *want;
    long steps;
};
static struct thr T[MAXT];
static int nthr = 1;
static int cur = 0;
static __thread int my_tid = -1;

struct own { void *addr; int owner; int count; char kind; };
static struct own O[MAXM];
static int nown;

/* process mode */
struct wk { pid_t pid; int rfd; int open; int reaped; };
static struct wk W[MAXW];
static int nwk;
static int last_pipe_r = -1, last_pipe_w = -1;
static int is_worker, worker_idx = -1, worker_wfd = -1;
static long worker_writes;
static int fault_k = -2;      /* -2 none, -1 at exit, >=0 before k-th write */
static char fault_kind[16];

/* ---------------------------------------------------------------------------------------------- real fns */
static int (*r_mutex_lock)(pthread_mutex_t *);
static int (*r_mutex_trylock)(pthread_mutex_t *);
static int (*r_mutex_unlock)(pthread_mutex_t *);
static int (*r_create)(pthread_t *, const pthread_attr_t *, void *(*)(void *), void *);
static int (*r_join)(pthread_t, void **);
static int (*r_once)(pthread_once_t *, void (*)(void));
static int (*r_guard_acquire)(void *);
static void (*r_guard_release)(void *);
static void (*r_guard_abort)(void *);
static pid_t (*r_fork)(void);
static int (*r_select)(int, fd_set *, fd_set *, fd_set *, struct timeval *);
static pid_t (*r_waitpid)(pid_t, int *, int);
static ssize_t (*r_read)(int, void *, size_t);
static ssize_t (*r_write)(int, const void *, size_t);
static int (*r_pipe)(int[2]);
static int (*r_close)(int);
static void (*r_exit)(int) __attribute__((noreturn));
static int resolved;

static void resolve(void)
{
    if (resolved) return;
    resolved = 1;
    r_mutex_lock = dlsym(RTLD_NEXT, "pthread_mutex_lock");
    r_mutex_trylock = dlsym(RTLD_NEXT, "pthread_mutex_trylock");
    r_mutex_unlock = dlsym(RTLD_NEXT, "pthread_mutex_unlock");
    r_create = dlsym(RTLD_NEXT, "pthread_create");
    r_join = dlsym(RTLD_NEXT, "pthread_join");
    r_once = dlsym(RTLD_NEXT, "pthread_once");
    r_guard_acquire = dlsym(RTLD_NEXT, "__cxa_guard_acquire");
    r_guard_release = dlsym(RTLD_NEXT, "__cxa_guard_release");
    r_guard_abort = dlsym(RTLD_NEXT, "__cxa_guard_abort");
    r_fork = dlsym(RTLD_NEXT, "fork");
    r_select = dlsym(RTLD_NEXT, "select");
    r_waitpid = dlsym(RTLD_NEXT, "waitpid");
    r_read = dlsym(RTLD_NEXT, "read");
    r_write = dlsym(RTLD_NEXT, "write");
    r_pipe = dlsym(RTLD_NEXT, "pipe");
    r_close = dlsym(RTLD_NEXT, "close");
    r_exit = dlsym(RTLD_NEXT, "exit");
}

/* ---------------------------------------------------------------------------------------------- tracing */
static void tr(const char *fmt, ...)
{
    char buf[512];
    va_list ap;
    if (trace_fd < 0) return;
    va_start(ap, fmt);
    int n = vsnprintf(buf, sizeof buf, fmt, ap);
    va_end(ap);
    if (n > (int)sizeof buf - 1) n = sizeof buf - 1;
    raw(SYS_write, trace_fd, (long)buf, n, 0, 0, 0);
}

static void die(int code, const char *why)
{
    tr("%s\n", why);
    raw(SYS_exit_group, code, 0, 0, 0, 0, 0);
    for (;;) {}
}

/* choose among nalts alternatives; alt 0 is the default.  free_: non-default alternatives cost nothing */
static int choose(char kind, int nalts, int free_, const char *info)
{
    if (++npoints_total > horizon) die(96, "HORIZON");
    if (nalts < 2) return 0;
    int c = 0;
    if (point_idx < prefix_len) {
        if (prefix_n[point_idx] != nalts) {
            tr("DIVERGE at=%d expected=%d got=%d kind=%c\n", point_idx, prefix_n[point_idx], nalts, kind);
            die(98, "DIVERGE");
        }
        c = prefix_alt[point_idx];
        if (c < 0 || c >= nalts) die(98, "DIVERGE bad-alt");
    }
    point_idx++;
    tr("P %c %d %d %d %s\n", kind, nalts, c, free_, info ? info : "-");
    return c;
}


/* ---------------------------------------------------------------------------------------------- fork server
 * VSCHED_SERVER="<rfd>,<wfd>": at the first pthread_create (mode t) / pipe (mode p) -- i.e. when the real
 * executor starts, after command-line parsing and library loading -- the process becomes a fork server: for
 * every line  RUN\t<stdout file>\t<stderr file>\t<trace file>\t<fault>\t<prefix>\n  read from rfd it forks; the
 * child redirects its output, installs the choice prefix and simply continues the real run to its real exit; the
 * server waits for it and answers  DONE <wait status>\n.  Every execution starts from the identical state. */
static int server_r = -1, server_w = -1, served;
static char fault_plan[4096];
static char linebuf[1 << 20];

static void parse_prefix(const char *s);

static void maybe_serve(void)
{
    if (server_r < 0 || served) return;
    served = 1;
    fflush(NULL);
    raw(SYS_write, server_w, (long)"READY\n", 6, 0, 0, 0);
    for (;;) {
        long n = 0;
        for (;;) {
            char c;
            long r = raw(SYS_read, server_r, (long)&c, 1, 0, 0, 0);
            if (r <= 0) raw(SYS_exit_group, 0, 0, 0, 0, 0, 0);
            if (c == '\n') break;
            if (n < (long)sizeof linebuf - 1) linebuf[n++] = c;
        }
        linebuf[n] = 0;
        if (strncmp(linebuf, "RUN\t", 4) != 0) raw(SYS_exit_group, 0, 0, 0, 0, 0, 0);
        char *f[5]; int nf = 0; char *p = linebuf + 4;
        while (nf < 5) { f[nf++] = p; char *t = strchr(p, '\t'); if (!t) break; *t = 0; p = t + 1; }
        if (nf < 5) raw(SYS_exit_group, 3, 0, 0, 0, 0, 0);
        pid_t pid = r_fork();
        if (pid == 0) {
            raw(SYS_close, server_r, 0, 0, 0, 0, 0);
            raw(SYS_close, server_w, 0, 0, 0, 0, 0);
            int o = open(f[0], O_WRONLY | O_CREAT | O_TRUNC, 0644);
            int e = open(f[1], O_WRONLY | O_CREAT | O_TRUNC, 0644);
            if (o >= 0) { dup2(o, 1); raw(SYS_close, o, 0, 0, 0, 0, 0); }
            if (e >= 0) { dup2(e, 2); raw(SYS_close, e, 0, 0, 0, 0, 0); }
            int t = open(f[2], O_WRONLY | O_CREAT | O_APPEND | O_CLOEXEC, 0644);
            if (t >= 0) { trace_fd = fcntl(t, F_DUPFD_CLOEXEC, 500); raw(SYS_close, t, 0, 0, 0, 0, 0); }
            strncpy(fault_plan, f[3], sizeof fault_plan - 1);
            prefix_len = 0; point_idx = 0;
            parse_prefix(f[4]);
            return;
        }
        int st = 0;
        while (raw(SYS_wait4, pid, (long)&st, 0, 0, 0, 0) == -EINTR) {}
        char ans[64];
        int k = snprintf(ans, sizeof ans, "DONE %d\n", st);
        raw(SYS_write, server_w, (long)ans, k, 0, 0, 0);
    }
}

/* ---------------------------------------------------------------------------------------------- init */
static void parse_prefix(const char *s)
{
    if (!prefix_alt) {
        prefix_alt = calloc(MAXPREFIX, sizeof(int));
        prefix_n = calloc(MAXPREFIX, sizeof(int));
    }
    while (s && *s && prefix_len < MAXPREFIX) {
        char *e;
        long a = strtol(s, &e, 10);
        long n = 0;
        if (*e == '/') n = strtol(e + 1, &e, 10);
        prefix_alt[prefix_len] = (int)a;
        prefix_n[prefix_len] = (int)n;
        prefix_len++;
        if (*e == ',') e++;
        else break;
        s = e;
    }
}

__attribute__((constructor)) static void vsched_init(void)
{
    resolve();
    const char *m = getenv("VSCHED_MODE");
    if (!m || !*m) return;
    const char *root = getenv("VSCHED_ROOT");
    if (root && *root) { mode = 0; return; }   /* exec'd descendant (addon, clang, sh): passive */
    char pidbuf[32];
    snprintf(pidbuf, sizeof pidbuf, "%d", (int)getpid());
    setenv("VSCHED_ROOT", pidbuf, 1);
    mode = m[0];
    const char *t = getenv("VSCHED_TRACE");
    if (t && *t) {
        int fd = open(t, O_WRONLY | O_CREAT | O_APPEND | O_CLOEXEC, 0644);
        if (fd >= 0) {
            trace_fd = fcntl(fd, F_DUPFD_CLOEXEC, 500);
            raw(SYS_close, fd, 0, 0, 0, 0, 0);
        }
    }
    const char *po = getenv("VSCHED_POLICY");
    if (po && *po) policy = atoi(po);
    const char *h = getenv("VSCHED_HORIZON");
    if (h && *h) horizon = atoi(h);
    parse_prefix(getenv("VSCHED_PREFIX"));
    const char *fp = getenv("VSCHED_FAULT");
    if (fp) strncpy(fault_plan, fp, sizeof fault_plan - 1);
    const char *sv = getenv("VSCHED_SERVER");
    if (sv && *sv) sscanf(sv, "%d,%d", &server_r, &server_w);
    my_tid = 0;
    T[0].used = 1; T[0].started = 1;
    T[0].pt = pthread_self();
}

/* ---------------------------------------------------------------------------------------------- thread mode */
static void fwait(volatile int *w)
{
    while (__atomic_load_n(w, __ATOMIC_SEQ_CST) == 0)
        raw(SYS_futex, (long)w, FUTEX_WAIT, 0, 0, 0, 0);
    __atomic_store_n(w, 0, __ATOMIC_SEQ_CST);
}
static void fwake(volatile int *w)
{
    __atomic_store_n(w, 1, __ATOMIC_SEQ_CST);
    raw(SYS_futex, (long)w, FUTEX_WAKE, 1, 0, 0, 0);
}

static struct own *own_find(void *addr, char kind, int create)
{
    for (int i = 0; i < nown; i++)
        if (O[i].addr == addr && O[i].kind == kind) return &O[i];
    if (!create) return NULL;
    for (int i = 0; i < nown; i++)
        if (O[i].owner < 0 && O[i].count == 0) { O[i].addr = addr; O[i].kind = kind; return &O[i]; }
    if (nown >= MAXM) die(95, "TOO-MANY-MUTEXES");
    O[nown].addr = addr; O[nown].kind = kind; O[nown].owner = -1; O[nown].count = 0;
    return &O[nown++];
}

static int enabled(int t)
{
    struct thr *x = &T[t];
    if (!x->used || x->finished) return 0;
    if (x->want_kind == 'j') {
        for (int i = 0; i < nthr; i++)
            if (T[i].used && pthread_equal(T[i].pt, (pthread_t)x->want)) return T[i].finished;
        return 1;
    }
    if (x->want_kind == 'm' || x->want_kind == 'g' || x->want_kind == 'o') {
        struct own *o = own_find(x->want, x->want_kind, 0);
        return !o || o->owner < 0 || o->owner == t;
    }
    return 1;
}

/* the running thread (cur == my_tid) reaches a scheduling point; self_done: it will not run again */
static void sched_point(char kind, int self_done)
{
    int me = my_tid;
    int alts[MAXT], n = 0;
    int cur_enabled = !self_done && enabled(me);
    if (cur_enabled) alts[n++] = me;
    for (int i = 0; i < nthr; i++)
        if (i != me && enabled(i)) alts[n++] = i;
    if (n == 0) {
        int live = 0;
        for (int i = 0; i < nthr; i++) if (T[i].used && !T[i].finished && !(i == me && self_done)) live++;
        if (live == 0) return; /* last thread exiting */
        die(97, "DEADLOCK");
    }
    char info[64];
    snprintf(info, sizeof info, "t%d", me);
    int c = choose(kind, n, cur_enabled ? 0 : 1, info);
    int next = alts[c];
    T[me].steps++;
    if (next == me) return;
    cur = next;
    fwake(&T[next].go);
    if (!self_done) fwait(&T[me].go);
}

static int tmode(void) { return mode == 't' && my_tid >= 0; }

int pthread_mutex_lock(pthread_mutex_t *m)
{
    resolve();
    if (!tmode()) return r_mutex_lock(m);
    if (nthr >= 2) {
        T[my_tid].want_kind = 'm'; T[my_tid].want = m;
        sched_point('m', 0);
        T[my_tid].want_kind = 0;
    }
    struct own *o = own_find(m, 'm', 1);
    o->owner = my_tid; o->count++;
    return r_mutex_lock(m);
}

int pthread_mutex_trylock(pthread_mutex_t *m)
{
    resolve();
    if (!tmode()) return r_mutex_trylock(m);
    if (nthr >= 2) sched_point('y', 0);
    int r = r_mutex_trylock(m);
    if (r == 0) { struct own *o = own_find(m, 'm', 1); o->owner = my_tid; o->count++; }
    return r;
}

int pthread_mutex_unlock(pthread_mutex_t *m)
{
    resolve();
    if (!tmode()) return r_mutex_unlock(m);
    struct own *o = own_find(m, 'm', 0);
    if (o && o->owner == my_tid && --o->count == 0) o->owner = -1;
    return r_mutex_unlock(m);
}

struct start { void *(*fn)(void *); void *arg; int tid; };

static void *trampoline(void *p)
{
    struct start s = *(struct start *)p;
    free(p);
    my_tid = s.tid;
    fwait(&T[s.tid].go);
    T[s.tid].started = 1;
    void *r = s.fn(s.arg);
    T[s.tid].finished = 1;
    sched_point('x', 1);
    return r;
}

int pthread_create(pthread_t *pt, const pthread_attr_t *attr, void *(*fn)(void *), void *arg)
{
    resolve();
    if (!tmode()) return r_create(pt, attr, fn, arg);
    maybe_serve();
    if (nthr >= MAXT) die(95, "TOO-MANY-THREADS");
    struct start *s = malloc(sizeof *s);
    s->fn = fn; s->arg = arg; s->tid = nthr;
    T[nthr].used = 1; T[nthr].go = 0;
    int r = r_create(pt, attr, trampoline, s);
    if (r != 0) { T[nthr].used = 0; free(s); return r; }
    T[nthr].pt = *pt;
    nthr++;
    sched_point('c', 0);
    return 0;
}

int pthread_join(pthread_t pt, void **ret)
{
    resolve();
    if (!tmode() || nthr < 2) return r_join(pt, ret);
    T[my_tid].want_kind = 'j'; T[my_tid].want = (void *)pt;
    sched_point('j', 0);
    T[my_tid].want_kind = 0;
    return r_join(pt, ret);
}

int pthread_once(pthread_once_t *ctl, void (*fn)(void))
{
    resolve();
    if (!tmode() || nthr < 2) return r_once(ctl, fn);
    if (__atomic_load_n((int *)ctl, __ATOMIC_ACQUIRE) & 2) return r_once(ctl, fn);   /* glibc: already done */
    T[my_tid].want_kind = 'o'; T[my_tid].want = ctl;
    sched_point('o', 0);
    T[my_tid].want_kind = 0;
    struct own *o = own_find(ctl, 'o', 1);
    o->owner = my_tid; o->count++;
    int r = r_once(ctl, fn);
    if (--o->count == 0) o->owner = -1;
    return r;
}

int __cxa_guard_acquire(void *g)
{
    resolve();
    if (!tmode() || nthr < 2) return r_guard_acquire(g);
    T[my_tid].want_kind = 'g'; T[my_tid].want = g;
    sched_point('g', 0);
    T[my_tid].want_kind = 0;
    int r = r_guard_acquire(g);
    if (r) { struct own *o = own_find(g, 'g', 1); o->owner = my_tid; o->count = 1; }
    return r;
}
void __cxa_guard_release(void *g)
{
    resolve();
    if (tmode()) { struct own *o = own_find(g, 'g', 0); if (o && o->owner == my_tid) { o->owner = -1; o->count = 0; } }
    r_guard_release(g);
}
void __cxa_guard_abort(void *g)
{
    resolve();
    if (tmode()) { struct own *o = own_find(g, 'g', 0); if (o && o->owner == my_tid) { o->owner = -1; o->count = 0; } }
    r_guard_abort(g);
}

/* ---------------------------------------------------------------------------------------------- process mode */
static int pmode_parent(void) { return mode == 'p' && !is_worker; }

int pipe(int fds[2])
{
    resolve();
    if (pmode_parent()) maybe_serve();
    int r = r_pipe(fds);
    if (r == 0 && pmode_parent()) { last_pipe_r = fds[0]; last_pipe_w = fds[1]; }
    return r;
}

static void parse_fault(void)
{
    const char *f = fault_plan;   /* "w:k:kind;w:k:kind"  k = number | e (at exit) */
    while (f && *f) {
        char *e;
        long w = strtol(f, &e, 10);
        if (*e != ':') break;
        e++;
        long k;
        if (*e == 'e') { k = -1; e++; } else k = strtol(e, &e, 10);
        if (*e != ':') break;
        e++;
        char kind[16]; int n = 0;
        while (*e && *e != ';' && n < 15) kind[n++] = *e++;
        kind[n] = 0;
        if (w == worker_idx) { fault_k = (int)k; strcpy(fault_kind, kind); }
        if (*e == ';') e++;
        f = e;
    }
}

static void do_fault(void)
{
    tr("F %d %ld %s\n", worker_idx, worker_writes, fault_kind);
    if (!strcmp(fault_kind, "segv")) { signal(SIGSEGV, SIG_DFL); raise(SIGSEGV); }
    else if (!strcmp(fault_kind, "abrt")) { signal(SIGABRT, SIG_DFL); raise(SIGABRT); }
    else if (!strcmp(fault_kind, "kill")) raise(SIGKILL);
    else if (!strcmp(fault_kind, "exit1")) raw(SYS_exit_group, 1, 0, 0, 0, 0, 0);
    else if (!strcmp(fault_kind, "exit3")) raw(SYS_exit_group, 3, 0, 0, 0, 0, 0);
    raw(SYS_exit_group, 9, 0, 0, 0, 0, 0);
}

pid_t fork(void)
{
    resolve();
    if (mode != 'p' || is_worker) return r_fork();
    int idx = nwk;
    pid_t p = r_fork();
    if (p == 0) {
        is_worker = 1; worker_idx = idx; worker_wfd = last_pipe_w; worker_writes = 0;
        parse_fault();
        return 0;
    }
    if (p > 0 && nwk < MAXW) {
        W[nwk].pid = p; W[nwk].rfd = last_pipe_r; W[nwk].open = 1; W[nwk].reaped = 0;
        nwk++;
    }
    return p;
}

int close(int fd)
{
    resolve();
    if (pmode_parent())
        for (int i = 0; i < nwk; i++)
            if (W[i].open && W[i].rfd == fd) W[i].open = 0;
    return r_close(fd);
}

ssize_t write(int fd, const void *buf, size_t n)
{
    resolve();
    if (mode == 'p' && is_worker && fd == worker_wfd) {
        if (fault_k >= 0 && worker_writes == fault_k) do_fault();
        worker_writes++;
    }
    return r_write(fd, buf, n);
}

__attribute__((noreturn)) void exit(int code)
{
    resolve();
    if (mode == 'p' && is_worker) {
        if (fault_k == -1) do_fault();
        tr("W %d %ld %d\n", worker_idx, worker_writes, code);
    }
    r_exit(code);
}

int select(int nfds, fd_set *rfds, fd_set *wfds, fd_set *efds, struct timeval *tv)
{
    resolve();
    if (!pmode_parent() || !rfds || nwk == 0) return r_select(nfds, rfds, wfds, efds, tv);
    int idx[MAXW], n = 0;
    for (int i = 0; i < nwk; i++)
        if (W[i].open && W[i].rfd < nfds && FD_ISSET(W[i].rfd, rfds)) idx[n++] = i;
    if (n == 0) return r_select(nfds, rfds, wfds, efds, tv);
    if (policy == 1)
        for (int i = 0; i < n / 2; i++) { int t = idx[i]; idx[i] = idx[n - 1 - i]; idx[n - 1 - i] = t; }
    /* alternatives: deliver idx[0..n-1], then "nothing ready yet" */
    char info[96]; int p = 0;
    for (int i = 0; i < n && p < 80; i++) p += snprintf(info + p, sizeof info - p, "w%d,", idx[i]);
    snprintf(info + p, sizeof info - p, "none");
    int c = choose('S', n + 1, 0, info);
    FD_ZERO(rfds);
    if (c == n) return 0;
    int w = idx[c];
    struct pollfd pf = { W[w].rfd, POLLIN, 0 };
    while (poll(&pf, 1, -1) < 0 && errno == EINTR) {}
    FD_SET(W[w].rfd, rfds);
    return 1;
}

pid_t waitpid(pid_t pid, int *st, int opts)
{
    resolve();
    if (!pmode_parent() || nwk == 0 || !(opts & WNOHANG) || pid > 0) return r_waitpid(pid, st, opts);
    int idx[MAXW], n = 0, nopen = 0;
    for (int i = 0; i < nwk; i++) {
        if (!W[i].reaped) idx[n++] = i;
        if (W[i].open) nopen++;
    }
    if (n == 0) return r_waitpid(pid, st, opts);
    char info[96]; int p = 0;
    int c;
    /* "no child yet" is always an alternative: while pipes are open it is the default under policy 0 (drain first);
     * with no pipe open it is the LAST alternative (a deviation): the worker has closed its pipe but is not a zombie
     * yet when the parent polls.  Deviation bounding keeps the exploration finite although the parent's loop polls. */
    if (policy == 1 || !nopen) {
        for (int i = 0; i < n && p < 80; i++) p += snprintf(info + p, sizeof info - p, "w%d,", idx[i]);
        snprintf(info + p, sizeof info - p, "none");
        c = choose('R', n + 1, 0, info);
        if (c == n) return 0;
    } else {
        p += snprintf(info, sizeof info, "none,");
        for (int i = 0; i < n && p < 80; i++) p += snprintf(info + p, sizeof info - p, "w%d,", idx[i]);
        c = choose('R', n + 1, 0, info);
        if (c == 0) return 0;
        c--;
    }
    int w = idx[c];
    pid_t r;
    while ((r = r_waitpid(W[w].pid, st, 0)) < 0 && errno == EINTR) {}
    W[w].reaped = 1;
    return r;
}

ssize_t read(int fd, void *buf, size_t n)
{
    resolve();
    if (!pmode_parent() || n <= 4096) return r_read(fd, buf, n);
    int tracked = 0;
    for (int i = 0; i < nwk; i++) if (W[i].open && W[i].rfd == fd) tracked = 1;
    if (!tracked) return r_read(fd, buf, n);
    int c = choose('B', 2, 0, "full,half");
    size_t want = c ? n / 2 : n, got = 0;
    while (got < want) {
        ssize_t r = r_read(fd, (char *)buf + got, want - got);
        if (r < 0 && errno == EINTR) continue;
        if (r <= 0) return got ? (ssize_t)got : r;
        got += (size_t)r;
    }
    return (ssize_t)got;
}
