/* C34 scripted addon.  cppcheck runs it as   addon_stub --cli [args] <X.dump | X.ctu-info>   or   --cli --file-list <list>.
 *
 * Directory $VERIF_ADDON_DIR holds the script:
 *   file.out / file.rc   output and exit status of an invocation on a dump file      (missing: empty / 0)
 *   ctu.out  / ctu.rc    the same for the whole-program invocation (.ctu-info files)
 * "@FILE@" in an output is replaced by the source file named in the dump (<file index="0" name="...">).
 * Every invocation appends "<phase> <target>\n" to $VERIF_ADDON_DIR/log, the whole-program invocation also appends
 * the content of every .ctu-info file it is given to $VERIF_ADDON_DIR/ctu.seen.
 */
#include <fcntl.h>
#include <stdio.h>
#include <stdlib.h>
#include <string.h>
#include <unistd.h>

static char *slurp(const char *path, size_t *len)
{
    FILE *f = fopen(path, "rb");
    if (!f)
        return NULL;
    size_t cap = 1 << 16, n = 0;
    char *b = malloc(cap + 1);
    for (;;) {
        size_t k = fread(b + n, 1, cap - n, f);
        n += k;
        if (k == 0)
            break;
        if (n == cap) {
            cap *= 2;
            b = realloc(b, cap + 1);
        }
    }
    fclose(f);
    b[n] = 0;
    if (len)
        *len = n;
    return b;
}

static void append(const char *dir, const char *name, const char *data, size_t n)
{
    char p[4096];
    snprintf(p, sizeof p, "%s/%s", dir, name);
    int fd = open(p, O_WRONLY | O_CREAT | O_APPEND, 0644);
    if (fd < 0)
        return;
    if (write(fd, data, n) < 0) { }
    close(fd);
}

static int ends(const char *s, const char *suf)
{
    size_t a = strlen(s), b = strlen(suf);
    return a >= b && strcmp(s + a - b, suf) == 0;
}

int main(int argc, char **argv)
{
    const char *dir = getenv("VERIF_ADDON_DIR");
    if (!dir || argc < 2) {
        fprintf(stderr, "addon_stub: VERIF_ADDON_DIR not set\n");
        return 97;
    }
    const char *target = argv[argc - 1];
    int filelist = 0;
    for (int i = 1; i < argc; i++)
        if (strcmp(argv[i], "--file-list") == 0)
            filelist = 1;
    int ctu = ends(target, ".ctu-info");
    char first[4096] = "";
    if (filelist) {
        char *l = slurp(target, NULL);
        if (l) {
            sscanf(l, "%4095[^\n]", first);
            ctu = ends(first, ".ctu-info");
            if (ctu) {
                for (char *s = strtok(l, "\n"); s; s = strtok(NULL, "\n")) {
                    size_t n;
                    char *c = slurp(s, &n);
                    if (c) {
                        append(dir, "ctu.seen", c, n);
                        free(c);
                    }
                }
            }
            free(l);
        }
    } else if (ctu) {
        size_t n;
        char *c = slurp(target, &n);
        if (c) {
            append(dir, "ctu.seen", c, n);
            free(c);
        }
    }
    char line[8300];
    int ln = snprintf(line, sizeof line, "%s %s\n", ctu ? "ctu" : "file", target);
    append(dir, "log", line, (size_t)ln);

    char src[4096] = "?";
    if (!ctu) {
        char *d = slurp(filelist ? first : target, NULL);
        if (d) {
            const char *k = strstr(d, "<file index=\"0\" name=\"");
            if (k)
                sscanf(k + 22, "%4095[^\"]", src);
            free(d);
        }
    }
    char p[4096];
    snprintf(p, sizeof p, "%s/%s.out", dir, ctu ? "ctu" : "file");
    size_t n = 0;
    char *out = slurp(p, &n);
    if (out) {
        const char *s = out;
        for (;;) {
            const char *k = strstr(s, "@FILE@");
            if (!k) {
                fwrite(s, 1, n - (size_t)(s - out), stdout);
                break;
            }
            fwrite(s, 1, (size_t)(k - s), stdout);
            fputs(src, stdout);
            s = k + 6;
        }
        free(out);
    }
    fflush(stdout);
    snprintf(p, sizeof p, "%s/%s.rc", dir, ctu ? "ctu" : "file");
    char *rc = slurp(p, NULL);
    int status = rc ? atoi(rc) : 0;
    return status;
}
