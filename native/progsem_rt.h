/* progsem_rt.h -- runtime of the program-execution oracle (vlib/progsem.py), C and C++ (gcc/g++).
 *
 * The generated translation unit includes this header, defines its functions with every r-value occurrence
 * wrapped in TR()/TRS()/TRP()/HIT() probes, and ends with a table `static const struct vfun vfuns[]`.
 * main() runs every function on every vector of its finite input domain.  An execution is committed to the
 * result table only if it was free of undefined behaviour as far as the sanitizers can see:
 *   - UBSan is compiled in trap mode (every failed check executes ud2 -> SIGILL), so there is no report
 *     de-duplication and no runtime dependency; SIGILL/SIGFPE/SIGSEGV/SIGBUS/SIGABRT are caught and the
 *     execution is left through siglongjmp;
 *   - ASan runs in recover mode (halt_on_error=0:suppress_equal_pcs=0); __asan_on_error marks the execution;
 *   - loops carry VLOOP() which cuts an execution after VLOOP_MAX iterations (deterministic, no timers);
 *   - optional own shadow checks (VUSE: read of an uninitialised local; vr_* resource accounting for C04).
 * Output (stdout, text):
 *   F <fidx> <nvec> <clean> <ub> <cut> <overflow>
 *   T <probe> <size> <sign> <ssize> <ssign>   type of a probe (sign: 0 unsigned, 1 signed, 2 pointer) and of its symbolic source
 *   V <probe> <value> <sym|-> <firstvec> <count>     distinct (value, symbolic value) per probe over clean runs
 *   D <probe>                          probe reached by at least one execution that was not committed
 *   R <fidx> <vec> <flags...>          per-execution resource verdicts (C04 only)
 */
#ifndef PROGSEM_RT_H
#define PROGSEM_RT_H
#include <stdio.h>
#include <stdlib.h>
#include <string.h>
#include <signal.h>
#include <setjmp.h>
#include <limits.h>
#include <stdint.h>

#ifdef __cplusplus
#define VEXTC extern "C"
#else
#define VEXTC
#endif

#ifndef VLOOP_MAX
#define VLOOP_MAX 64
#endif
#define VEV_MAX 4096

struct vev { int id; long long v; long long s; unsigned char has_s; };
static struct vev vevs[VEV_MAX];
static int vnev, voverflow;
static volatile int vub;            /* UB seen in the current execution */
static int vloopn;
static sigjmp_buf venv;
static signed char vtsz[1 << 20], vtsg[1 << 20];   /* probe types, filled on first hit */
static signed char vtsz2[1 << 20], vtsg2[1 << 20]; /* type of the symbolic source expression */

VEXTC void __asan_on_error(void) { vub |= 2; }
VEXTC const char *__asan_default_options(void) {
    return "handle_segv=0:handle_sigfpe=0:handle_sigill=0:handle_abort=0:handle_sigbus=0:halt_on_error=0:"
           "suppress_equal_pcs=0:detect_leaks=0:allocator_may_return_null=1:detect_stack_use_after_return=0:"
           "print_summary=0:new_delete_type_mismatch=1:alloc_dealloc_mismatch=1";
}

static void vsig(int s) { vub |= 4; siglongjmp(venv, s); }

static inline void vtrace(int id, long long v, int sz, int sg)
{
    if (vnev >= VEV_MAX) { voverflow = 1; return; }
    vevs[vnev].id = id; vevs[vnev].v = v; vevs[vnev].has_s = 0; vnev++;
    vtsz[id] = (signed char)sz; vtsg[id] = (signed char)sg;
}
static inline void vtrace2(int id, long long v, int sz, int sg, long long s, int ssz, int ssg)
{
    if (vnev >= VEV_MAX) { voverflow = 1; return; }
    vevs[vnev].id = id; vevs[vnev].v = v; vevs[vnev].s = s; vevs[vnev].has_s = 1; vnev++;
    vtsz[id] = (signed char)sz; vtsg[id] = (signed char)sg;
    vtsz2[id] = (signed char)ssz; vtsg2[id] = (signed char)ssg;
}
static inline void vloop_cut(void) { vub |= 8; siglongjmp(venv, 99); }
static inline void vuninit(void) { vub |= 16; }

/* value probe: evaluates e exactly once, keeps its type */
#define TR(id, e) ({ __typeof__(e) v_ = (e); vtrace(id, (long long)v_, (int)sizeof v_, ((__typeof__(e))-1) < 0); v_; })
/* value probe + the value of a side-effect-free expression s re-evaluated at this point (symbolic facts) */
#define TRS(id, e, s) ({ __typeof__(e) v_ = (e); __typeof__(s) s_ = (s); vtrace2(id, (long long)v_, (int)sizeof v_, ((__typeof__(e))-1) < 0, (long long)s_, (int)sizeof s_, ((__typeof__(s))-1) < 0); v_; })
/* pointer-valued occurrence */
#define TRP(id, e) ({ __typeof__(e) v_ = (e); vtrace(id, (long long)(intptr_t)v_, (int)sizeof v_, 2); v_; })
/* reached-marker, usable in comma expressions */
#define HIT(id) vtrace(id, 0, 0, 3)
#define VLOOP() do { if (++vloopn > VLOOP_MAX) vloop_cut(); } while (0)
/* read of a local whose shadow init flag is clear */
#define VUSE(flag) ((flag) ? (void)0 : vuninit())

/* ---- result table: distinct (probe, value, sym) ------------------------------------------------ */
struct vrow { int id; unsigned char has_s; long long v, s; int first; long long count; };
#define VTAB (1 << 16)
static struct vrow vrows[VTAB / 2];
static int vidx[VTAB];               /* 0 = empty, else row index + 1 */
static int vtabn;
static int vtab_full;

static void vcommit(int vec)
{
    for (int i = 0; i < vnev; i++) {
        struct vev *e = &vevs[i];
        unsigned long long h = (unsigned long long)e->id * 0x9E3779B97F4A7C15ull ^ (unsigned long long)e->v * 0xC2B2AE3D27D4EB4Full
                               ^ (e->has_s ? (unsigned long long)e->s * 0x165667B19E3779F9ull + 1 : 0);
        unsigned k = (unsigned)(h >> 40) & (VTAB - 1);
        for (;;) {
            if (!vidx[k]) {
                if (vtabn >= VTAB / 2) { vtab_full = 1; break; }
                struct vrow *r = &vrows[vtabn];
                r->id = e->id; r->v = e->v; r->s = e->s; r->has_s = e->has_s; r->first = vec; r->count = 1;
                vidx[k] = ++vtabn;
                break;
            }
            struct vrow *r = &vrows[vidx[k] - 1];
            if (r->id == e->id && r->v == e->v && r->has_s == e->has_s && (!e->has_s || r->s == e->s)) { r->count++; break; }
            k = (k + 1) & (VTAB - 1);
        }
    }
}

static int vrow_cmp(const void *a, const void *b)
{
    const struct vrow *x = (const struct vrow *)a, *y = (const struct vrow *)b;
    if (x->id != y->id) return x->id < y->id ? -1 : 1;
    if (x->first != y->first) return x->first < y->first ? -1 : 1;
    if (x->v != y->v) return x->v < y->v ? -1 : 1;
    return x->s < y->s ? -1 : x->s > y->s;
}

/* probes reached by executions that were NOT committed (UB / trap / loop cut / overflow): ids only */
static unsigned char vdirty[1 << 20];
static int vdirty_ids[1 << 14], vdirtyn;
static void vcommit_dirty(void)
{
    for (int i = 0; i < vnev; i++) {
        int id = vevs[i].id;
        if (!vdirty[id] && vdirtyn < (1 << 14)) { vdirty[id] = 1; vdirty_ids[vdirtyn++] = id; }
    }
}

static void vflush(FILE *out)
{
    for (int i = 0; i < vdirtyn; i++) { fprintf(out, "D %d\n", vdirty_ids[i]); vdirty[vdirty_ids[i]] = 0; }
    vdirtyn = 0;
    qsort(vrows, vtabn, sizeof vrows[0], vrow_cmp);
    int last = -1;
    for (int i = 0; i < vtabn; i++) {
        struct vrow *r = &vrows[i];
        if (r->id != last) { fprintf(out, "T %d %d %d %d %d\n", r->id, vtsz[r->id], vtsg[r->id], vtsz2[r->id], vtsg2[r->id]); last = r->id; }
        if (r->has_s) fprintf(out, "V %d %lld %lld %d %lld\n", r->id, r->v, r->s, r->first, r->count);
        else fprintf(out, "V %d %lld - %d %lld\n", r->id, r->v, r->first, r->count);
    }
    if (vtab_full) fprintf(out, "X tabfull\n");
    if (vtabn) memset(vidx, 0, sizeof vidx);
    vtabn = 0; vtab_full = 0;
}

/* ---- resource accounting (C04, grammar G4): allocations made through the vr_* wrappers ---------- */
#define VR_MAX 64
struct vres { void *p; int kind; int live; };     /* kind: 1 malloc-family, 2 FILE, 3 new, 4 new[] */
static struct vres vres_[VR_MAX];
static int vresn;
static int vr_bad;       /* bit0 double free/close, bit1 mismatch, bit2 use after free (own check), bit3 free of non-heap */
static void *vr_add(void *p, int kind) { if (p && vresn < VR_MAX) { vres_[vresn].p = p; vres_[vresn].kind = kind; vres_[vresn].live = 1; vresn++; } return p; }
static struct vres *vr_find(void *p) { for (int i = vresn - 1; i >= 0; i--) if (vres_[i].p == p) return &vres_[i]; return 0; }
static int vr_release(void *p, int kind)   /* returns 1 when the real deallocation may be performed */
{
    if (!p) return kind != 2;              /* free(NULL)/delete null are fine; fclose(NULL) is UB */
    struct vres *r = vr_find(p);
    if (!r) { vr_bad |= 8; return 0; }
    if (!r->live) { vr_bad |= 1; return 0; }
    if (r->kind != kind) { vr_bad |= 2; r->live = 0; return 0; }
    r->live = 0;
    return 1;
}
static int vr_isdead(const void *p) { struct vres *r = vr_find((void *)p); return r && !r->live; }

/* ---- driver ---------------------------------------------------------------------------------- */
struct vfun {
    long long (*call)(const long long *in);
    int nparam;
    const long long *dom[4];
    int ndom[4];
};

static int vrun_all(const struct vfun *fs, int nf, int argc, char **argv)
{
    int start = argc > 1 ? atoi(argv[1]) : 0;
    int only = argc > 2 ? atoi(argv[2]) : -1;     /* replay: run just this vector */
    static char obuf[1 << 16];
    setvbuf(stdout, obuf, _IOFBF, sizeof obuf);
    struct sigaction sa;
    memset(&sa, 0, sizeof sa);
    sa.sa_handler = vsig;
    sa.sa_flags = SA_NODEFER;
    sigaction(SIGILL, &sa, 0); sigaction(SIGFPE, &sa, 0); sigaction(SIGSEGV, &sa, 0);
    sigaction(SIGBUS, &sa, 0); sigaction(SIGABRT, &sa, 0); sigaction(SIGTRAP, &sa, 0);
    for (int f = start; f < nf; f++) {
        const struct vfun *vf = &fs[f];
        int nvec = 1;
        for (int i = 0; i < vf->nparam; i++) nvec *= vf->ndom[i];
        int clean = 0, ub = 0, cut = 0, ovf = 0;
        printf("B %d\n", f); fflush(stdout);            /* begin marker: a crash after this line is charged to f */
        for (int vec = 0; vec < nvec; vec++) {
            if (only >= 0 && vec != only) continue;
            long long in[4] = {0, 0, 0, 0};
            int q = vec;
            for (int i = vf->nparam - 1; i >= 0; i--) { in[i] = vf->dom[i][q % vf->ndom[i]]; q /= vf->ndom[i]; }
            vnev = 0; voverflow = 0; vub = 0; vloopn = 0; vresn = 0; vr_bad = 0;
            volatile long long ret = 0;
            volatile int returned = 0;
            if (sigsetjmp(venv, 1) == 0) { ret = vf->call(in); returned = 1; }
#ifdef VRES
            {
                int leak = 0;
                for (int i = 0; i < vresn; i++) if (vres_[i].live && (long long)(intptr_t)vres_[i].p != ret) leak |= 1 << (vres_[i].kind - 1);
                printf("R %d %d ret=%d ub=%d bad=%d leak=%d\n", f, vec, (int)returned, (int)vub, vr_bad, leak);
            }
#endif
            if (vr_bad) vub |= 32;
            if (voverflow) { ovf++; vcommit_dirty(); continue; }
            if (vub & 8) { cut++; vcommit_dirty(); continue; }
            if (vub || !returned) { ub++; vcommit_dirty(); continue; }
            clean++;
            vcommit(vec);
        }
        printf("F %d %d %d %d %d %d\n", f, nvec, clean, ub, cut, ovf);
        vflush(stdout);
    }
    printf("E\n");
    fflush(stdout);
    return 0;
}
#endif
