// C30 in-process harness, linked against the objects of one build variant of /repo.
//
//   valid_enum valid            stdin: one <valid> expression per line
//       stdout per expression:  E <expr>            (library refused the expression: load error)
//                          or   V <expr> <I> <F>    I = validity (1/0) of the integer arguments IMIN..IMAX,
//                                                   F = validity of the float arguments FMIN, FMIN+0.25, .. FMAX
//   valid_enum load             stdin: records "<name> <nbytes>\n<nbytes bytes of XML>\n"
//       stdout per record:      L <name> <xmlstatus> <ErrorCode as int> <reason, newlines escaped>
//                          or   X <name> exception <what>      (an exception left Library::load)
//                          or   D <name> <exit status | -signal> <stderr tail>   (the loading process died)
//   valid_enum loadfile F...    each file through Library::load(exename, path)
//
// The harness is a friend of Library (friend struct LibraryHelper) and therefore reaches Library::load(doc).
#include "library.h"
#include "settings.h"
#include "standards.h"
#include "token.h"
#include "tokenlist.h"
#include "tinyxml2.h"

#include <cstdio>
#include <cstdlib>
#include <cstring>
#include <iostream>
#include <string>
#include <vector>

#include <sys/types.h>
#include <sys/wait.h>
#include <unistd.h>

struct LibraryHelper {
    static Library::Error loaddoc(Library &lib, const tinyxml2::XMLDocument &doc) {
        return lib.load(doc);
    }
};

static const int IMIN = -4, IMAX = 12;
static const double FMIN = -4.0, FMAX = 12.0, FSTEP = 0.25;

static std::string esc(const std::string &s)
{
    std::string r;
    for (std::size_t i = 0; i < s.size(); i++) {
        const unsigned char c = s[i];
        if (c == '\n') r += "\\n";
        else if (c == '\r') r += "\\r";
        else if (c == '\\') r += "\\\\";
        else if (c < 32 || c >= 127) { char b[8]; std::snprintf(b, sizeof(b), "\\x%02x", c); r += b; }
        else r += static_cast<char>(c);
    }
    return r;
}

static int modeValid()
{
    const Settings settings;
    std::string line;
    while (std::getline(std::cin, line)) {
        if (line.empty())
            continue;
        const std::string xml = "<?xml version=\"1.0\"?>\n<def>\n<function name=\"f\">\n<arg nr=\"1\"><valid>" + line +
                                "</valid></arg>\n</function>\n</def>\n";
        tinyxml2::XMLDocument doc;
        if (doc.Parse(xml.data(), xml.size()) != tinyxml2::XML_SUCCESS) {
            std::cout << "E " << line << " badxml\n";
            continue;
        }
        Library lib;
        const Library::Error err = LibraryHelper::loaddoc(lib, doc);
        if (err.errorcode != Library::ErrorCode::OK) {
            std::cout << "E " << line << " " << static_cast<int>(err.errorcode) << std::endl;
            continue;
        }
        TokenList list(settings, Standards::Language::C);
        const char code[] = "f(a);";
        if (!list.createTokensFromBuffer(code, sizeof(code) - 1)) {
            std::cout << "E " << line << " tokens\n";
            continue;
        }
        list.front()->next()->astOperand1(list.front());
        const Token *ftok = list.front();
        std::string I, F;
        for (int i = IMIN; i <= IMAX; i++)
            I += lib.isIntArgValid(ftok, 1, i, settings) ? '1' : '0';
        for (double d = FMIN; d <= FMAX; d += FSTEP)
            F += lib.isFloatArgValid(ftok, 1, d, settings) ? '1' : '0';
        std::cout << "V " << line << " " << I << " " << F << std::endl;
    }
    return 0;
}

struct Rec { std::string name, xml; };

static void loadOne(const Rec &r)
{
    tinyxml2::XMLDocument doc;
    const tinyxml2::XMLError xe = doc.Parse(r.xml.data(), r.xml.size());
    if (xe != tinyxml2::XML_SUCCESS) {
        std::cout << "L " << r.name << " badxml -1 " << static_cast<int>(xe) << std::endl;
        return;
    }
    try {
        Library lib;
        const Library::Error err = LibraryHelper::loaddoc(lib, doc);
        std::cout << "L " << r.name << " ok " << static_cast<int>(err.errorcode) << " " << esc(err.reason) << std::endl;
    } catch (const std::exception &e) {
        std::cout << "X " << r.name << " exception " << esc(e.what()) << std::endl;
    } catch (...) {
        std::cout << "X " << r.name << " exception (unknown)" << std::endl;
    }
}

// Records are processed in a forked child; when the child dies the parent reports "D <name> <wait status> <stderr tail>"
// for the record it died on and forks a new child behind it (no exec, no second sanitizer start-up).
static int modeLoad()
{
    std::vector<Rec> recs;
    std::string head;
    while (std::getline(std::cin, head)) {
        const std::size_t sp = head.rfind(' ');
        if (sp == std::string::npos)
            return 3;
        Rec r;
        r.name = head.substr(0, sp);
        const std::size_t n = std::strtoul(head.c_str() + sp + 1, nullptr, 10);
        r.xml.assign(n, '\0');
        if (n)
            std::cin.read(&r.xml[0], n);
        std::cin.get();     // trailing newline
        recs.push_back(r);
    }
    std::size_t i = 0;
    while (i < recs.size()) {
        int pfd[2];
        if (pipe(pfd) != 0)
            return 4;
        FILE *errf = std::tmpfile();
        std::cout.flush();
        const pid_t pid = fork();
        if (pid < 0)
            return 5;
        if (pid == 0) {
            close(pfd[0]);
            if (errf)
                dup2(fileno(errf), 2);
            for (std::size_t j = i; j < recs.size(); j++) {
                loadOne(recs[j]);
                if (write(pfd[1], "x", 1) != 1)
                    _exit(9);
            }
            std::cout.flush();
            _exit(0);
        }
        close(pfd[1]);
        std::size_t done = 0;
        char buf[4096];
        ssize_t k;
        while ((k = read(pfd[0], buf, sizeof(buf))) > 0)
            done += static_cast<std::size_t>(k);
        close(pfd[0]);
        int status = 0;
        waitpid(pid, &status, 0);
        i += done;
        if (i < recs.size()) {
            std::string tail;
            if (errf) {
                std::fflush(errf);
                std::fseek(errf, 0, SEEK_END);
                long sz = std::ftell(errf);
                long from = sz > 2500 ? sz - 2500 : 0;
                std::fseek(errf, from, SEEK_SET);
                tail.resize(static_cast<std::size_t>(sz - from));
                if (!tail.empty() && std::fread(&tail[0], 1, tail.size(), errf) != tail.size())
                    tail += "?";
            }
            std::cout << "D " << recs[i].name << " " << (WIFSIGNALED(status) ? -WTERMSIG(status) : WEXITSTATUS(status)) << " " << esc(tail) << std::endl;
            i++;
        }
        if (errf)
            std::fclose(errf);
    }
    return 0;
}

int main(int argc, char **argv)
{
    if (argc >= 2 && std::strcmp(argv[1], "valid") == 0)
        return modeValid();
    if (argc >= 2 && std::strcmp(argv[1], "load") == 0)
        return modeLoad();
    if (argc >= 3 && std::strcmp(argv[1], "loadfile") == 0) {
        for (int i = 2; i < argc; i++) {
            try {
                Library lib;
                const Library::Error err = lib.load(argv[0], argv[i]);
                std::cout << "L " << argv[i] << " file " << static_cast<int>(err.errorcode) << " " << esc(err.reason) << std::endl;
            } catch (const std::exception &e) {
                std::cout << "X " << argv[i] << " exception " << esc(e.what()) << std::endl;
            }
        }
        return 0;
    }
    std::fprintf(stderr, "usage: valid_enum valid|load|loadfile FILE...\n");
    return 2;
}
