/* libvalloc.so -- LD_PRELOAD allocator that perturbs heap layout deterministically (property C29).
 * VALLOC=down : bump allocator growing DOWNWARDS (address order of any two live objects is reversed w.r.t. creation)
 * VALLOC=up   : bump allocator growing upwards
 * VALLOC=pad<k>: glibc malloc with every request enlarged by k bytes (shifts addresses and hash buckets)
 * free is a no-op for the bump modes (cppcheck runs on small inputs allocate little). */
#define _GNU_SOURCE
#include <dlfcn.h>
#include <stddef.h>
#include <stdint.h>
#include <stdlib.h>
#include <string.h>
#include <sys/mman.h>
#include <unistd.h>

static int mode = -1;            /* 0 passthrough, 1 down, 2 up, 3 pad */
static size_t pad;
static char *arena, *cur_up, *cur_down;
#define ARENA (12UL << 30)
static void *(*r_malloc)(size_t);
static void (*r_free)(void *);
static void *(*r_realloc)(void *, size_t);
static char boot[1 << 16];
static size_t bootn;

static void init(void)
{
    if (mode >= 0) return;
    mode = 0;
    const char *m = getenv("VALLOC");
    if (m && !strcmp(m, "down")) mode = 1;
    else if (m && !strcmp(m, "up")) mode = 2;
    else if (m && !strncmp(m, "pad", 3)) { mode = 3; pad = (size_t)atol(m + 3); }
    if (mode == 1 || mode == 2) {
        arena = mmap(NULL, ARENA, PROT_READ | PROT_WRITE, MAP_PRIVATE | MAP_ANONYMOUS | MAP_NORESERVE, -1, 0);
        if (arena == MAP_FAILED) { mode = 0; return; }
        cur_up = arena; cur_down = arena + ARENA;
    }
}

static void *bump(size_t n)
{
    n = (n + 15 + 16) & ~(size_t)15;           /* 16-byte header holds the size */
    char *p;
    if (mode == 1) p = __atomic_sub_fetch(&cur_down, n, __ATOMIC_SEQ_CST);
    else p = __atomic_fetch_add(&cur_up, n, __ATOMIC_SEQ_CST);
    if (p < arena || p + n > arena + ARENA) _exit(99);
    *(size_t *)p = n - 16;
    return p + 16;
}

void *malloc(size_t n)
{
    init();
    if (mode == 1 || mode == 2) return bump(n);
    if (!r_malloc) {
        static int resolving;
        if (resolving) { void *p = boot + bootn; bootn += (n + 15) & ~(size_t)15; return p; }
        resolving = 1; r_malloc = dlsym(RTLD_NEXT, "malloc"); resolving = 0;
    }
    return r_malloc(n + (mode == 3 ? pad : 0));
}
void free(void *p)
{
    if (!p || (char *)p >= boot && (char *)p < boot + sizeof boot) return;
    if (mode == 1 || mode == 2) { if ((char *)p >= arena && (char *)p < arena + ARENA) return; }
    if (!r_free) r_free = dlsym(RTLD_NEXT, "free");
    r_free(p);
}
void *calloc(size_t a, size_t b)
{
    size_t n = a * b;
    void *p = malloc(n);
    if (p) memset(p, 0, n);
    return p;
}
void *realloc(void *p, size_t n)
{
    init();
    if (!p) return malloc(n);
    if (mode == 1 || mode == 2) {
        if ((char *)p >= arena && (char *)p < arena + ARENA) {
            size_t old = *(size_t *)((char *)p - 16);
            if (n <= old) return p;
            void *q = bump(n);
            memcpy(q, p, old);
            return q;
        }
    }
    if ((char *)p >= boot && (char *)p < boot + sizeof boot) { void *q = malloc(n); memcpy(q, p, n); return q; }
    if (!r_realloc) r_realloc = dlsym(RTLD_NEXT, "realloc");
    return r_realloc(p, n + (mode == 3 ? pad : 0));
}
int posix_memalign(void **out, size_t al, size_t n)
{
    init();
    if (mode == 1 || mode == 2) { char *p = bump(n + al); *out = (void *)(((uintptr_t)p + al - 1) & ~(uintptr_t)(al - 1)); return 0; }
    static int (*r)(void **, size_t, size_t);
    if (!r) r = dlsym(RTLD_NEXT, "posix_memalign");
    return r(out, al, n);
}
void *aligned_alloc(size_t al, size_t n) { void *p = NULL; posix_memalign(&p, al, n); return p; }
void *memalign(size_t al, size_t n) { void *p = NULL; posix_memalign(&p, al, n); return p; }
