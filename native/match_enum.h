// C33: table entry shared by the generated translation units (compiled matchers) and native/match_enum.cpp
#ifndef VERIF_MATCH_ENUM_H
#define VERIF_MATCH_ENUM_H
class Token;
struct PatEntry {
    int id;                 // -1 terminates a chunk
    int kind;               // 0 Match, 1 simpleMatch, 2 findmatch, 3 findsimplematch
    const char* pattern;
    bool hasVarid;
    bool hasEnd;
    bool fromLib;
    bool (*m)(const Token*, int);
    const Token* (*f)(const Token*, const Token*, int);
};
struct TypedLiteral { const char* text; int types[4]; };
extern const PatEntry* const g_chunks[];
extern const TypedLiteral g_typedLiterals[];
#endif
