// C13 harness: bounded-exhaustive "garbage" enumeration, in-process, linked against the ASan+UBSan objects.
//
//   garbage_enum --tier quick|thorough --jobs N --deadline SECONDS --repo /repo --exe /verif/build/asan/bin/cppcheck
//                [--limit CPU_SECONDS] [--block N] [--from I --to J] [--plan]
//   garbage_enum --replay-hex HEX --lang c|cpp --optset K [--tolerate-timeout]      (runs in this process, no fork)
//   garbage_enum --replay-index I --tier T                                           (same, input regenerated)
//
// The master process builds the Settings of every option set with the real CmdLineParser, then forks one child per block
// of consecutive input indices.  A child writes the index it is working on into a shared page before each input; if it
// dies (signal, sanitizer report => exit!=0) the master attributes the death to that index, keeps the child's stderr,
// re-runs the input alone in a fresh child (confirmation) and continues the block after it.  A per-input CPU-time
// watchdog ends the child with status 3; the input is then re-run alone with 5x the limit before it is called a hang.
// Results are JSON lines on stdout.
#include "cppcheck.h"
#include "cmdlineparser.h"
#include "cmdlinelogger.h"
#include "errorlogger.h"
#include "errortypes.h"
#include "filesettings.h"
#include "settings.h"
#include "suppressions.h"
#include "library.h"

#include <algorithm>
#include <cerrno>
#include <csignal>
#include <cstdint>
#include <cstdio>
#include <cstdlib>
#include <cstring>
#include <deque>
#include <dirent.h>
#include <fcntl.h>
#include <fstream>
#include <map>
#include <memory>
#include <sstream>
#include <string>
#include <sys/mman.h>
#include <sys/resource.h>
#include <sys/stat.h>
#include <sys/time.h>
#include <sys/wait.h>
#include <unistd.h>
#include <vector>

extern "C" const char* __asan_default_options() {
    return "detect_leaks=0:handle_abort=1:abort_on_error=0:exitcode=77:allocator_may_return_null=0:"
           "max_allocation_size_mb=3000:quarantine_size_mb=64:allocator_release_to_os_interval_ms=-1:detect_stack_use_after_return=0:symbolize=1:print_summary=1";
}
extern "C" const char* __ubsan_default_options() {
    return "print_stacktrace=1:halt_on_error=1:exitcode=77";
}

// ------------------------------------------------------------------------------------------------ alphabets
static const char* const TOK[24] = {"int", "x", "(", ")", "{", "}", ";", "=", ",", "*", "&", "[", "]", "<", ">", ":", "::",
                                    "if", "else", "return", "struct", "template", "1", "\"s\""};
static const unsigned char B20[20] = {0x00, 0x01, 0x7f, 0x80, 0xff, '\n', '\r', ' ', '\\', '"', '\'', '#', '/', '*', '<', '(',
                                      '{', 'a', '0', '.'};
static const char* const CTXNAME[3] = {"file", "function", "class"};
static const char* const OPTNAME[4] = {"default", "all+inconclusive", "all+inconclusive+exhaustive", "all+inconclusive-Dx-Da"};

enum Kind { K_TOK, K_BYTE256, K_BYTE20, K_BYTEMIX, K_ORIG, K_DEL, K_DUP, K_SWAP, K_REP, K_BDEL, K_BFLIP };
static const char* const KINDNAME[] = {"tok", "byte256", "byte20", "bytemix", "corpus-orig", "corpus-del", "corpus-dup", "corpus-swap",
                                       "corpus-rep", "corpus-bytedel", "corpus-byteflip"};
enum Family { F_TOK, F_BYTES, F_CORPUS, F_N };
static const char* const FAMNAME[F_N] = {"tok", "bytes", "corpus"};
static Family familyOf(int k) { return k == K_TOK ? F_TOK : (k == K_BYTE256 || k == K_BYTE20 || k == K_BYTEMIX) ? F_BYTES : F_CORPUS; }

struct CorpusFile {
    std::string path;      // relative to repo
    std::string data;
    int lang;              // 0 = C, 1 = C++
    bool tolerateTimeout;
    std::vector<std::pair<size_t, size_t>> toks; // [begin,end) of non-blank lexemes
};

struct Segment {
    int kind;
    int len;      // token / byte string length (exact)
    int ctx;      // K_TOK
    int lang;
    int optset;
    int file;     // corpus
    uint64_t count;
    uint64_t first; // global index of first element
};

static std::vector<CorpusFile> g_corpus;
static std::vector<Segment> g_plan;
static uint64_t g_total = 0;

static uint64_t ipow(uint64_t b, int e) { uint64_t r = 1; while (e-- > 0) r *= b; return r; }

static void lexCorpus(CorpusFile& f)
{
    const std::string& s = f.data;
    size_t i = 0;
    auto isw = [](unsigned char c) { return std::isalnum(c) || c == '_' || c >= 0x80; };
    while (i < s.size()) {
        const unsigned char c = s[i];
        if (c == ' ' || c == '\t' || c == '\n' || c == '\r' || c == '\f' || c == '\v') { ++i; continue; }
        size_t j = i + 1;
        if (isw(c)) {
            while (j < s.size() && isw(s[j])) ++j;
        } else if (c == '"' || c == '\'') {
            while (j < s.size() && s[j] != (char)c && s[j] != '\n') { if (s[j] == '\\' && j + 1 < s.size()) ++j; ++j; }
            if (j < s.size() && s[j] == (char)c) ++j;
        } else if (c == ':' && j < s.size() && s[j] == ':') {
            ++j;
        }
        f.toks.emplace_back(i, j);
        i = j;
    }
}

static bool readFile(const std::string& p, std::string& out)
{
    std::ifstream f(p, std::ios::binary);
    if (!f) return false;
    std::ostringstream o; o << f.rdbuf(); out = o.str();
    return true;
}

static std::vector<std::string> listDir(const std::string& d)
{
    std::vector<std::string> r;
    DIR* dir = opendir(d.c_str());
    if (!dir) return r;
    while (dirent* e = readdir(dir)) {
        if (e->d_name[0] == '.') continue;
        r.emplace_back(e->d_name);
    }
    closedir(dir);
    std::sort(r.begin(), r.end());
    return r;
}

static void loadCorpus(const std::string& repo)
{
    struct D { const char* dir; int lang; bool tol; };
    const D dirs[] = {{"test/cli/fuzz-crash", 1, false}, {"test/cli/fuzz-crash_c", 0, false}, {"test/cli/fuzz-timeout", 1, true}};
    for (const D& d : dirs) {
        for (const std::string& n : listDir(repo + "/" + d.dir)) {
            CorpusFile f; f.path = std::string(d.dir) + "/" + n; f.lang = d.lang; f.tolerateTimeout = d.tol;
            if (readFile(repo + "/" + f.path, f.data)) { lexCorpus(f); g_corpus.push_back(std::move(f)); }
        }
    }
    for (const std::string& sub : listDir(repo + "/samples")) {
        for (const std::string& n : listDir(repo + "/samples/" + sub)) {
            const bool c = n.size() > 2 && n.compare(n.size() - 2, 2, ".c") == 0;
            const bool cpp = n.size() > 4 && n.compare(n.size() - 4, 4, ".cpp") == 0;
            if (!c && !cpp) continue;
            CorpusFile f; f.path = "samples/" + sub + "/" + n; f.lang = cpp ? 1 : 0; f.tolerateTimeout = false;
            if (readFile(repo + "/" + f.path, f.data)) { lexCorpus(f); g_corpus.push_back(std::move(f)); }
        }
    }
}

static void addSeg(int kind, int len, int ctx, int lang, int optset, int file, uint64_t count)
{
    if (count == 0) return;
    Segment s{kind, len, ctx, lang, optset, file, count, g_total};
    g_plan.push_back(s);
    g_total += count;
}

static void addCorpus(int kind, int optset, bool samples = true)
{
    for (size_t fi = 0; fi < g_corpus.size(); ++fi) {
        const CorpusFile& f = g_corpus[fi];
        if (!samples && f.path.compare(0, 8, "samples/") == 0) continue;
        uint64_t n = 0;
        switch (kind) {
        case K_ORIG: n = 1; break;
        case K_DEL: case K_DUP: n = f.toks.size(); break;
        case K_SWAP: n = f.toks.empty() ? 0 : f.toks.size() - 1; break;
        case K_REP: n = f.toks.size() * 24; break;
        case K_BDEL: case K_BFLIP: n = f.data.size(); break;
        }
        addSeg(kind, 0, 0, f.lang, optset, (int)fi, n);
    }
}

// Plans are ordered by size class, smallest first, the families interleaved so that a deadline cuts all of them at about the
// same depth.  The deadline may cut the tail (reported as exhaustive:false).
static void tokSegs(int len, int optset)
{
    for (int lang = 1; lang >= 0; --lang)
        for (int ctx = 0; ctx < 3; ++ctx)
            addSeg(K_TOK, len, ctx, lang, optset, -1, ipow(24, len));
}

static void buildPlan(const std::string& tier)
{
    const bool th = tier == "thorough";
    // size class 1: token strings of length <= 1 (all option sets, both languages, 3 contexts), single bytes, byte-alphabet pairs
    for (int len = 0; len <= 1; ++len)
        for (int o = 0; o < 4; ++o) tokSegs(len, o);
    for (int len = 0; len <= 1; ++len) addSeg(K_BYTE256, len, 0, 1, 1, -1, ipow(256, len));
    for (int len = 0; len <= 2; ++len) { addSeg(K_BYTE20, len, 0, 1, 1, -1, ipow(20, len)); addSeg(K_BYTE20, len, 0, 0, 0, -1, ipow(20, len)); }
    // the corpus files themselves, every option set
    for (int o = 0; o < 4; ++o) addCorpus(K_ORIG, o);
    // size class 2: all token pairs with all severities; token-level single-edit neighbourhood of the corpus
    tokSegs(2, 1);
    for (int k : {K_DEL, K_DUP, K_SWAP}) addCorpus(k, 1);
    for (int o : {0, 2, 3}) tokSegs(2, o);
    // byte strings: length 2 with one arbitrary byte (thorough: both arbitrary), length 3 over the 20-byte alphabet
    if (th) addSeg(K_BYTE256, 2, 0, 1, 1, -1, ipow(256, 2));
    else addSeg(K_BYTEMIX, 2, 0, 1, 1, -1, 256 * 20 * 2);
    addSeg(K_BYTE20, 3, 0, 1, 1, -1, ipow(20, 3));
    addSeg(K_BYTE20, 3, 0, 0, 0, -1, ipow(20, 3));
    // byte-level single-edit neighbourhood (quick: not for the larger samples/ files)
    for (int k : {K_BDEL, K_BFLIP}) addCorpus(k, 1, th);
    // size class 3: all token triples
    tokSegs(3, 1);
    if (!th) return;
    for (int len = 0; len <= 3; ++len) { addSeg(K_BYTE20, len, 0, 1, 0, -1, ipow(20, len)); addSeg(K_BYTE20, len, 0, 0, 1, -1, ipow(20, len)); }
    addCorpus(K_REP, 1);
    for (int o : {2, 3, 0})
        for (int k : {K_DEL, K_DUP, K_SWAP, K_BDEL, K_BFLIP}) addCorpus(k, o);
    for (int o : {2, 3, 0}) tokSegs(3, o);
    for (int lang = 1; lang >= 0; --lang)
        addSeg(K_BYTE20, 4, 0, lang, 1, -1, ipow(20, 4));
    for (int len = 4; len <= 5; ++len) tokSegs(len, 1);
}

struct Input {
    std::string data;
    int lang, optset, kind;
    bool tolerateTimeout;
    std::string descr;
};

static const Segment& segOf(uint64_t idx)
{
    size_t lo = 0, hi = g_plan.size();
    while (hi - lo > 1) {
        const size_t mid = (lo + hi) / 2;
        if (g_plan[mid].first <= idx) lo = mid; else hi = mid;
    }
    return g_plan[lo];
}

static Input gen(uint64_t idx)
{
    const Segment& s = segOf(idx);
    uint64_t k = idx - s.first;
    Input in; in.lang = s.lang; in.optset = s.optset; in.kind = s.kind; in.tolerateTimeout = false;
    char buf[200];
    switch (s.kind) {
    case K_TOK: {
        std::string body;
        std::vector<int> t(s.len);
        for (int i = s.len - 1; i >= 0; --i) { t[i] = (int)(k % 24); k /= 24; }
        for (int i = 0; i < s.len; ++i) { if (i) body += ' '; body += TOK[t[i]]; }
        if (s.ctx == 0) in.data = body + "\n";
        else if (s.ctx == 1) in.data = "void f ( ) { " + body + " }\n";
        else in.data = "struct S { " + body + " } ;\n";
        std::snprintf(buf, sizeof buf, "tok len=%d ctx=%s", s.len, CTXNAME[s.ctx]);
        in.descr = buf;
        break;
    }
    case K_BYTE256: case K_BYTE20: {
        const unsigned base = s.kind == K_BYTE256 ? 256 : 20;
        in.data.assign((size_t)s.len, '\0');
        for (int i = s.len - 1; i >= 0; --i) {
            const unsigned d = (unsigned)(k % base); k /= base;
            in.data[(size_t)i] = (char)(s.kind == K_BYTE256 ? d : B20[d]);
        }
        std::snprintf(buf, sizeof buf, "%s len=%d", KINDNAME[s.kind], s.len);
        in.descr = buf;
        break;
    }
    case K_BYTEMIX: {
        // k < 5120: (any byte, alphabet byte); else (alphabet byte, any byte)
        const bool second = k >= 256 * 20;
        const uint64_t r = k % (256 * 20);
        const unsigned char any = (unsigned char)(r / 20), al = B20[r % 20];
        in.data.assign(2, '\0');
        in.data[0] = (char)(second ? al : any);
        in.data[1] = (char)(second ? any : al);
        in.descr = "bytemix len=2";
        break;
    }
    default: {
        const CorpusFile& f = g_corpus[(size_t)s.file];
        in.tolerateTimeout = f.tolerateTimeout;
        const std::string& d = f.data;
        auto T = [&](size_t i) { return d.substr(f.toks[i].first, f.toks[i].second - f.toks[i].first); };
        switch (s.kind) {
        case K_ORIG: in.data = d; break;
        case K_DEL: in.data = d.substr(0, f.toks[k].first) + d.substr(f.toks[k].second); break;
        case K_DUP: in.data = d.substr(0, f.toks[k].second) + " " + T(k) + d.substr(f.toks[k].second); break;
        case K_SWAP:
            in.data = d.substr(0, f.toks[k].first) + T(k + 1) + d.substr(f.toks[k].second, f.toks[k + 1].first - f.toks[k].second) +
                      T(k) + d.substr(f.toks[k + 1].second);
            break;
        case K_REP: {
            const size_t i = k / 24;
            in.data = d.substr(0, f.toks[i].first) + TOK[k % 24] + d.substr(f.toks[i].second);
            break;
        }
        case K_BDEL: in.data = d.substr(0, k) + d.substr(k + 1); break;
        case K_BFLIP: in.data = d; in.data[k] = (char)((unsigned char)in.data[k] ^ 0x80); break;
        }
        std::snprintf(buf, sizeof buf, "%s %s #%llu", KINDNAME[s.kind], f.path.c_str(), (unsigned long long)k);
        in.descr = buf;
    }
    }
    return in;
}

// ------------------------------------------------------------------------------------------------ analysis
struct Stats {   // lives in shared memory; updated by children
    uint64_t done[F_N], accepted[F_N], rejected[F_N], withFindings[F_N], findings[F_N], exceptions[F_N];
    uint64_t optdone[4], langdone[2];
    uint64_t bytes;
};
struct Slot {
    volatile uint64_t cur;       // index being analysed
    volatile uint64_t started;   // 1 once the child entered the loop
    char exc[240];               // text of an exception that escaped the library (child continues)
    volatile uint64_t excIndex;
    volatile uint64_t excCount;
};
struct Shared {
    Stats st;
    Slot slot[256];
};
static Shared* g_sh = nullptr;

class SinkLogger : public ErrorLogger {
public:
    unsigned nFindings = 0;
    bool rejected = false;
    void reportOut(const std::string&, Color) override {}
    void reportErr(const ErrorMessage& msg) override {
        const std::string& id = msg.id;
        if (id == "logChecker" || id == "checkersReport") return;     // bookkeeping messages, not findings
        ++nFindings;
        if (verbose) std::printf("  finding: %s (%s)\n", id.c_str(), msg.shortMessage().c_str());
        if (id == "syntaxError" || id == "internalError" || id == "internalAstError" || id == "unknownMacro" ||
            id == "cppcheckError" || id == "preprocessorErrorDirective" || id == "cppcheckLimit" ||
            id == "internalErrorInclude" || id == "invalidFileName" || id == "unhandledChar" || id == "syntaxErrorInclude")
            rejected = true;
        else
            ++nReal;
    }
    void reportProgress(const std::string&, const char[], const std::size_t) override {}
    void reportMetric(const std::string&) override {}
    unsigned nReal = 0;
    bool verbose = false;
};

class NullCmdLogger : public CmdLineLogger {
public:
    std::string errors;
    void printMessage(const std::string&) override {}
    void printError(const std::string& m) override { errors += m + "\n"; }
    void printRaw(const std::string&) override {}
};

class Parser : public CmdLineParser {
public:
    using CmdLineParser::CmdLineParser;
    Result parse(int argc, const char* const argv[]) { return parseFromArgs(argc, argv); }
};

struct Config {
    Settings settings;
    Suppressions supprs;
};
static std::unique_ptr<Config> g_cfg[4][2];
static std::string g_exe = "/verif/build/asan/bin/cppcheck";
static std::string g_scratch;

static std::vector<std::string> optArgs(int optset, int lang)
{
    std::vector<std::string> a = {"cppcheck", "-q", lang ? "--language=c++" : "--language=c"};
    if (optset >= 1) { a.emplace_back("--enable=all"); a.emplace_back("--inconclusive"); }
    if (optset == 2) a.emplace_back("--check-level=exhaustive");
    if (optset == 3) { a.emplace_back("-Dx"); a.emplace_back("-Da"); }
    return a;
}

static bool makeConfigs()
{
    const std::string dummy = g_scratch + "/t.cpp";
    { std::ofstream f(dummy); f << "\n"; }
    for (int o = 0; o < 4; ++o)
        for (int lang = 0; lang < 2; ++lang) {
            std::unique_ptr<Config> c(new Config);
            NullCmdLogger log;
            Parser p(log, c->settings, c->supprs);
            std::vector<std::string> a = optArgs(o, lang);
            a.push_back(dummy);
            std::vector<const char*> argv;
            for (const std::string& s : a) argv.push_back(s.c_str());
            if (p.parse((int)argv.size(), argv.data()) != CmdLineParser::Result::Success) {
                std::fprintf(stderr, "HARNESS-ERROR: option set %d rejected by the command line parser: %s\n", o, log.errors.c_str());
                return false;
            }
            c->settings.exename = g_exe;
            if (o == 0 && lang == 0) {
                // std.cfg as the client loads it (same file, found next to the variant's binary); parsed once, then copied
                const Library::Error err = c->settings.library.load(nullptr, (g_exe.substr(0, g_exe.rfind('/')) + "/cfg/std.cfg").c_str(), false);
                if (err.errorcode != Library::ErrorCode::OK) {
                    std::fprintf(stderr, "HARNESS-ERROR: std.cfg not loaded (exe=%s)\n", g_exe.c_str());
                    return false;
                }
            } else
                c->settings.library = g_cfg[0][0]->settings.library;
            g_cfg[o][lang] = std::move(c);
        }
    return true;
}

static const FileWithDetails& fileFor(int lang)
{
    static const FileWithDetails fc("test.c", Standards::Language::C, 0);
    static const FileWithDetails fcpp("test.cpp", Standards::Language::CPP, 0);
    return lang ? fcpp : fc;
}

struct Outcome { bool rejected; unsigned findings; unsigned real; };

// One complete analysis as the command line client does it for one file with -j1:
// CppCheck::check -> checkInternal, then both whole-program stages.
static Outcome analyse(const Input& in)
{
    Config& c = *g_cfg[in.optset][in.lang];
    SinkLogger logger;
    logger.verbose = getenv("GARBAGE_VERBOSE") != nullptr;
    Suppressions supprs;
    {
        static const bool prof = getenv("GARBAGE_PROF") != nullptr;
        struct timeval a, b, c1, d, e;
        if (prof) gettimeofday(&a, nullptr);
        CppCheck cppcheck(c.settings, supprs, logger, nullptr, true, nullptr);
        if (prof) gettimeofday(&b, nullptr);
        const FileWithDetails& file = fileFor(in.lang);
        cppcheck.checkBuffer(file, in.data.data(), in.data.size());
        if (prof) gettimeofday(&c1, nullptr);
        cppcheck.analyseWholeProgram();
        if (prof) gettimeofday(&d, nullptr);
        const std::list<FileWithDetails> files{file};
        cppcheck.analyseWholeProgram("", files, {}, "");
        if (prof) {
            gettimeofday(&e, nullptr);
            auto us = [](const timeval& x, const timeval& y) { return (long)((y.tv_sec - x.tv_sec) * 1000000L + (y.tv_usec - x.tv_usec)); };
            std::fprintf(stderr, "PROF ctor=%ldus checkBuffer=%ldus wp1=%ldus wp2=%ldus\n", us(a, b), us(b, c1), us(c1, d), us(d, e));
        }
    }
    return Outcome{logger.rejected, logger.nFindings, logger.nReal};
}

static volatile sig_atomic_t g_inWatch = 0;
static void onTimer(int) { _exit(3); }
// solo re-run with the long limit.  Nothing is printed from the handler (not async-signal-safe, it deadlocked in practice);
// the driver finds the phase of a hang by attaching a debugger to a replay (props/C13.py: probe_phase).
static void onTimerTrace(int) { _exit(3); }
static double g_wallFactor = 6;   // wall-clock backstop = factor x CPU limit (+2 s)
static void armWatchdog(double cpuSeconds)
{
    struct itimerval it;
    std::memset(&it, 0, sizeof it);
    it.it_value.tv_sec = (time_t)cpuSeconds;
    it.it_value.tv_usec = (suseconds_t)((cpuSeconds - (double)(time_t)cpuSeconds) * 1e6);
    setitimer(ITIMER_PROF, &it, nullptr);
    alarm((unsigned)(cpuSeconds * g_wallFactor) + 2);     // wall-clock backstop (sleep / deadlock / starved machine)
}
static void disarmWatchdog()
{
    struct itimerval it;
    std::memset(&it, 0, sizeof it);
    setitimer(ITIMER_PROF, &it, nullptr);
    alarm(0);
}

static void onWallInconclusive(int) { _exit(6); }
static double g_deadlineAbs = 0;   // children of block jobs stop between two inputs once this wall-clock time has passed
static double wallNow()
{
    struct timeval tv; gettimeofday(&tv, nullptr);
    return (double)tv.tv_sec + (double)tv.tv_usec * 1e-6;
}

static void runRange(int slotNo, uint64_t from, uint64_t to, double limit, bool trace, bool stopAtDeadline)
{
    Slot& sl = g_sh->slot[slotNo];
    signal(SIGPROF, trace ? onTimerTrace : onTimer);
    // alone with the long limit: only used-up CPU time makes a hang; running out of wall-clock time first (starved machine)
    // is reported as inconclusive (status 6)
    signal(SIGALRM, trace ? onWallInconclusive : onTimer);
    if (trace) g_wallFactor = 2.4;
    for (uint64_t i = from; i < to; ++i) {
        if (stopAtDeadline && g_deadlineAbs > 0 && wallNow() > g_deadlineAbs) { sl.cur = i; _exit(5); }
        const Input in = gen(i);
        sl.cur = i;
        sl.started = 1;
        __sync_synchronize();
        armWatchdog(limit);
        const Family fam = familyOf(in.kind);
        try {
            const Outcome o = analyse(in);
            disarmWatchdog();
            Stats& st = g_sh->st;
            __atomic_add_fetch(&st.done[fam], 1, __ATOMIC_RELAXED);
            __atomic_add_fetch(o.rejected ? &st.rejected[fam] : &st.accepted[fam], 1, __ATOMIC_RELAXED);
            if (o.real) __atomic_add_fetch(&st.withFindings[fam], 1, __ATOMIC_RELAXED);
            __atomic_add_fetch(&st.findings[fam], o.findings, __ATOMIC_RELAXED);
            __atomic_add_fetch(&st.optdone[in.optset], 1, __ATOMIC_RELAXED);
            __atomic_add_fetch(&st.langdone[in.lang], 1, __ATOMIC_RELAXED);
            __atomic_add_fetch(&st.bytes, in.data.size(), __ATOMIC_RELAXED);
        } catch (const std::exception& e) {
            disarmWatchdog();
            std::snprintf(sl.exc, sizeof sl.exc, "std::exception: %s", e.what());
            sl.excIndex = i;
            _exit(4);
        } catch (const InternalError& e) {
            disarmWatchdog();
            std::snprintf(sl.exc, sizeof sl.exc, "InternalError(%s): %s", e.id.c_str(), e.errorMessage.c_str());
            sl.excIndex = i;
            _exit(4);
        } catch (...) {
            disarmWatchdog();
            std::snprintf(sl.exc, sizeof sl.exc, "unknown exception type");
            sl.excIndex = i;
            _exit(4);
        }
    }
}

// ------------------------------------------------------------------------------------------------ master
static std::string hex(const std::string& s)
{
    static const char* d = "0123456789abcdef";
    std::string r;
    for (unsigned char c : s) { r += d[c >> 4]; r += d[c & 15]; }
    return r;
}
static std::string unhex(const std::string& h)
{
    std::string r;
    auto v = [](char c) { return c <= '9' ? c - '0' : (c | 32) - 'a' + 10; };
    for (size_t i = 0; i + 1 < h.size(); i += 2) r += (char)(v(h[i]) * 16 + v(h[i + 1]));
    return r;
}
static std::string jstr(const std::string& s)
{
    std::string r = "\"";
    char b[8];
    for (unsigned char c : s) {
        if (c == '"' || c == '\\') { r += '\\'; r += (char)c; }
        else if (c == '\n') r += "\\n";
        else if (c < 0x20 || c >= 0x7f) { std::snprintf(b, sizeof b, "\\u%04x", c); r += b; }
        else r += (char)c;
    }
    return r + "\"";
}

enum JobKind { J_BLOCK, J_CONFIRM, J_SLOW };
struct Job { uint64_t from, to; JobKind kind; size_t rec; };
struct Record {
    std::string type;   // crash | exception | hang | timeout-tolerated
    uint64_t index;
    std::string status, stderrText, excText;
    int confirmed;      // -1 pending, 0 not reproduced alone, 1 reproduced alone
    uint64_t blockFrom;
};
struct Running { pid_t pid; Job job; int slot; double t0; };

static double now()
{
    struct timeval tv; gettimeofday(&tv, nullptr);
    return (double)tv.tv_sec + (double)tv.tv_usec * 1e-6;
}

static std::string slotErrPath(int slot) { return g_scratch + "/slot" + std::to_string(slot) + ".err"; }

static std::string readTail(const std::string& p, size_t maxn)
{
    std::string s;
    readFile(p, s);
    if (s.size() > maxn) s = s.substr(0, maxn * 3 / 4) + "\n...\n" + s.substr(s.size() - maxn / 4);
    return s;
}

static void printRecord(const Record& r)
{
    const Input in = gen(r.index);
    std::printf("{\"type\":%s,\"index\":%llu,\"family\":\"%s\",\"kind\":\"%s\",\"descr\":%s,\"lang\":\"%s\",\"optset\":%d,"
                "\"options\":%s,\"input_hex\":\"%s\",\"input_text\":%s,\"status\":%s,\"exception\":%s,\"reproduced_alone\":%d,"
                "\"block_from\":%llu,\"tolerate_timeout\":%s,\"stderr\":%s}\n",
                jstr(r.type).c_str(), (unsigned long long)r.index, FAMNAME[familyOf(in.kind)], KINDNAME[in.kind],
                jstr(in.descr).c_str(), in.lang ? "cpp" : "c", in.optset, jstr(OPTNAME[in.optset]).c_str(), hex(in.data).c_str(),
                jstr(in.data).c_str(), jstr(r.status).c_str(), jstr(r.excText).c_str(), r.confirmed,
                (unsigned long long)r.blockFrom, in.tolerateTimeout ? "true" : "false", jstr(r.stderrText).c_str());
    std::fflush(stdout);
}

static int master(const std::string& tier, int jobs, double deadlineS, double limit, uint64_t block, uint64_t from, uint64_t to)
{
    const double t0 = now();
    g_deadlineAbs = t0 + deadlineS;
    std::deque<Job> queue;        // priority jobs (remainders, confirmations)
    uint64_t next = from;
    std::vector<Running> running;
    std::vector<Record> recs;
    std::vector<int> freeSlots;
    for (int i = jobs - 1; i >= 0; --i) freeSlots.push_back(i);
    bool capped = false;
    uint64_t dispatchedTo = from;

    auto spawn = [&](const Job& j) {
        const int slot = freeSlots.back(); freeSlots.pop_back();
        Slot& sl = g_sh->slot[slot];
        sl.cur = j.from; sl.started = 0; sl.exc[0] = 0; sl.excIndex = ~0ULL;
        std::fflush(stdout);
        const pid_t pid = fork();
        if (pid == 0) {
            const int fd = open(slotErrPath(slot).c_str(), O_WRONLY | O_CREAT | O_TRUNC, 0600);
            if (fd >= 0) { dup2(fd, 2); close(fd); }
            const int nul = open("/dev/null", O_WRONLY);
            if (nul >= 0) { dup2(nul, 1); close(nul); }
            runRange(slot, j.from, j.to, j.kind == J_SLOW ? limit * 5 : limit, j.kind == J_SLOW, j.kind == J_BLOCK);
            _exit(0);
        }
        if (pid < 0) { std::perror("fork"); std::exit(2); }
        running.push_back(Running{pid, j, slot, now()});
    };

    while (true) {
        while (!freeSlots.empty()) {
            if (!queue.empty()) { Job j = queue.front(); queue.pop_front(); spawn(j); continue; }
            if (next < to) {
                if (now() - t0 > deadlineS) { capped = true; break; }
                const uint64_t end = std::min(to, next + block);
                spawn(Job{next, end, J_BLOCK, 0});
                next = end; dispatchedTo = end;
                continue;
            }
            break;
        }
        if (running.empty()) break;
        int st = 0;
        const pid_t pid = waitpid(-1, &st, 0);
        if (pid < 0) { if (errno == EINTR) continue; std::perror("waitpid"); break; }
        size_t ri = 0;
        for (; ri < running.size(); ++ri) if (running[ri].pid == pid) break;
        if (ri == running.size()) continue;
        const Running r = running[ri];
        running.erase(running.begin() + (long)ri);
        freeSlots.push_back(r.slot);
        const Slot& sl = g_sh->slot[r.slot];
        if (WIFEXITED(st) && WEXITSTATUS(st) == 5 && r.job.kind == J_BLOCK) { capped = true; continue; }   // stopped by the deadline
        const bool okExit = WIFEXITED(st) && WEXITSTATUS(st) == 0;
        if (okExit) {
            if (r.job.kind == J_CONFIRM) recs[r.job.rec].confirmed = 0;
            if (r.job.kind == J_SLOW) { /* finished with the longer limit: slow, not a hang */
                __atomic_add_fetch(&g_sh->slot[255].excCount, 1, __ATOMIC_RELAXED);   // slow-but-finished counter
            }
            continue;
        }
        const uint64_t at = sl.started ? sl.cur : r.job.from;
        char stbuf[64];
        if (WIFSIGNALED(st)) std::snprintf(stbuf, sizeof stbuf, "signal %d", WTERMSIG(st));
        else std::snprintf(stbuf, sizeof stbuf, "exit %d", WEXITSTATUS(st));
        const bool timeout = WIFEXITED(st) && WEXITSTATUS(st) == 3;
        const bool exc = WIFEXITED(st) && WEXITSTATUS(st) == 4;
        if (r.job.kind == J_BLOCK) {
            if (timeout) {
                queue.push_back(Job{at, at + 1, J_SLOW, 0});
            } else {
                Record rec;
                rec.type = exc ? "exception" : "crash";
                rec.index = at; rec.status = stbuf; rec.confirmed = -1; rec.blockFrom = r.job.from;
                rec.stderrText = readTail(slotErrPath(r.slot), 12000);
                rec.excText = exc ? std::string(sl.exc) : std::string();
                recs.push_back(rec);
                queue.push_back(Job{at, at + 1, J_CONFIRM, recs.size() - 1});
            }
            if (at + 1 < r.job.to) queue.push_back(Job{at + 1, r.job.to, J_BLOCK, 0});
        } else if (r.job.kind == J_CONFIRM) {
            Record& rec = recs[r.job.rec];
            rec.confirmed = 1;
            if (timeout) rec.status += " (alone: timeout)";
            else {
                const std::string e2 = readTail(slotErrPath(r.slot), 12000);
                if (!e2.empty()) rec.stderrText = e2;
            }
        } else { // J_SLOW
            Record rec;
            const Input in = gen(at);
            rec.index = at; rec.confirmed = 1; rec.blockFrom = at;
            if (WIFEXITED(st) && WEXITSTATUS(st) == 6) {
                rec.type = "timeout-inconclusive";
                rec.status = "alone: wall-clock backstop reached before the CPU limit (machine too busy to tell slow from hanging)";
            } else if (timeout) {
                rec.type = in.tolerateTimeout ? "timeout-tolerated" : "hang";
                char b[80]; std::snprintf(b, sizeof b, "no result within %.0f CPU seconds", limit * 5);
                rec.status = b;
                rec.stderrText = readTail(slotErrPath(r.slot), 12000);
            } else {
                rec.type = exc ? "exception" : "crash";
                rec.status = stbuf;
                rec.stderrText = readTail(slotErrPath(r.slot), 12000);
                rec.excText = exc ? std::string(sl.exc) : std::string();
            }
            recs.push_back(rec);
        }
    }
    for (const Record& r : recs) printRecord(r);
    const Stats& s = g_sh->st;
    struct rusage ru;
    getrusage(RUSAGE_CHILDREN, &ru);
    const double cpu = (double)ru.ru_utime.tv_sec + (double)ru.ru_utime.tv_usec * 1e-6 + (double)ru.ru_stime.tv_sec + (double)ru.ru_stime.tv_usec * 1e-6;
    std::printf("{\"type\":\"stats\",\"children_cpu_s\":%.1f,", cpu);
    std::printf("\"tier\":\"%s\",\"total_planned\":%llu,\"range\":[%llu,%llu],\"dispatched_to\":%llu,\"capped\":%s,"
                "\"wall_s\":%.2f,\"jobs\":%d,\"limit_cpu_s\":%.1f,\"slow_but_finished\":%llu,\"input_bytes\":%llu,\"corpus_files\":%zu",
                tier.c_str(), (unsigned long long)g_total, (unsigned long long)from, (unsigned long long)to,
                (unsigned long long)dispatchedTo, capped ? "true" : "false", now() - t0, jobs, limit,
                (unsigned long long)g_sh->slot[255].excCount, (unsigned long long)s.bytes, g_corpus.size());
    for (int f = 0; f < F_N; ++f)
        std::printf(",\"%s\":{\"done\":%llu,\"accepted\":%llu,\"rejected\":%llu,\"with_findings\":%llu,\"findings\":%llu}", FAMNAME[f],
                    (unsigned long long)s.done[f], (unsigned long long)s.accepted[f], (unsigned long long)s.rejected[f],
                    (unsigned long long)s.withFindings[f], (unsigned long long)s.findings[f]);
    std::printf(",\"by_optset\":[%llu,%llu,%llu,%llu],\"by_lang\":{\"c\":%llu,\"cpp\":%llu}}\n", (unsigned long long)s.optdone[0],
                (unsigned long long)s.optdone[1], (unsigned long long)s.optdone[2], (unsigned long long)s.optdone[3],
                (unsigned long long)s.langdone[0], (unsigned long long)s.langdone[1]);
    std::fflush(stdout);
    return 0;
}

static void printPlan()
{
    std::map<std::string, uint64_t> agg;
    for (const Segment& s : g_plan) {
        char b[200];
        if (s.kind == K_TOK) std::snprintf(b, sizeof b, "tok len=%d optset=%d", s.len, s.optset);
        else if (s.kind <= K_BYTEMIX) std::snprintf(b, sizeof b, "%s len=%d optset=%d", KINDNAME[s.kind], s.len, s.optset);
        else std::snprintf(b, sizeof b, "%s optset=%d", KINDNAME[s.kind], s.optset);
        agg[b] += s.count;
    }
    std::printf("{\"type\":\"plan\",\"total\":%llu,\"corpus_files\":%zu,\"segments\":{", (unsigned long long)g_total, g_corpus.size());
    bool first = true;
    for (const auto& kv : agg) { std::printf("%s%s:%llu", first ? "" : ",", jstr(kv.first).c_str(), (unsigned long long)kv.second); first = false; }
    std::printf("}}\n");
}

int main(int argc, char** argv)
{
    std::string tier = "quick", repo = "/repo", replayHex, replayLang = "cpp";
    int jobs = 8, replayOpt = 1;
    double deadline = 1e9, limit = 20;
    uint64_t block = 500, from = 0, to = ~0ULL, replayIndex = ~0ULL, sampleIndex = ~0ULL;
    bool plan = false, haveHex = false;
    for (int i = 1; i < argc; ++i) {
        const std::string a = argv[i];
        auto val = [&]() -> std::string { return i + 1 < argc ? argv[++i] : ""; };
        if (a == "--tier") tier = val();
        else if (a == "--jobs") jobs = std::atoi(val().c_str());
        else if (a == "--deadline") deadline = std::atof(val().c_str());
        else if (a == "--limit") limit = std::atof(val().c_str());
        else if (a == "--block") block = std::strtoull(val().c_str(), nullptr, 10);
        else if (a == "--from") from = std::strtoull(val().c_str(), nullptr, 10);
        else if (a == "--to") to = std::strtoull(val().c_str(), nullptr, 10);
        else if (a == "--repo") repo = val();
        else if (a == "--exe") g_exe = val();
        else if (a == "--plan") plan = true;
        else if (a == "--replay-hex") { replayHex = val(); haveHex = true; }
        else if (a == "--replay-index") replayIndex = std::strtoull(val().c_str(), nullptr, 10);
        else if (a == "--show-index") sampleIndex = std::strtoull(val().c_str(), nullptr, 10);
        else if (a == "--lang") replayLang = val();
        else if (a == "--optset") replayOpt = std::atoi(val().c_str());
        else { std::fprintf(stderr, "unknown argument %s\n", a.c_str()); return 2; }
    }
    jobs = std::max(1, std::min(jobs, 200));
    loadCorpus(repo);
    buildPlan(tier);
    if (plan) { printPlan(); return 0; }
    if (sampleIndex != ~0ULL) {
        const Input in = gen(sampleIndex);
        std::printf("{\"type\":\"sample\",\"index\":%llu,\"descr\":%s,\"lang\":\"%s\",\"optset\":%d,\"input_text\":%s}\n",
                    (unsigned long long)sampleIndex, jstr(in.descr).c_str(), in.lang ? "cpp" : "c", in.optset, jstr(in.data).c_str());
        return 0;
    }
    char tmpl[] = "/dev/shm/verif-c13-XXXXXX";
    if (!mkdtemp(tmpl)) { std::perror("mkdtemp"); return 2; }
    g_scratch = tmpl;
    int rc = 0;
    if (!makeConfigs()) rc = 2;
    else if (haveHex || replayIndex != ~0ULL) {
        Input in;
        if (haveHex) { in.data = unhex(replayHex); in.lang = replayLang == "c" ? 0 : 1; in.optset = replayOpt; in.kind = K_ORIG; }
        else in = gen(replayIndex);
        std::printf("replaying %zu bytes, language %s, options: %s\n", in.data.size(), in.lang ? "c++" : "c", OPTNAME[in.optset]);
        std::fflush(stdout);
        signal(SIGPROF, [](int) { static const char m[] = "OBSERVED: no result within the watchdog limit (hang)\n"; (void)!write(1, m, sizeof m - 1); _exit(3); });
        signal(SIGALRM, [](int) { static const char m[] = "OBSERVED: no result within the watchdog limit (hang)\n"; (void)!write(1, m, sizeof m - 1); _exit(3); });
        armWatchdog(limit * 5);
        try {
            const double ta = now();
            Outcome o = analyse(in);
            const double tb = now();
            if (getenv("GARBAGE_REPEAT")) { const int n = atoi(getenv("GARBAGE_REPEAT")); for (int q = 0; q < n; ++q) o = analyse(in); std::printf("first %.6f s, then %.6f s per analysis\n", tb - ta, (now() - tb) / n); }
            disarmWatchdog();
            std::printf("OBSERVED: returned normally, findings=%u rejected=%d\n", o.findings, (int)o.rejected);
        } catch (const std::exception& e) {
            std::printf("OBSERVED: uncaught std::exception: %s\n", e.what()); rc = 4;
        } catch (const InternalError& e) {
            std::printf("OBSERVED: uncaught InternalError: %s\n", e.errorMessage.c_str()); rc = 4;
        }
    } else {
        g_sh = (Shared*)mmap(nullptr, sizeof(Shared), PROT_READ | PROT_WRITE, MAP_SHARED | MAP_ANONYMOUS, -1, 0);
        if (g_sh == MAP_FAILED) { std::perror("mmap"); return 2; }
        std::memset(g_sh, 0, sizeof(Shared));
        to = std::min(to, g_total);
        rc = master(tier, jobs, deadline, limit, block, from, to);
    }
    for (const std::string& n : listDir(g_scratch)) unlink((g_scratch + "/" + n).c_str());
    rmdir(g_scratch.c_str());
    return rc;
}
