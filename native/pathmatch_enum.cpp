// C31 seam harness: exhaustive table of PathMatch::match over a bounded alphabet.
//
//   pathmatch_enum table Lp Lq base1 [base2 ...]   -> packed result bits on stdout
//   pathmatch_enum one <pattern> <path> <base> <r|d>   -> prints 0 or 1
//
// Enumeration order (must be mirrored by vlib/ref_pathmatch.py):
//   patterns: all strings of length 0..Lp over "ab./*?" , by length then lexicographic in alphabet order
//   paths:    all strings of length 0..Lq over "ab./",   same ordering
//   for pattern: for base: for mode in (regular, directory): ceil(NQ/8) bytes, bit i (LSB first) = match(path i)
#include "pathmatch.h"

#include <cstdio>
#include <cstdlib>
#include <cstring>
#include <string>
#include <vector>

static void gen(const char *alpha, int maxlen, std::vector<std::string> &out)
{
    const int n = std::strlen(alpha);
    out.emplace_back();
    std::size_t first = 0;
    for (int len = 1; len <= maxlen; len++) {
        const std::size_t last = out.size();
        for (std::size_t i = first; i < last; i++) {
            for (int k = 0; k < n; k++)
                out.push_back(out[i] + alpha[k]);
        }
        first = last;
    }
}

int main(int argc, char **argv)
{
    if (argc >= 6 && std::strcmp(argv[1], "one") == 0) {
        const bool m = PathMatch::match(argv[2], argv[3], argv[4],
                                        argv[5][0] == 'd' ? PathMatch::Filemode::directory : PathMatch::Filemode::regular,
                                        PathMatch::Syntax::unix);
        std::printf("%d\n", m ? 1 : 0);
        return 0;
    }
    if (argc >= 5 && std::strcmp(argv[1], "table") == 0) {
        const int lp = std::atoi(argv[2]), lq = std::atoi(argv[3]);
        std::vector<std::string> pats, paths, bases;
        gen("ab./*?", lp, pats);
        gen("ab./", lq, paths);
        for (int i = 4; i < argc; i++)
            bases.emplace_back(argv[i]);
        const std::size_t nbytes = (paths.size() + 7) / 8;
        std::vector<unsigned char> buf(nbytes);
        const PathMatch::Filemode modes[2] = {PathMatch::Filemode::regular, PathMatch::Filemode::directory};
        for (const std::string &pat : pats) {
            for (const std::string &base : bases) {
                for (int m = 0; m < 2; m++) {
                    std::fill(buf.begin(), buf.end(), 0);
                    for (std::size_t i = 0; i < paths.size(); i++) {
                        if (PathMatch::match(pat, paths[i], base, modes[m], PathMatch::Syntax::unix))
                            buf[i >> 3] |= (unsigned char)(1u << (i & 7));
                    }
                    if (std::fwrite(buf.data(), 1, nbytes, stdout) != nbytes)
                        return 3;
                }
            }
        }
        return 0;
    }
    std::fprintf(stderr, "usage: pathmatch_enum table Lp Lq base... | one pattern path base r|d\n");
    return 2;
}
