"""Compare the name resolution in a cppcheck dump with clang's (shared by C08 and C35).

judge(ref, cfg, tags, rules) -> (stats, problems)
  ref    vlib.clangref.Ref of the translation unit
  cfg    vlib.dumpcheck.Cfg of the same file (one configuration)
  tags   {line: generator tag} (vlib.scopegen) used only to name the class of a disagreement
  rules  subset of {"var", "varid-unique", "call"}

(i)   var: a token at the position of a clang variable use (DeclRefExpr / MemberExpr naming a Var/ParmVar/Field
      declaration) that carries `variable` (or only `varId`) must denote the declaration clang names: the variable's
      name token lies on one of the positions of clang's redeclaration chain (resp. the varId is the varId found at
      one of these positions).  Tokens without link are not judged.  If clang's target has no printable position
      (lambda init-capture) cppcheck must at least not name another declaration clang knows.
(ii)  varid-unique: the varIds found at the positions of two different clang declarations (different
      redeclaration chains) are different.
(iii) call: a token at the position of a clang function reference that carries `function` must denote that
      function: tokenDef or token of the function lies on the chain of the FunctionDecl clang selected.
"""
from . import clangref

VAR = clangref.VAR_KINDS
FUN = clangref.FUN_KINDS


def _tagname(tags, line, default="?"):
    t = tags.get(line) if tags else None
    if not t:
        return default
    return t[1] if t[0] == "decl" else "use"


def judge(ref, cfg, tags=None, rules=("var", "varid-unique", "call"), imported=False):
    """imported=True: the dump comes from `cppcheck --clang`; the import gives all tokens of an AST node the node's
    location (begin of the range, or begin line / end column), so these candidate positions are looked at as well
    (the token must still spell the name)."""
    st = {"var_uses": 0, "var_uses_linked_judged": 0, "var_uses_unlinked": 0, "var_uses_no_token": 0,
          "var_uses_unjudgeable": 0, "var_agree": 0, "calls": 0, "calls_linked_judged": 0, "calls_unlinked": 0,
          "call_agree": 0, "decl_positions": 0, "decl_positions_with_varid": 0, "_judged_var_lines": [],
          "_judged_call_lines": []}
    problems = []            # dicts: rule, form, where, clang, cppcheck, line, msg
    toks = cfg.tokens
    at = {}
    for a in toks:
        at.setdefault((int(a.get("linenr", 0)), int(a.get("column", 0))), []).append(a)
    byid = {a.get("id"): a for a in toks}
    variables = {v.get("id"): v for v in cfg.variables}
    functions = {f.get("id"): f for f in cfg.functions}

    def tpos(tid):
        a = byid.get(tid)
        return (int(a.get("linenr")), int(a.get("column"))) if a is not None else None

    classes = ref.classes(with_range_end=imported)
    posclass = {}
    for c, ps in classes.items():
        for p in ps:
            posclass.setdefault(p, set()).add(c)
    kind_of = {i: d.kind for i, d in ref.decls.items()}

    # varIds at declaration positions
    declvarid = {}
    for i, d in ref.decls.items():
        if d.kind not in VAR:
            continue
        st["decl_positions"] += 1
        for dp in ([(d.line, d.col)] if not imported else sorted(clangref.import_positions(d))):
            ids = set(a.get("varId") for a in at.get(dp, []) if a.get("str") == d.name and a.get("varId"))
            if ids:
                st["decl_positions_with_varid"] += 1
                declvarid[dp] = ids

    def dtag(pos):
        return _tagname(tags, pos[0], "line%d" % pos[0]) if pos else "?"

    if "varid-unique" in rules:
        owner = {}
        for (pos, ids) in sorted(declvarid.items()):
            cs = posclass.get(pos, set())
            for vid in ids:
                for c in cs:
                    if kind_of.get(c) not in VAR:
                        continue
                    if vid in owner and owner[vid][0] != c:
                        o = owner[vid]
                        problems.append({"rule": "shared-varid", "form": "", "where": "",
                                         "clang": dtag(o[1]), "cppcheck": dtag(pos), "line": pos[0],
                                         "msg": "declarations at %s and %s are different entities for clang but share "
                                                "varId %s" % (o[1], pos, vid)})
                    else:
                        owner.setdefault(vid, (c, pos))

    for u in ref.uses:
        if not u.name:
            continue
        tk = u.tkind or kind_of.get(u.target)
        if tk is None and u.nkind == "MemberExpr":
            tk = "FieldDecl" if u.target not in ref.decls else ref.decls[u.target].kind
        here = [a for a in at.get((u.line, u.col), []) if a.get("str") == u.name]
        if imported and (u.bline, u.bcol) != (u.line, u.col):
            here += [a for a in at.get((u.bline, u.bcol), []) if a.get("str") == u.name]
        use_t = tags.get(u.line) if tags else None
        if use_t and use_t[0] == "use":
            uform, uwhere = use_t[1], use_t[2]
        else:
            uform, uwhere = "x", ("hdr:" + use_t[1]) if use_t else "?"
        if tk in VAR and "var" in rules:
            st["var_uses"] += 1
            if not here:
                st["var_uses_no_token"] += 1
                continue
            known = u.target in ref.decls
            P = classes.get(ref.canon(u.target), set()) if known else set()
            for a in here:
                if a.get("variable") and a.get("variable") in variables:
                    q = tpos(variables[a["variable"]].get("nameToken"))
                    if q is None:
                        st["var_uses_unjudgeable"] += 1
                        continue
                    if known:
                        ok = q in P
                    elif q in posclass:
                        ok = False          # cppcheck names a declaration clang knows; clang names another one
                    else:
                        st["var_uses_unjudgeable"] += 1
                        continue
                    st["var_uses_linked_judged"] += 1
                    st["_judged_var_lines"].append(u.line)
                    if ok:
                        st["var_agree"] += 1
                    else:
                        want = sorted(P)[0] if P else None
                        problems.append({"rule": "var", "form": uform, "where": uwhere,
                                         "clang": dtag(want) if want else "capture", "cppcheck": dtag(q), "line": u.line,
                                         "msg": "use of '%s' at %d:%d: clang binds it to the declaration at %s, cppcheck's "
                                         "variable is declared at %d:%d" % (u.name, u.line, u.col,
                                                                            sorted(P) if P else "(init-capture)", q[0], q[1])})
                elif a.get("varId"):
                    vid = a["varId"]
                    mine = set()
                    for p in P:
                        mine |= declvarid.get(p, set())
                    other = [p for p, ids in declvarid.items() if vid in ids and p not in P]
                    if vid in mine:
                        st["var_uses_linked_judged"] += 1
                        st["_judged_var_lines"].append(u.line)
                        st["var_agree"] += 1
                    elif other:
                        st["var_uses_linked_judged"] += 1
                        st["_judged_var_lines"].append(u.line)
                        problems.append({"rule": "varid", "form": uform, "where": uwhere,
                                         "clang": dtag(sorted(P)[0]) if P else "capture",
                                         "cppcheck": dtag(sorted(other)[0]), "line": u.line,
                                         "msg": "use of '%s' at %d:%d has varId %s which is the varId of the declaration at "
                                         "%s; clang binds the use to %s" % (u.name, u.line, u.col, vid, sorted(other),
                                                                            sorted(P) if P else "(init-capture)")})
                    else:
                        st["var_uses_unjudgeable"] += 1
                else:
                    st["var_uses_unlinked"] += 1
        elif tk in FUN and "call" in rules:
            st["calls"] += 1
            if not here or u.target not in ref.decls:
                continue
            P = classes.get(ref.canon(u.target), set())
            for a in here:
                f = functions.get(a.get("function")) if a.get("function") else None
                if f is None:
                    st["calls_unlinked"] += 1
                    continue
                qs = set(x for x in (tpos(f.get("tokenDef")), tpos(f.get("token"))) if x)
                st["calls_linked_judged"] += 1
                st["_judged_call_lines"].append(u.line)
                if qs & P:
                    st["call_agree"] += 1
                else:
                    problems.append({"rule": "call", "form": u.name, "where": uwhere, "clang": str(sorted(P)),
                                     "cppcheck": str(sorted(qs)), "line": u.line, "clang_pos": sorted(P),
                                     "cppcheck_pos": sorted(qs),
                                     "msg": "call of '%s' at %d:%d: clang selects the function declared at %s, cppcheck "
                                     "links the function declared at %s" % (u.name, u.line, u.col, sorted(P), sorted(qs))})
    return st, problems


def judge_imported(ref, cfg, tags=None):
    """Rule (i) for a dump produced by `cppcheck --clang`.

    lib/clangimport.cpp gives all tokens of an AST node the node's location as it parses it from clang's text dump
    (begin of the range; begin line / END column for '<line:L:B, col:E>'; column 1 when the node line carries a file
    name or a 'prev 0x..' field), so token positions are only approximately clang's.  Therefore:
      * the tokens of a use are looked up at the begin and at the end of clang's expression range (spelling = name);
        if several tokens qualify (`s.s` puts both names on one position) one agreeing token suffices;
      * a declaration is identified by (candidate position, name) with the candidates of clangref.import_positions;
      * a use is a disagreement only if no candidate token names the right declaration and one names a position+name
        that belongs to a *different* declaration of clang which no other clang use at that token's position refers
        to; everything else is counted as not judgeable."""
    st = {"var_uses": 0, "var_uses_linked_judged": 0, "var_uses_unlinked": 0, "var_uses_no_token": 0,
          "var_uses_unjudgeable": 0, "var_agree": 0, "_judged_var_lines": []}
    problems = []
    at = {}
    for a in cfg.tokens:
        at.setdefault((int(a.get("linenr", 0)), int(a.get("column", 0))), []).append(a)
    byid = {a.get("id"): a for a in cfg.tokens}
    variables = {v.get("id"): v for v in cfg.variables}
    named = {}
    for i, d in ref.decls.items():
        if d.kind in VAR:
            for p in clangref.import_positions(d):
                named.setdefault((p, d.name), set()).add(ref.canon(i))

    def dtag(pos):
        return _tagname(tags, pos[0], "line%d" % pos[0]) if pos else "?"

    # what clang expects at a token position: the targets of ALL its uses that may own a token there (`s.s` puts two
    # names on one position, a template and its instantiations repeat every use at the same source position)
    expected = {}
    for u in ref.uses:
        if u.name:
            for p in {(u.line, u.col), (u.bline, u.bcol)}:
                expected.setdefault((p, u.name), set()).add(ref.canon(u.target))

    for u in ref.uses:
        if not u.name:
            continue
        tk = u.tkind or (ref.decls[u.target].kind if u.target in ref.decls else ("FieldDecl" if u.nkind == "MemberExpr" else None))
        if tk not in VAR:
            continue
        st["var_uses"] += 1
        cands = []
        for p in {(u.line, u.col), (u.bline, u.bcol)}:
            cands += [a for a in at.get(p, []) if a.get("str") == u.name]
        if not cands:
            st["var_uses_no_token"] += 1
            continue
        linked = [a for a in cands if a.get("variable") in variables]
        if not linked:
            st["var_uses_unlinked"] += 1
            continue
        target = ref.canon(u.target)
        agree, other = False, None
        for a in linked:
            nt = byid.get(variables[a["variable"]].get("nameToken"))
            if nt is None:
                continue
            key = ((int(nt.get("linenr")), int(nt.get("column"))), nt.get("str"))
            cls = named.get(key)
            if cls and target in cls:
                agree = True
            elif cls and not (cls & expected.get(((int(a.get("linenr")), int(a.get("column"))), u.name), set())):
                other = key[0]      # names a declaration that no clang use at this position refers to
        use_t = tags.get(u.line) if tags else None
        if agree:
            st["var_uses_linked_judged"] += 1
            st["var_agree"] += 1
            st["_judged_var_lines"].append(u.line)
        elif other is not None:
            st["var_uses_linked_judged"] += 1
            st["_judged_var_lines"].append(u.line)
            want = (ref.decls[u.target].line, ref.decls[u.target].col) if u.target in ref.decls else None
            problems.append({"rule": "var", "form": use_t[1] if use_t and use_t[0] == "use" else u.name,
                             "where": use_t[2] if use_t and use_t[0] == "use" else "",
                             "clang": dtag(want) if want else "capture", "cppcheck": dtag(other), "line": u.line,
                             "msg": "use of '%s' at %d:%d: clang binds it to the declaration at %s, the imported model "
                                    "links it to the declaration at %d:%d" % (u.name, u.line, u.col, want, other[0], other[1])})
        else:
            st["var_uses_unjudgeable"] += 1
    return st, problems


MEMBERS = ("S1", "C1")
OUTER = ("G", "N1")


def classify(p):
    """Stable class key of a disagreement (the minimal input class, not the whole input)."""
    path = p["where"].split(".")[0].split("/") if p["where"] else []
    if p["rule"] in ("var", "varid"):
        if p["clang"] == "capture":
            return "lambda-init-capture-bound-to-outer-variable"
        if p["clang"] in MEMBERS and p["cppcheck"] in OUTER and "O" in path and p["form"] in ("x", "this->x"):
            return "member-hidden-by-outer-variable-in-out-of-class-member-function"
        ctx = "".join(sorted(set(k[0] for k in path if k and k[0] in "OL")))
        return "%s:%s:clang=%s:cppcheck=%s%s" % (p["rule"], p["form"], p["clang"], p["cppcheck"], (":in=" + ctx) if ctx else "")
    if p["rule"] == "shared-varid":
        return "shared-varid:%s/%s" % tuple(sorted((p["clang"], p["cppcheck"])))
    return "call:%s" % p["form"]
