"""Run the real cppcheck binary in private scratch workspaces and parse what it reports."""
import os, shutil, subprocess, tempfile, itertools, threading
import xml.etree.ElementTree as ET
from . import build

_base = None
_ctr = itertools.count()
_lock = threading.Lock()


def scratch_base():
    global _base
    with _lock:
        if _base is None:
            root = "/dev/shm" if os.path.isdir("/dev/shm") and os.access("/dev/shm", os.W_OK) else tempfile.gettempdir()
            _base = tempfile.mkdtemp(prefix="verif.%d." % os.getpid(), dir=root)
            import atexit
            atexit.register(lambda: shutil.rmtree(_base, ignore_errors=True))
        return _base


class WS:
    """A scratch workspace directory (removed on close / interpreter exit)."""

    def __init__(self, files=None, name=None):
        self.dir = os.path.join(scratch_base(), name or "w%d" % next(_ctr))
        os.makedirs(self.dir, exist_ok=True)
        for p, c in (files or {}).items():
            self.write(p, c)

    def path(self, rel=""):
        return os.path.join(self.dir, rel)

    def write(self, rel, content):
        p = self.path(rel)
        os.makedirs(os.path.dirname(p), exist_ok=True)
        mode = "wb" if isinstance(content, (bytes, bytearray)) else "w"
        with open(p, mode) as f:
            f.write(content)
        return p

    def read(self, rel, binary=False):
        with open(self.path(rel), "rb" if binary else "r") as f:
            return f.read()

    def remove(self, rel):
        p = self.path(rel)
        if os.path.isdir(p):
            shutil.rmtree(p)
        elif os.path.exists(p):
            os.unlink(p)

    def close(self):
        shutil.rmtree(self.dir, ignore_errors=True)

    def __enter__(self):
        return self

    def __exit__(self, *a):
        self.close()


class Res:
    def __init__(self, rc, out, err, timed_out=False):
        self.rc, self.out, self.err, self.timed_out = rc, out, err, timed_out

    def text_out(self):
        return self.out.decode("utf-8", "replace")

    def text_err(self):
        return self.err.decode("utf-8", "replace")


def cppcheck(args, cwd, variant="plain", env=None, timeout=120, stdin=None, binary=None):
    exe = binary or build.cppcheck(variant)
    e = dict(os.environ)
    e.pop("CPPCHECK_HOME", None)
    e["LC_ALL"] = "C"
    if env:
        e.update(env)
    try:
        p = subprocess.run([exe] + list(args), cwd=cwd, env=e, stdout=subprocess.PIPE, stderr=subprocess.PIPE,
                           timeout=timeout, input=stdin)
        return Res(p.returncode, p.stdout, p.stderr)
    except subprocess.TimeoutExpired as ex:
        return Res(-999, ex.stdout or b"", ex.stderr or b"", timed_out=True)


def parse_xml(err_bytes):
    """Parse --xml (version 2) output -> list of finding dicts; raises ET.ParseError if malformed."""
    root = ET.fromstring(err_bytes)
    out = []
    errs = root.find("errors")
    if errs is None:
        return out
    for e in errs.findall("error"):
        locs = tuple((l.get("file"), int(l.get("line") or 0), int(l.get("column") or 0), l.get("info") or "")
                     for l in e.findall("location"))
        syms = tuple(s.text or "" for s in e.findall("symbol"))
        out.append({"id": e.get("id"), "severity": e.get("severity"), "msg": e.get("msg"),
                    "verbose": e.get("verbose"), "inconclusive": e.get("inconclusive") == "true",
                    "cwe": e.get("cwe"), "file0": e.get("file0"), "locs": locs, "symbols": syms,
                    "remark": e.get("remark")})
    return out


def fkey(f, with_file0=False, with_verbose=True):
    """Canonical hashable identity of a finding."""
    k = (f["id"], f["severity"], f["inconclusive"], f["msg"], f["verbose"] if with_verbose else None, f["locs"])
    if with_file0:
        k += (f["file0"],)
    return k


def fshort(f):
    loc = f["locs"][-1] if f["locs"] else ("", 0, 0, "")
    return "%s:%d:%d %s/%s%s %s" % (loc[0], loc[1], loc[2], f["id"], f["severity"],
                                      "/inconclusive" if f["inconclusive"] else "", f["msg"])


def findings_xml(args, cwd, **kw):
    """Run with --xml and return (list of findings | None if XML unparsable, Res)."""
    r = cppcheck(["--xml"] + list(args), cwd, **kw)
    try:
        return parse_xml(r.err), r
    except ET.ParseError:
        return None, r
