"""C33 helper: pattern extraction with tools/matchcompiler.py's own scanner, pattern generation from the documented
grammar, and generation of the C++ translation units that hold the compiled matchers (matchcompiler.py's own code
generator) together with a table the native harness walks."""
import glob, hashlib, importlib.util, itertools, os

KINDS = ("Match", "simpleMatch", "findmatch", "findsimplematch")

CMDS = ["%any%", "%assign%", "%bool%", "%char%", "%comp%", "%cop%", "%name%", "%num%", "%op%", "%or%", "%oror%", "%type%",
        "%str%", "%var%", "%varid%"]
# literal words; "|" and "||" cannot be written as words of Token::Match (the doc comment offers %or% / %oror% for them)
LITS = ["x", ";", "(", "<", "[", "const", "%", "int", "restrict"]
ALTS = ["x|y", ";|{", "%name%|%num%", "%var%|)", "%or%|x", "x|%or%", "%oror%|%or%", "%op%|(", "(|%op%", "<|>",
        "const|volatile", "%varid%|x"]
OPTS = ["x|", "const|volatile|", "%name%|", "%or%|", ";|{|", "%varid%|", "%op%|x|"]
SETS = ["[abc]", "[;{}]", "[(,]", "[<>]", "[x]", "[|&]"]
NEGS = ["!!x", "!!;", "!!else", "!!("]
VOCAB = CMDS + LITS + ALTS + OPTS + SETS + NEGS
# one representative per item form, for 3-item patterns
REDUCED = ["%name%", "%varid%", "x", "<", "x|y", "%or%|x", "x|", "%name%|", "%varid%|", "[abc]", "!!x", "%any%", "%op%", ";"]
REDUCED_THOROUGH = REDUCED + ["%var%", "%type%", "%num%", "%oror%", "const", "[", "%var%|)", "const|volatile|", "[;{}]",
                              "!!else"]
SIMPLE_LITS = ["x", ";", "(", "||", "|", "[", "%", "const"]


def load_matchcompiler(repo):
    spec = importlib.util.spec_from_file_location("cppcheck_matchcompiler", os.path.join(repo, "tools", "matchcompiler.py"))
    mod = importlib.util.module_from_spec(spec)
    spec.loader.exec_module(mod)
    return mod


def extract_lib_patterns(repo, scratch):
    """Run matchcompiler.py's own conversion over lib/*.cpp and record every call it rewrites.
    Returns a list of dicts {kind, pattern (raw C text), varid, end, files}."""
    mcmod = load_matchcompiler(repo)

    class Rec(mcmod.MatchCompiler):
        def __init__(self):
            super().__init__()
            self.recs = []
            self.cur = ""

        def _replaceSpecificTokenMatch(self, is_simplematch, line, start_pos, end_pos, pattern, tok, varId):
            self.recs.append(("simpleMatch" if is_simplematch else "Match", pattern, bool(varId), False, self.cur))
            return super()._replaceSpecificTokenMatch(is_simplematch, line, start_pos, end_pos, pattern, tok, varId)

        def _replaceSpecificFindTokenMatch(self, is_findsimplematch, line, start_pos, end_pos, pattern, tok, endToken, varId):
            self.recs.append(("findsimplematch" if is_findsimplematch else "findmatch", pattern, bool(varId), bool(endToken),
                              self.cur))
            return super()._replaceSpecificFindTokenMatch(is_findsimplematch, line, start_pos, end_pos, pattern, tok,
                                                          endToken, varId)

    r = Rec()
    out = os.path.join(scratch, "mc_out.cpp")
    for f in sorted(glob.glob(os.path.join(repo, "lib", "*.cpp"))):
        r.cur = os.path.basename(f)
        r.convertFile(f, out, False)
    if os.path.exists(out):
        os.unlink(out)
    seen = {}
    for kind, pat, varid, end, fn in r.recs:
        k = (kind, pat, varid, end)
        seen.setdefault(k, set()).add(fn)
    res = [{"kind": k[0], "pattern": k[1], "varid": k[2], "end": k[3], "files": sorted(v), "lib": True}
           for k, v in sorted(seen.items())]
    return res, len(r.recs)


def generated_patterns(tier):
    """All patterns of <= 2 items over VOCAB, all 3-item patterns over the reduced vocabulary (Match); findmatch with and
    without end token for <= 2 items over the reduced vocabulary; simpleMatch over literal words."""
    res = []
    seen = set()

    def add(kind, items, end=False):
        pat = " ".join(items)
        varid = "%varid%" in pat
        k = (kind, pat, varid, end)
        if k in seen:
            return
        seen.add(k)
        res.append({"kind": kind, "pattern": pat, "varid": varid, "end": end, "files": [], "lib": False})

    red = REDUCED_THOROUGH if tier == "thorough" else REDUCED
    for n in (1, 2):
        for items in itertools.product(VOCAB, repeat=n):
            add("Match", items)
    for items in itertools.product(red, repeat=3):
        add("Match", items)
    for n in (1, 2):
        for items in itertools.product(red, repeat=n):
            add("findmatch", items, False)
            add("findmatch", items, True)
    for n in (1, 2):
        for items in itertools.product(SIMPLE_LITS, repeat=n):
            add("simpleMatch", items)
            if n == 1:
                add("findsimplematch", items, False)
                add("findsimplematch", items, True)
    return res


def write_sources(repo, pats, outdir, nchunks=8):
    """Generate outdir/match_gen_<i>.cpp (compiled matchers + table chunk) and outdir/match_gen_index.cpp."""
    mcmod = load_matchcompiler(repo)
    mc = mcmod.MatchCompiler()
    os.makedirs(outdir, exist_ok=True)
    chunks = [[] for _ in range(nchunks)]
    used = set()
    for p in pats:
        # stable function number: a changed pattern only touches its own chunk (object files are cached by content)
        h = int(hashlib.sha256(repr((p["kind"], p["pattern"], p["varid"], p["end"])).encode()).hexdigest()[:7], 16)
        while h in used:
            h += 1
        used.add(h)
        p["id"] = h
        chunks[h % nchunks].append(p)
    for c in chunks:
        c.sort(key=lambda p: p["id"])
    files = []
    for ci, chunk in enumerate(chunks):
        src = ['#include "matchcompiler.h"', '#include <string>', '#include <cstring>', '#include "errorlogger.h"',
               '#include "token.h"', '#include "match_enum.h"', '#define MAYBE_UNUSED __attribute__((unused))', '']
        rows = []
        for p in chunk:
            n = p["id"]
            kind = p["kind"]
            varid = "varid" if p["varid"] else None
            if kind in ("Match", "simpleMatch"):
                src.append(mc._compilePattern(p["pattern"], n, varid))
                src.append("static bool wm%d(const Token* t, int varid) { (void)varid; return match%d(t%s); }\n" % (
                    n, n, ", varid" if varid else ""))
                rows.append((n, KINDS.index(kind), p, "wm%d" % n, "nullptr"))
            else:
                end = "end" if p["end"] else None
                src.append(mc._compileFindPattern(p["pattern"], n, end, varid))
                src.append("static const Token* wf%d(const Token* t, const Token* end, int varid) { (void)varid; (void)end; "
                           "return findmatch%d<const Token>(t%s%s); }\n" % (n, n, ", end" if end else "", ", varid" if varid else ""))
                rows.append((n, KINDS.index(kind), p, "nullptr", "wf%d" % n))
        src.append("extern const PatEntry g_pats_%d[];" % ci)
        src.append("const PatEntry g_pats_%d[] = {" % ci)
        for n, k, p, m, f in rows:
            src.append('    {%d, %d, "%s", %s, %s, %s, %s, %s},' % (n, k, p["pattern"], "true" if p["varid"] else "false",
                                                                  "true" if p["end"] else "false",
                                                                  "true" if p["lib"] else "false", m, f))
        src.append("    {-1, 0, nullptr, false, false, false, nullptr, nullptr}")
        src.append("};")
        path = os.path.join(outdir, "match_gen_%d.cpp" % ci)
        _write_if_changed(path, "\n".join(src) + "\n")
        files.append(path)
    idx = ['#include "token.h"', '#include "match_enum.h"']
    # the token-type table of matchcompiler.py, for the classification of disagreements only
    idx.append("const TypedLiteral g_typedLiterals[] = {")
    for lit, types in sorted(mcmod.tokTypes.items()):
        idx.append('    {"%s", {%s, -1}},' % (lit, ", ".join("Token::" + t for t in types)))
    idx.append("    {nullptr, {-1}}")
    idx.append("};")
    for ci in range(nchunks):
        idx.append("extern const PatEntry g_pats_%d[];" % ci)
    idx.append("const PatEntry* const g_chunks[] = {%s, nullptr};" % ", ".join("g_pats_%d" % ci for ci in range(nchunks)))
    path = os.path.join(outdir, "match_gen_index.cpp")
    _write_if_changed(path, "\n".join(idx) + "\n")
    files.append(path)
    return files


def _write_if_changed(path, text):
    try:
        if open(path).read() == text:
            return
    except OSError:
        pass
    with open(path, "w") as f:
        f.write(text)
