"""Program-execution oracle for C01-C04 (DESIGN 2.4).

A generated function is an AST (nested tuples, JSON-able).  It is printed twice:
  P   plain, one statement per line, line/column of the main token of every expression occurrence known;
      analysed by ONE `cppcheck --dump [--xml]` run per batch of functions;
  P'  the same text with every r-value occurrence wrapped in a type-preserving probe (native/progsem_rt.h),
      compiled ONCE per batch with gcc/g++ -O0 -fsanitize=address,undefined (UBSan in trap mode) and executed on
      every vector of the finite input domain.  Executions with any sanitizer event / trap / loop cut are discarded.
Facts (dump <value> elements) and findings (XML) are mapped to occurrences by (line, column).

Expression AST                                       main token (where cppcheck attaches values)
  ('n', int[, suffix])        literal                 -
  ('v', name)                 variable                name
  ('b', op, l, r)             binary                  op
  ('u', op, e)                unary - ~ !             op
  ('c', ctype, e)             cast                    (
  ('=', op, lv, e)            assignment expression   op
  ('pre', op, lv) ('post', op, lv)                    op
  ('?', c, a, b)                                      ?
  ('call', name, args, cls)   cls 'int'|'void'|'ptr'  ( after name
  ('*', e) ('&', lv) ('[]', arr, idx) ('.', s, m)     * & [ .
  ('m', obj, method, args, cls)  C++ member call      ( after method      (obj is an expression, usually ('v',..))
  ('raw', text, cls)          opaque text, not probed inside
Statement AST
  ('decl', ctype, name, init|None) ('declarr', ctype, name, n, inits) ('declptr', ctype, name, init_expr)
  ('declraw', text, name)  ('e', expr) ('if', c, then, else|None) ('while', c, body) ('dowhile', body, c)
  ('for', init_stmt|None, cond|None, step|None, body) ('switch', e, ((label|None, stmts, has_break), ...))
  ('ret', e|None) ('break',) ('continue',) ('raw', text)
Function: dict(name, ret, params=[(ctype, name)], body=[stmts], pre=[file-level items], vars={name: cls})
  file-level items: ('global', ctype, name, init) ('func', function-dict) ('raw', text)
  '@' in any name is replaced by '_<index>' when the function is placed in a batch.
"""
import os, re, subprocess, json, itertools, time, collections
from . import build, run
from .core import ROOT, sha

RT_DIR = os.path.join(ROOT, "native")

# ---- C types ---------------------------------------------------------------------------------------------------
TYPES = {  # key: (C spelling, bits, signed)
    "sc": ("signed char", 8, True), "uc": ("unsigned char", 8, False), "c": ("char", 8, True),
    "ss": ("short", 16, True), "us": ("unsigned short", 16, False),
    "si": ("int", 32, True), "ui": ("unsigned int", 32, False),
    "sl": ("long long", 64, True), "ul": ("unsigned long long", 64, False),
    "l": ("long", 64, True), "b": ("_Bool", 1, False),
}
BASE_DOMAIN = [-2 ** 31, -2, -1, 0, 1, 2, 3, 255, 256, 2 ** 31 - 1]
SMALL_DOMAIN = [-2, -1, 0, 1, 2, 3]


def ctype(key, lang="c"):
    if key in TYPES:
        s = TYPES[key][0]
        return "bool" if (s == "_Bool" and lang == "cpp") else s
    return key


def trange(key):
    _, bits, sg = TYPES[key]
    if key == "b":
        return 0, 1
    return (-(1 << (bits - 1)), (1 << (bits - 1)) - 1) if sg else (0, (1 << bits) - 1)


def domain(key, small=False):
    lo, hi = trange(key)
    if key == "b":
        return [0, 1]
    d = [v for v in (SMALL_DOMAIN if small else BASE_DOMAIN) if lo <= v <= hi]
    if not small:
        for v in (lo, hi):
            if v not in d and abs(v) < 2 ** 63:
                d.append(v)
    return sorted(set(d))


def spelled_type_key(spelling):
    sp = spelling.replace("const", "").strip()
    for k, t in TYPES.items():
        if t[0] == sp or (k == "b" and sp == "bool"):
            return k
    return sp


def tup(x):
    """JSON lists -> tuples (AST round trip)."""
    if isinstance(x, list):
        return tuple(tup(y) for y in x)
    if isinstance(x, dict):
        return {k: (tup(v) if k not in ("params", "body", "pre", "post") else [tup(y) for y in v]) for k, v in x.items()}
    return x


def untup(x):
    if isinstance(x, (tuple, list)):
        return [untup(y) for y in x]
    if isinstance(x, dict):
        return {k: untup(v) for k, v in x.items()}
    return x


# ---- occurrences -----------------------------------------------------------------------------------------------
class Occ:
    __slots__ = ("id", "kind", "off", "tok", "text", "pure", "vars", "writes", "scope", "line", "col", "stmt", "node",
                 "fn", "cls", "children", "parent", "role")

    def __repr__(self):
        return "Occ(%s %s %s:%s '%s' %s)" % (self.id, self.kind, self.line, self.col, self.tok, self.text)


OPEN, MID, CLOSE = "\x01", "\x02", "\x03"     # probe markers in the probed template: \x01<id>\x02 expr \x03<id>\x02


def lit(v, suf=""):
    if v < 0:
        if v == -2 ** 31 and not suf:
            return "(-2147483647 - 1)"
        if v == -2 ** 63:
            return "(-9223372036854775807LL - 1)"
        return "(-%d%s)" % (-v, suf)
    if v > 2 ** 31 - 1 and not suf:
        suf = "LL" if v < 2 ** 63 else "ULL"
    return "%d%s" % (v, suf)


class FnPrinter:
    """Prints one function (and its file-level items); collects occurrences with positions relative to the first line."""

    def __init__(self, fn, index, lang="c", stmt_hits=False):
        self.fn, self.index, self.lang = fn, index, lang
        self.stmt_hits = stmt_hits
        self.stmt_occ = {}          # relative line -> statement-level hit occurrence
        self.plain, self.probed = [], []
        self.occs = []
        self.scope = [set()]
        self.vars = dict(fn.get("vars") or {})
        self.stmt_no = 0
        self.cur_fn = None
        self.uninit = set(fn.get("uninit") or ())       # locals carrying a shadow init flag (C04)
        self._kids = [[]]
        self.cond_tops = []      # occurrence ids of the controlling expressions of if / while / for / switch
        self.last_top = None
        self.defs = []          # (variable, kind, occ id of the defining expression | None, declared type / lvalue kind)
        self.vtypes = {}        # variable -> declared type key

    # -- helpers
    def nm(self, s):
        return s.replace("@", "_%d" % self.index)

    def cls(self, name):
        return self.vars.get(name, "int")

    def visible(self):
        s = set()
        for x in self.scope:
            s |= x
        return frozenset(s)

    def occ(self, kind, tok, node, text, cls="int"):
        o = Occ()
        o.id, o.kind, o.tok, o.node, o.text, o.cls = len(self.occs), kind, tok, node, text, cls
        o.off = 0
        o.pure, o.vars, o.writes = expr_info(node) if node is not None else (True, set(), set())
        o.scope = self.visible()
        o.stmt = self.stmt_no
        o.fn = self.cur_fn
        o.line = o.col = None
        o.children, o.parent, o.role = [], None, None
        self.occs.append(o)
        return o

    # -- expressions: returns (plain, probed, [(offset_in_plain, occ)])
    def pe(self, e, ctx="rv"):
        """Wrapper: links the occurrence of e to the occurrences of its direct operands (children/parent)."""
        self._kids.append([])
        n0 = len(self.occs)
        res = self._pe(e, ctx)
        kids = self._kids.pop()
        top = None
        for o in self.occs[n0:]:
            if o.node is e:
                top = o
        if top is not None:
            top.children = [k.id for k in kids]
            for k in kids:
                k.parent = top.id
            self._kids[-1].append(top)
        else:
            self._kids[-1].extend(kids)
        self.last_top = top
        if ctx == "cond" and top is not None:
            self.cond_tops.append(top.id)
        return res

    def _pe(self, e, ctx="rv"):
        k = e[0]
        if k == "n":
            t = lit(e[1], e[2] if len(e) > 2 else "")
            o = self.occ("lit", t.strip("()"), e, t)
            d0 = [i for i, ch in enumerate(t) if ch.isdigit()][0]
            return t, t, [(d0, o)]
        if k == "raw":
            return e[1], e[1], []
        if k == "v":
            name = self.nm(e[1])
            c = self.cls(e[1])
            if ctx == "lv":
                o = self.occ("lv", name, e, name, c)
                return name, name, [(0, o)]
            if c == "int":
                o = self.occ("rv", name, e, name)
                pre = ""
                if e[1] in self.uninit:
                    pre = "VUSE(%s_init), " % name
                    return name, "(" + pre + self.wrap(o, name) + ")", [(0, o)]
                return name, self.wrap(o, name), [(0, o)]
            if c == "ptr":
                o = self.occ("ptr", name, e, name, c)
                return name, self.wrap(o, name), [(0, o)]
            o = self.occ(c, name, e, name, c)          # array / struct / container name: not a scalar value
            if c == "cont":
                return name, self.wrap(o, name), [(0, o)]
            return name, name, [(0, o)]
        if k == "b":
            lp, lq, lo = self.pe_sub(e[2])
            rp, rq, ro = self.pe_sub(e[3])
            plain = lp + " " + e[1] + " " + rp
            o = self.occ("rv", e[1], e, plain)
            occs = [(0 + d, x) for d, x in lo] + [(len(lp) + 1, o)] + [(len(lp) + len(e[1]) + 2 + d, x) for d, x in ro]
            return plain, self.wrap(o, lq + " " + e[1] + " " + rq), occs
        if k == "u":
            p, q, oo = self.pe_sub(e[2])
            plain = e[1] + p
            o = self.occ("rv", e[1], e, plain)
            return plain, self.wrap(o, e[1] + q), [(0, o)] + [(len(e[1]) + d, x) for d, x in oo]
        if k == "c":
            p, q, oo = self.pe_sub(e[2])
            t = "(" + ctype(e[1], self.lang) + ")"
            plain = t + p
            o = self.occ("rv", "(", e, plain)
            return plain, self.wrap(o, t + q), [(0, o)] + [(len(t) + d, x) for d, x in oo]
        if k == "=":
            lp, lq, lo = self.pe(e[2], "lv")
            rp, rq, ro = self.pe_sub(e[3], top_ok=True)
            if self.last_top is not None:
                self.last_top.role = ("rhs", e[1])
            plain = lp + " " + e[1] + " " + rp
            lcls = lo[0][1].cls if (lo and e[2][0] == "v") else "int"
            o = self.occ("rv" if lcls == "int" else lcls, e[1], e, plain, lcls)
            occs = list(lo) + [(len(lp) + 1, o)] + [(len(lp) + len(e[1]) + 2 + d, x) for d, x in ro]
            for w in expr_info(e)[2]:
                self.defs.append((w, "asg" if e[1] == "=" else "cassign", o.id, e[2][0]))
            body = lq + " " + e[1] + " " + rq
            if e[2][0] == "v" and e[2][1] in self.uninit:
                flag = self.nm(e[2][1]) + "_init"
                if e[1] != "=":
                    body = "VUSE(%s), " % flag + body
                    return plain, "(" + self.wrap(o, "(" + body + ")") + ")", occs
                return plain, "(%s = 1, %s)" % (flag, self.wrap(o, body)), occs
            return plain, self.wrap(o, body), occs
        if k in ("pre", "post"):
            lp, lq, lo = self.pe(e[2], "lv")
            if e[2][0] != "v":
                lp, lq, lo = "(" + lp + ")", "(" + lq + ")", [(d + 1, x) for d, x in lo]
            plain = (e[1] + lp) if k == "pre" else (lp + e[1])
            o = self.occ("rv", e[1], e, plain)
            for w in expr_info(e)[2]:
                self.defs.append((w, "incdec", o.id, e[2][0]))
            if k == "pre":
                occs = [(0, o)] + [(len(e[1]) + d, x) for d, x in lo]
                q = e[1] + lq
            else:
                occs = list(lo) + [(len(lp), o)]
                q = lq + e[1]
            if e[2][0] == "v" and e[2][1] in self.uninit:
                return plain, "(VUSE(%s_init), %s)" % (self.nm(e[2][1]), self.wrap(o, q)), occs
            return plain, self.wrap(o, q), occs
        if k == "?":
            cp, cq, co = self.pe_sub(e[1])
            ap, aq, ao = self.pe_sub(e[2])
            bp, bq, bo = self.pe_sub(e[3])
            plain = cp + " ? " + ap + " : " + bp
            o = self.occ("rv", "?", e, plain)
            occs = list(co) + [(len(cp) + 1, o)] + [(len(cp) + 3 + d, x) for d, x in ao] + \
                   [(len(cp) + 3 + len(ap) + 3 + d, x) for d, x in bo]
            return plain, self.wrap(o, cq + " ? " + aq + " : " + bq), occs
        if k in ("call", "m"):
            if k == "call":
                head_p = head_q = self.nm(e[1])
                ho = []
                args, cls = e[2], e[3]
            else:
                op_, oq_, ho = self.pe(e[1], "obj")
                head_p, head_q = op_ + "." + e[2], oq_ + "." + e[2]
                args, cls = e[3], e[4]
            ps, qs, occs = [], [], list(ho)
            pos = len(head_p) + 1
            o = self.occ({"int": "rv", "void": "void", "ptr": "ptr"}.get(cls, cls), "(", e, None, cls)
            occs.append((len(head_p), o))
            for i, a in enumerate(args):
                ap, aq, ao = self.pe(a, "arg")
                ps.append(ap)
                qs.append(aq)
                occs += [(pos + d, x) for d, x in ao]
                pos += len(ap) + 2
            plain = head_p + "(" + ", ".join(ps) + ")"
            o.text = plain
            q = head_q + "(" + ", ".join(qs) + ")"
            return plain, (self.wrap(o, q) if cls in ("int", "ptr") else q), occs
        if k == "*":
            p, q, oo = self.pe_sub(e[1])
            plain = "*" + p
            if ctx == "lv":
                o = self.occ("lv", "*", e, plain)
                return plain, "*" + q, [(0, o)] + [(1 + d, x) for d, x in oo]
            o = self.occ("rv", "*", e, plain)
            return plain, self.wrap(o, "*" + q), [(0, o)] + [(1 + d, x) for d, x in oo]
        if k == "&":
            p, q, oo = self.pe(e[1], "lv")
            plain = "&" + p
            o = self.occ("addr", "&", e, plain, "ptr")
            return plain, "&" + q, [(0, o)] + [(1 + d, x) for d, x in oo]
        if k == "[]":
            an = self.nm(e[1])
            ip, iq, io = self.pe(e[2], "idx")
            plain = an + "[" + ip + "]"
            ao = self.occ("arr", an, ("v", e[1]), an, "arr")
            o = self.occ("lv" if ctx == "lv" else "rv", "[", e, plain)
            occs = [(0, ao), (len(an), o)] + [(len(an) + 1 + d, x) for d, x in io]
            q = an + "[" + iq + "]"
            return plain, (q if ctx == "lv" else self.wrap(o, q)), occs
        if k == ".":
            sn = self.nm(e[1])
            plain = sn + "." + e[2]
            so = self.occ("struct", sn, ("v", e[1]), sn, "struct")
            mo = self.occ("member", e[2], None, e[2])
            o = self.occ("lv" if ctx == "lv" else "rv", ".", e, plain)
            occs = [(0, so), (len(sn), o), (len(sn) + 1, mo)]
            return plain, (plain if ctx == "lv" else self.wrap(o, plain)), occs
        if k == ",":
            lp, lq, lo = self.pe_sub(e[1])
            rp, rq, ro = self.pe_sub(e[2])
            plain = lp + ", " + rp
            o = self.occ("rv", ",", e, plain)
            return plain, self.wrap(o, lq + ", " + rq), list(lo) + [(len(lp), o)] + [(len(lp) + 2 + d, x) for d, x in ro]
        raise ValueError("bad expression %r" % (e,))

    def pe_sub(self, e, top_ok=False):
        """Operand position: compound operands are parenthesised."""
        p, q, oo = self.pe(e)
        if e[0] in ("b", "?", "=", ",") or (e[0] == "u" and False):
            return "(" + p + ")", "(" + q + ")", [(d + 1, x) for d, x in oo]
        return p, q, oo

    def wrap(self, o, q):
        return "%s%d%s%s%s%d%s" % (OPEN, o.id, MID, q, CLOSE, o.id, MID)

    # -- statements
    def emit(self, indent, plain, probed, occs, hit=False):
        pad = "  " * indent
        if hit:
            h = self.occ("stmt", "", None, plain)
            h.cls = "hit"
            probed = "%s%d%s " % (OPEN, h.id, MID) + probed
            self.stmt_occ[len(self.plain)] = h
        self.plain.append(pad + plain)
        self.probed.append(pad + probed)
        ln = len(self.plain) - 1
        for d, o in occs:
            o.line, o.col = ln, len(pad) + d + 1

    def declname(self, name, cls="int"):
        self.scope[-1].add(name)
        return self.occ("decl", self.nm(name), None, self.nm(name), cls)

    def ps(self, s, ind):
        k = s[0]
        self.stmt_no += 1
        if k == "decl":
            t = ctype(s[1], self.lang)
            name = self.nm(s[2])
            if s[3] is None:
                o = self.declname(s[2])
                extra = ""
                if s[2] in self.uninit:
                    extra = " _Bool %s_init = 0;" % name if self.lang == "c" else " bool %s_init = false;" % name
                self.emit(ind, "%s %s;" % (t, name), "%s %s;%s" % (t, name, extra), [(len(t) + 1, o)])
                return
            p, q, oo = self.pe_sub(s[3]) if s[3][0] in ("=", ",") else self.pe(s[3])
            if self.last_top is not None:
                self.last_top.role = ("init", s[1])
            self.defs.append((s[2], "init", self.last_top.id if self.last_top is not None else None, s[1]))
            self.vtypes[s[2]] = s[1]
            o = self.declname(s[2])
            eo = self.occ("declinit", "=", None, "=")
            head = "%s %s = " % (t, name)
            self.emit(ind, head + p + ";", head + q + ";", [(len(t) + 1, o), (len(t) + 1 + len(name) + 1, eo)] +
                      [(len(head) + d, x) for d, x in oo], hit=self.stmt_hits)
            return
        if k == "declarr":
            t = ctype(s[1], self.lang)
            name = self.nm(s[2])
            self.vars[s[2]] = "arr"
            o = self.declname(s[2], "arr")
            head = "%s %s[%d] = {" % (t, name, s[3])
            ps_, qs_, occs = [], [], [(len(t) + 1, o)]
            pos = len(head)
            for a in s[4]:
                ap, aq, ao = self.pe(a)
                ps_.append(ap)
                qs_.append(aq)
                occs += [(pos + d, x) for d, x in ao]
                pos += len(ap) + 2
            self.emit(ind, head + ", ".join(ps_) + "};", head + ", ".join(qs_) + "};", occs)
            return
        if k == "declptr":
            t = ctype(s[1], self.lang)
            name = self.nm(s[2])
            self.vars[s[2]] = "ptr"
            p, q, oo = self.pe(s[3])
            o = self.declname(s[2], "ptr")
            eo = self.occ("declinit", "=", None, "=")
            head = "%s *%s = " % (t, name)
            self.emit(ind, head + p + ";", head + q + ";", [(len(t) + 2, o), (len(t) + 2 + len(name) + 1, eo)] +
                      [(len(head) + d, x) for d, x in oo])
            return
        if k == "declraw":       # ('declraw', text_with_%s_for_name, name, cls)
            name = self.nm(s[2])
            self.vars[s[2]] = s[3]
            if "&" in s[1]:
                self.vtypes[s[2]] = "ref:" + spelled_type_key(s[1].split("&")[0])
            o = self.declname(s[2], s[3])
            text = self.nm(s[1])
            self.emit(ind, text, text, [(re.search(r"\b%s\b" % re.escape(name), text).start(), o)])
            return
        if k == "e":
            p, q, oo = self.pe(s[1], "void")
            self.emit(ind, p + ";", q + ";", oo, hit=self.stmt_hits)
            return
        if k == "ret":
            if s[1] is None:
                self.emit(ind, "return;", "return;", [])
                return
            p, q, oo = self.pe(s[1])
            self.emit(ind, "return " + p + ";", "return " + q + ";", [(7 + d, x) for d, x in oo], hit=self.stmt_hits)
            return
        if k in ("break", "continue"):
            self.emit(ind, k + ";", k + ";", [])
            return
        if k == "raw":
            t = self.nm(s[1])
            self.emit(ind, t, self.nm(s[2]) if len(s) > 2 else t, [])
            return
        if k == "rawh":          # opaque statement with a statement-level reached-marker
            t = self.nm(s[1])
            self.emit(ind, t, self.nm(s[2]) if len(s) > 2 else t, [], hit=True)
            return
        if k == "if":
            p, q, oo = self.pe(s[1], "cond")
            self.emit(ind, "if (" + p + ") {", "if (" + q + ") {", [(4 + d, x) for d, x in oo])
            self.block(s[2], ind + 1)
            if s[3] is not None:
                self.emit(ind, "} else {", "} else {", [])
                self.block(s[3], ind + 1)
            self.emit(ind, "}", "}", [])
            return
        if k == "while":
            p, q, oo = self.pe(s[1], "cond")
            self.emit(ind, "while (" + p + ") {", "while (" + q + ") { VLOOP();", [(7 + d, x) for d, x in oo])
            self.block(s[2], ind + 1)
            self.emit(ind, "}", "}", [])
            return
        if k == "dowhile":
            self.emit(ind, "do {", "do { VLOOP();", [])
            self.block(s[1], ind + 1)
            p, q, oo = self.pe(s[2], "cond")
            self.emit(ind, "} while (" + p + ");", "} while (" + q + ");", [(9 + d, x) for d, x in oo])
            return
        if k == "for":
            self.scope.append(set())
            occs = []
            plain, probed = "for (", "for ("
            if s[1] is not None:
                i = s[1]
                if i[0] == "decl":
                    t = ctype(i[1], self.lang)
                    name = self.nm(i[2])
                    p, q, oo = self.pe(i[3])
                    if self.last_top is not None:
                        self.last_top.role = ("init", i[1])
                    self.defs.append((i[2], "init", self.last_top.id if self.last_top is not None else None, i[1]))
                    self.vtypes[i[2]] = i[1]
                    o = self.declname(i[2])
                    eo = self.occ("declinit", "=", None, "=")
                    head = "%s %s = " % (t, name)
                    occs += [(len(plain) + len(t) + 1, o), (len(plain) + len(t) + 1 + len(name) + 1, eo)] + \
                            [(len(plain) + len(head) + d, x) for d, x in oo]
                    plain += head + p
                    probed += head + q
                else:
                    p, q, oo = self.pe(i[1], "void")
                    occs += [(len(plain) + d, x) for d, x in oo]
                    plain += p
                    probed += q
            plain += "; "
            probed += "; "
            if s[2] is not None:
                p, q, oo = self.pe(s[2], "cond")
                occs += [(len(plain) + d, x) for d, x in oo]
                plain += p
                probed += q
            plain += "; "
            probed += "; "
            if s[3] is not None:
                p, q, oo = self.pe(s[3], "void")
                occs += [(len(plain) + d, x) for d, x in oo]
                plain += p
                probed += q
            self.emit(ind, plain + ") {", probed + ") { VLOOP();", occs)
            self.block(s[4], ind + 1)
            self.emit(ind, "}", "}", [])
            self.scope.pop()
            return
        if k == "switch":
            p, q, oo = self.pe(s[1], "cond")
            self.emit(ind, "switch (" + p + ") {", "switch (" + q + ") {", [(8 + d, x) for d, x in oo])
            for label, body, brk in s[2]:
                lab = "default:" if label is None else "case %s:" % lit(label)
                self.emit(ind, lab, lab, [])
                self.scope.append(set())
                for st in body:
                    self.ps(st, ind + 1)
                self.scope.pop()
                if brk:
                    self.emit(ind + 1, "break;", "break;", [])
            self.emit(ind, "}", "}", [])
            return
        raise ValueError("bad statement %r" % (s,))

    def block(self, stmts, ind):
        self.scope.append(set())
        for st in stmts:
            self.ps(st, ind)
        self.scope.pop()

    def func(self, fn, static=False):
        self.cur_fn = fn["name"]
        saved_vars = self.vars
        self.vars = dict(saved_vars)
        self.vars.update(fn.get("vars") or {})
        self.scope.append(set())
        ps = []
        occs = []
        head = ("static " if static else "") + ctype(fn["ret"], self.lang) + " " + self.nm(fn["name"]) + "("
        pos = len(head)
        for i, prm in enumerate(fn["params"]):
            arrsuf = ""
            ptype = prm[0]
            if ptype.endswith("]") and "[" in ptype:         # array parameter: "si[]" -> int v[]
                arrsuf = ptype[ptype.index("["):]
                ptype = ptype[:ptype.index("[")]
            t = ptype if " " in ptype or "*" in ptype or "&" in ptype or "<" in ptype else ctype(ptype, self.lang)
            sep = "" if t.endswith(("*", "&")) else " "
            o = self.declname(prm[1], self.vars.get(prm[1], "int"))
            self.vtypes[prm[1]] = ("ref:" + spelled_type_key(prm[0].split("&")[0])) if "&" in prm[0] else prm[0]
            occs.append((pos + len(t) + len(sep), o))
            ps.append(t + sep + self.nm(prm[1]) + arrsuf)
            pos += len(ps[-1]) + 2
        sig = head + (", ".join(ps) if ps else ("void" if self.lang == "c" else "")) + ")"
        self.emit(0, sig, sig, occs)
        self.emit(0, "{", "{", [])
        for st in fn["body"]:
            self.ps(st, 1)
        self.emit(0, "}", "}", [])
        self.scope.pop()
        self.vars = saved_vars

    def run(self):
        self.items(self.fn.get("pre") or [])
        self.func(self.fn)
        self.items(self.fn.get("post") or [])       # file-level items after the function (e.g. a definition after its use)
        return self

    def items(self, its):
        for it in its:
            if it[0] == "global":
                t = ctype(it[1], self.lang)
                self.vtypes[it[2]] = it[1]
                self.scope[0].add(it[2])
                text = "%s%s %s = %s;" % ("static " if len(it) > 4 and it[4] else "", t, self.nm(it[2]), lit(it[3]))
                self.emit(0, text, text, [])
            elif it[0] == "raw":
                self.emit(0, self.nm(it[1]), self.nm(it[2]) if len(it) > 2 else self.nm(it[1]), [])
                for nm_ in (it[3] if len(it) > 3 else ()):
                    self.scope[0].add(nm_)
            elif it[0] == "func":
                self.func(it[1], static=True)


def expr_info(e):
    """(pure, vars read or written, vars written) of an expression AST."""
    pure, vs, ws = True, set(), set()

    def walk(x):
        nonlocal pure
        k = x[0]
        if k == "n":
            return
        if k == "raw":
            pure = False
            return
        if k == "v":
            vs.add(x[1])
            return
        if k in ("=", "pre", "post"):
            pure = False
            lv = x[2]
            base = lv
            while base[0] in ("*", "[]", "."):
                if base[0] == "*":
                    base = base[1]
                else:
                    base = ("v", base[1])
            if base[0] == "v":
                ws.add(base[1])
            walk(lv)
            if k == "=":
                walk(x[3])
            return
        if k == "call":
            pure = False
            for a in x[2]:
                walk(a)
            return
        if k == "m":
            pure = False
            walk(x[1])
            for a in x[3]:
                walk(a)
            return
        if k in ("[]", "."):
            vs.add(x[1])
            if k == "[]":
                walk(x[2])
            return
        for y in x[1:]:
            if isinstance(y, tuple):
                walk(y)
    walk(e)
    return pure, vs, ws


# ---- dump / findings parsing -------------------------------------------------------------------------------------
RE_TOK = re.compile(r'<token id="([0-9a-f]+)" file="[^"]*" linenr="(\d+)" column="(\d+)" str="([^"]*)"(.*)/>')
RE_VALUES_ATTR = re.compile(r' values="([0-9a-f]+)"')
RE_VALS = re.compile(r'<values id="([0-9a-f]+)">')
RE_ATTR = re.compile(r'([a-zA-Z-]+)="([^"]*)"')


def parse_dump(text):
    """-> (tokens: id -> (line, col, str), facts: list of (line, col, str, [value dict]))"""
    toks, tokvals = {}, []
    vals = {}
    cur = None
    for ln in text.split("\n"):
        s = ln.lstrip()
        if s.startswith("<token "):
            m = RE_TOK.match(s)
            if not m:
                continue
            tid, line, col, st, rest = m.groups()
            st = st.replace("&lt;", "<").replace("&gt;", ">").replace("&amp;", "&").replace("&quot;", '"').replace("&apos;", "'")
            toks[tid] = (int(line), int(col), st)
            mv = RE_VALUES_ATTR.search(rest)
            if mv:
                tokvals.append((int(line), int(col), st, mv.group(1)))
        elif s.startswith("<values "):
            cur = []
            vals[RE_VALS.match(s).group(1)] = cur
        elif s.startswith("<value ") and cur is not None:
            cur.append(dict(RE_ATTR.findall(s)))
        elif s.startswith("</valueflow"):
            break
    facts = [(l, c, st, vals.get(v, [])) for l, c, st, v in tokvals]
    return toks, facts


# ---- batch -----------------------------------------------------------------------------------------------------
GCC_FLAGS = ["-O0", "-w", "-fsanitize=address,undefined", "-fsanitize-undefined-trap-on-error",
             "-fsanitize-recover=address", "-fno-omit-frame-pointer", "-I" + RT_DIR]


class FnResult:
    """Everything known about one function of a batch after analysis and execution."""
    __slots__ = ("fn", "index", "occs", "line0", "nlines", "facts", "findings", "nvec", "clean", "ub", "cut", "ovf",
                 "obs", "types", "crashed", "plain", "res", "bypos", "defs", "vtypes", "byline", "dirty", "cond_tops")


class Batch:
    def __init__(self, fns, lang="c", cc_args=None, want_xml=False, small=False, domains=None, extra_defs="",
                 gcc_flags=None, name="t", std=None, keep=False, includes="", predefs="", stmt_hits=False):
        self.fns, self.lang = fns, lang
        self.cc_args = cc_args or []
        self.want_xml = want_xml
        self.small = small                  # small input domain (C03)
        self.domains = domains or {}        # override: type key -> list
        self.extra_defs = extra_defs
        self.gcc_flags = gcc_flags
        self.name = name
        self.keep = keep
        self.includes = includes
        self.predefs = predefs
        self.stmt_hits = stmt_hits
        self.t = {}
        self.ext = ".c" if lang == "c" else ".cpp"

    # -- 1. render
    def render(self):
        self.res = []
        lines = []
        for i, fn in enumerate(self.fns):
            pr = FnPrinter(fn, i, self.lang, self.stmt_hits).run()
            r = FnResult()
            r.fn, r.index, r.occs = fn, i, pr.occs
            r.defs, r.vtypes = pr.defs, pr.vtypes
            r.cond_tops = pr.cond_tops
            r.line0 = len(lines) + 1
            r.nlines = len(pr.plain)
            r.plain = pr.plain
            r.bypos = {}
            for o in pr.occs:
                if o.line is not None:
                    o.line += r.line0
                    r.bypos.setdefault((o.line, o.col), []).append(o)
            r.byline = {l + r.line0: o for l, o in pr.stmt_occ.items()}
            r.facts, r.findings = [], []
            r.nvec = r.clean = r.ub = r.cut = r.ovf = 0
            r.obs, r.types, r.crashed, r.res = {}, {}, False, []
            r.dirty = set()
            self.res.append((r, pr))
            lines += pr.plain
        self.plain_text = "\n".join(lines) + "\n"
        self.line_fn = {}
        for r, pr in self.res:
            for l in range(r.line0, r.line0 + r.nlines):
                self.line_fn[l] = r

    # -- 2. analyse
    def analyse(self, ws):
        src = self.name + self.ext
        ws.write(src, self.plain_text)
        args = ["-q", "--dump"] + self.cc_args + [src]
        t0 = time.time()
        for attempt in range(40):
            try:
                if self.want_xml:
                    fs, rr = run.findings_xml(args, ws.dir, timeout=900)
                else:
                    rr = run.cppcheck(args, ws.dir, timeout=900)
                    fs = []
                if not os.path.exists(ws.path(src + ".dump")) and attempt < 39:
                    raise OSError("no dump written (binary being replaced?)")
                break
            except OSError:
                # the variant binary is relinked by a concurrent build.build(): wait for it
                if attempt == 39:
                    raise
                time.sleep(3)
        self.t["cppcheck"] = time.time() - t0
        if rr.timed_out or fs is None:
            raise RuntimeError("cppcheck failed on batch: rc=%s %s" % (rr.rc, rr.text_err()[-500:]))
        t0 = time.time()
        dump = ws.read(src + ".dump")
        self.toks, facts = parse_dump(dump)
        self.t["parse"] = time.time() - t0
        for l, c, st, vs in facts:
            r = self.line_fn.get(l)
            if r is not None:
                r.facts.append((l, c, st, vs))
        for f in fs or []:
            if not f["locs"]:
                continue
            loc = f["locs"][0]          # primary location is listed first in the XML
            r = self.line_fn.get(loc[1])
            if r is not None:
                r.findings.append(f)
        self.findings_all = fs or []
        if not self.keep:
            ws.remove(src + ".dump")

    # -- 3. probed text
    def probed_text(self, sym=None):
        """sym: {(fn index, occ id): [text of S, ...]} -> translation unit text.  The k-th symbolic probe of an
        occurrence logs (value, S_k): k = 0 under the occurrence's own id, k >= 1 under extra local ids recorded in
        self.symids[(fn index, occ id, k)]."""
        sym = sym or {}
        out = ([self.predefs] if self.predefs else []) + ['#include "progsem_rt.h"']
        if self.includes:
            out.append(self.includes)
        if self.extra_defs:
            out.append(self.extra_defs)
        base = 0
        self.base = []
        self.symids = {}
        table = []
        for r, pr in self.res:
            self.base.append(base)
            nocc = len(pr.occs)
            nx = 0
            for (fi, oid), ss in sorted(sym.items()):
                if fi == r.index:
                    for k in range(1, len(ss)):
                        self.symids[(fi, oid, k)] = nocc + nx
                        nx += 1
            text = "\n".join(pr.probed)

            def sub(m, r=r, base=base):
                oid = int(m.group(2))
                o = r.occs[oid]
                ss = sym.get((r.index, oid))
                if m.group(1) == OPEN:
                    if o.cls == "hit":
                        return "HIT(%d);" % (base + oid)
                    if ss:
                        s_ = ""
                        for k in range(len(ss) - 1, 0, -1):
                            s_ += "TRS(%d, " % (base + self.symids[(r.index, oid, k)])
                        return s_ + "TRS(%d, " % (base + oid)
                    if o.cls == "cont":
                        return "TRC(%d, " % (base + oid)
                    return ("TRP(%d, " if o.cls == "ptr" else "TR(%d, ") % (base + oid)
                if ss:
                    return "".join(", %s)" % x for x in ss)
                return ")"
            text = re.sub("(%s|%s)(\\d+)%s" % (OPEN, CLOSE, MID), sub, text)
            out.append(text)
            fn = r.fn
            nm_ = pr.nm(fn["name"])
            doms = []
            args = []
            for j, prm in enumerate(fn["params"]):
                key = prm[0]
                d = (fn.get("domains") or {}).get(prm[1]) or self.domains.get(key) or domain(key, self.small)
                doms.append(d)
                args.append("(%s)in[%d]" % (ctype(key, self.lang), j))
            resets = "".join("%s = %s; " % (pr.nm(it[2]), lit(it[3])) for it in (fn.get("pre") or []) if it[0] == "global")
            call = "%s(%s)" % (nm_, ", ".join(args))
            if fn["ret"] == "void":
                body = "%s%s; return 0;" % (resets, call)
            elif fn.get("retcls") == "ptr":
                body = "%sreturn (long long)(intptr_t)%s;" % (resets, call)
            else:
                body = "%sreturn (long long)%s;" % (resets, call)
            out.append("static long long w_%d(const long long *in) { %s }" % (r.index, body))
            for j, d in enumerate(doms):
                out.append("static const long long d_%d_%d[] = {%s};" % (r.index, j, ", ".join(lit(v, "LL") for v in d)))
            table.append("{w_%d, %d, {%s}, {%s}}" % (r.index, len(doms), ", ".join("d_%d_%d" % (r.index, j) for j in range(len(doms))) or "0",
                                                     ", ".join(str(len(d)) for d in doms) or "0"))
            r.nvec = 1
            for d in doms:
                r.nvec *= len(d)
            r.res = doms
            base += nocc + nx
        out.append("static const struct vfun vfuns[] = {\n%s\n};" % ",\n".join(table))
        out.append("int main(int argc, char **argv) { return vrun_all(vfuns, %d, argc, argv); }" % len(table))
        return "\n".join(out) + "\n"

    # -- 4. compile + run
    def compile_run(self, ws, text, only=None):
        src = self.name + "_p" + self.ext
        exe = ws.path(self.name + "_p.exe")
        ws.write(src, text)
        cc = "gcc" if self.lang == "c" else "g++"
        flags = list(self.gcc_flags or GCC_FLAGS)
        if self.lang == "cpp":
            flags.append("-fpermissive")
        t0 = time.time()
        p = subprocess.run([cc] + flags + [src, "-o", exe], cwd=ws.dir, stdout=subprocess.PIPE, stderr=subprocess.PIPE)
        self.t["compile"] = time.time() - t0
        if p.returncode != 0:
            raise RuntimeError("compile failed:\n" + p.stderr.decode("utf-8", "replace")[:3000])
        t0 = time.time()
        start = 0
        out_all = []
        env = dict(os.environ)
        env["LC_ALL"] = "C"
        self.stderr_tail = b""
        while start < len(self.res):
            args = [exe, str(start)] + ([str(only)] if only is not None else [])
            try:
                q = subprocess.run(args, cwd=ws.dir, stdout=subprocess.PIPE, stderr=subprocess.PIPE, env=env, timeout=600)
                out, rc = q.stdout.decode(), q.returncode
                self.stderr_tail = q.stderr[-4000:]
            except subprocess.TimeoutExpired as ex:
                out, rc = (ex.stdout or b"").decode(), -9
            out_all.append(out)
            if out.rstrip().endswith("\nE") or out.strip() == "E":
                break
            # crashed inside function k: find the last begin marker, drop its partial output, continue after it
            last = None
            for ln in out.split("\n"):
                if ln.startswith("B "):
                    last = int(ln[2:])
            if last is None:
                raise RuntimeError("probe binary died before the first function: rc=%s" % rc)
            self.res[last][0].crashed = True
            start = last + 1
        self.t["run"] = time.time() - t0
        self.parse_run("".join(out_all))
        if not self.keep:
            ws.remove(src)
            ws.remove(self.name + "_p.exe")

    def parse_run(self, out):
        # global probe id -> (function result, local id)
        owner = []
        for (r, pr), b in zip(self.res, self.base):
            owner.append((b, r))
        import bisect
        bases = [b for b, _ in owner]
        cur = None
        for ln in out.split("\n"):
            if not ln:
                continue
            c = ln[0]
            if c == "V":
                _, pid, v, s, first, cnt = ln.split(" ")
                pid = int(pid)
                i = bisect.bisect_right(bases, pid) - 1
                b, r = owner[i]
                if r.crashed:
                    continue
                r.obs.setdefault(pid - b, []).append((int(v), None if s == "-" else int(s), int(first), int(cnt)))
            elif c == "T":
                _, pid, sz, sg, ssz, ssg = ln.split(" ")
                pid = int(pid)
                i = bisect.bisect_right(bases, pid) - 1
                b, r = owner[i]
                r.types[pid - b] = (int(sz), int(sg), int(ssz), int(ssg))
            elif c == "D":
                pid = int(ln[2:])
                i = bisect.bisect_right(bases, pid) - 1
                b, r = owner[i]
                r.dirty.add(pid - b)
            elif c == "F":
                p = ln.split(" ")
                r = self.res[int(p[1])][0]
                r.nvec, r.clean, r.ub, r.cut, r.ovf = int(p[2]), int(p[3]), int(p[4]), int(p[5]), int(p[6])
            elif c == "R":
                p = ln.split(" ")
                r = self.res[int(p[1])][0]
                d = {"vec": int(p[2])}
                for kv in p[3:]:
                    k, v = kv.split("=")
                    d[k] = int(v)
                if not isinstance(r.res, dict):
                    r.res = {"doms": r.res, "runs": []}
                r.res["runs"].append(d)
        for r, pr in self.res:
            if r.crashed:
                r.obs = {}
                r.clean = 0

    def values(self, r, oid):
        """Observed mathematical values of occurrence oid of function result r over all clean executions:
        list of (value, sym value|None, first vector index, count)."""
        t = r.types.get(oid)
        out = []
        for v, s, first, cnt in r.obs.get(oid, ()):
            if t and t[1] == 0 and t[0] > 0:
                v &= (1 << (8 * t[0])) - 1
            if s is not None and t and t[3] == 0 and t[2] > 0:
                s &= (1 << (8 * t[2])) - 1
            out.append((v, s, first, cnt))
        return out

    def vector(self, r, idx):
        doms = r.res["doms"] if isinstance(r.res, dict) else r.res
        vec = []
        for d in reversed(doms):
            vec.append(d[idx % len(d)])
            idx //= len(d)
        return list(reversed(vec))

    def run_all(self, symfn=None):
        """render -> cppcheck -> (symfn decides symbolic probes) -> compile -> run.  Returns list of FnResult."""
        with run.WS() as ws:
            self.render()
            self.analyse(ws)
            sym = symfn(self) if symfn else None
            self.compile_run(ws, self.probed_text(sym))
        return [r for r, _ in self.res]


# ---- fact interpretation (shared by C01/C02) -------------------------------------------------------------------------
def fact_kind(v, attr="intvalue"):
    """Classify a <value> element: ('judge', kind, n) with kind in known/ne/gt/lt, or ('skip', reason)."""
    if "possible" in v:
        return ("skip", "possible")
    if "inconclusive" in v:
        return ("skip", "inconclusive")
    sym = "symbolic" in v
    if attr not in v and not sym:
        for k in ("tokvalue", "floatvalue", "movedvalue", "uninit", "buffer-size", "container-size", "iterator-start",
                  "iterator-end", "lifetime", "intvalue"):
            if k in v:
                return ("skip", "type:" + k)
        return ("skip", "type:?")
    if v.get("indirect", "0") != "0":
        return ("skip", "indirect")
    if "conditional" in v:
        return ("skip", "conditional")
    if "default-arg" in v:
        return ("skip", "default-arg")
    if v.get("path", "0") != "0":
        return ("skip", "path")
    if "safe" in v or "macro" in v:
        return ("skip", "safe/macro")
    n = int(v["symbolic-delta"] if sym else v[attr])
    b = v.get("bound")
    if "known" in v:
        if b != "Point":
            return ("skip", "known-nonpoint")
        return ("judge", "eq", n)
    if "impossible" in v:
        return ("judge", {"Point": "ne", "Upper": "gt", "Lower": "lt"}[b], n)
    return ("skip", "kind?")


def holds(kind, observed, n):
    return {"eq": observed == n, "ne": observed != n, "gt": observed > n, "lt": observed < n}[kind]


def describe(kind, n, sym=None):
    rhs = ("(%s)%+d" % (sym, n)) if sym is not None else str(n)
    return {"eq": "always == ", "ne": "never == ", "gt": "never <= ", "lt": "never >= "}[kind] + rhs


# ---- shared fact judge (C01: intvalue, C02: container-size) ---------------------------------------------------------
def pick_occ(r, line, col, st):
    occs = r.bypos.get((line, col))
    if not occs:
        return None
    for o in occs:
        if o.kind in ("rv", "cont") and o.tok == st:
            return o
    for o in occs:
        if o.tok == st:
            return o
    return occs[0]


def plan_symbolic(batch, attr="intvalue"):
    """Decide which symbolic facts can be evaluated soundly; returns the sym map for Batch.probed_text and marks
    each symbolic <value> dict with '_symk' (slot) or '_symskip' (reason)."""
    sym = {}
    for r, _ in batch.res:
        for l, c, st, vs in r.facts:
            o = None
            for v in vs:
                if "symbolic" not in v:
                    continue
                if fact_kind(v, attr)[0] != "judge":
                    continue
                if o is None:
                    o = pick_occ(r, l, c, st)
                if o is None or o.kind != "rv":
                    continue
                S = batch.toks.get(v["symbolic"])
                so = pick_occ(r, S[0], S[1], S[2]) if S else None
                if so is None or so.kind != "rv" or so.text is None:
                    v["_symskip"] = "sym-source-not-rvalue"
                elif not o.pure:
                    v["_symskip"] = "sym-target-impure"
                elif not so.pure:
                    v["_symskip"] = "sym-source-impure"
                elif so.fn != o.fn or not (so.vars <= o.scope):
                    v["_symskip"] = "sym-source-out-of-scope"
                else:
                    lst = sym.setdefault((r.index, o.id), [])
                    if so.text in lst:
                        v["_symk"] = lst.index(so.text)
                    else:
                        v["_symk"] = len(lst)
                        lst.append(so.text)
                    v["_symtext"] = so.text
    return sym


def judge_facts(batch, r, attr="intvalue", okinds=("rv",), sample_out=None):
    """-> (violations, counters).  A violation is a dict(occ, fact, kind, n, sym, observed, vec, line, col).
    sample_out (list): receives one written-out judged case of this function (for the evidence file)."""
    cnt = collections.Counter()
    viols = []
    for l, c, st, vs in r.facts:
        o = pick_occ(r, l, c, st)
        for v in vs:
            fk = fact_kind(v, attr)
            if fk[0] == "skip":
                cnt["skip:" + fk[1]] += 1
                continue
            if o is None:
                cnt["skip:literal" if (st[:1].isdigit() or st[:1] == "-" and st[1:2].isdigit()) else "skip:unmapped-token"] += 1
                continue
            if o.kind not in okinds:
                cnt["skip:not-rvalue:" + o.kind] += 1
                continue
            _, kind, n = fk
            oid = o.id
            symtext = None
            if "symbolic" in v:
                if "_symk" not in v:
                    cnt["skip:" + v.get("_symskip", "sym-unplanned")] += 1
                    continue
                symtext = v["_symtext"]
                if v["_symk"] > 0:
                    oid = batch.symids[(r.index, o.id, v["_symk"])]
            obs = batch.values(r, oid)
            if not obs:
                cnt["unreached"] += 1
                continue
            cnt["judged"] += 1
            cnt["judged:" + ("sym-" if symtext else "") + kind] += 1
            if sample_out is not None and not sample_out and (kind != "gt" or n != -1):
                sample_out.append({"program": r.plain, "expression": o.text, "line": l - r.line0 + 1,
                                   "cppcheck_says": describe(kind, n, symtext),
                                   "observed_values": sorted(set(x[0] for x in obs))[:8], "clean_executions": r.clean})
            bad = None
            for val, s, first, count in obs:
                ref = n if symtext is None else (s + n)
                if symtext is not None and s is None:
                    continue
                if not holds(kind, val, ref):
                    bad = (val, s, first)
                    break
            if bad:
                viols.append({"occ": o, "fact": {k: x for k, x in v.items() if not k.startswith("_")}, "kind": kind, "n": n,
                              "sym": symtext, "observed": bad[0], "symvalue": bad[1], "vec": batch.vector(r, bad[2]),
                              "line": l - r.line0 + 1, "col": c, "tok": st})
    return viols, cnt


def unconditional(r, o):
    """True when occurrence o is evaluated whenever its statement is executed to completion (not under the second
    operand of && / ||, not in a branch of ?:)."""
    cur = o
    while cur.parent is not None:
        par = r.occs[cur.parent]
        if par.node is not None and par.node[0] == "b" and par.node[1] in ("&&", "||") and par.children and par.children[0] != cur.id:
            return False
        if par.node is not None and par.node[0] == "?" and par.children and par.children[0] != cur.id:
            return False
        cur = par
    return True
