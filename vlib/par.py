"""Shared scenario machinery for the executor properties (C15, C16, C21, C24, C25): small workspaces whose
files collide on the shared state of the executors, run under every schedule of bounded deviation."""
import os, shutil, itertools, collections
import xml.etree.ElementTree as ET
from . import run as vrun, explore
from .core import canon, sha

HDR = "static void hf(void){ int a[2]; a[2]=0; }\n"
FILES = {
    # name -> (files dict, description)
    "E": {"e.c": "void e(void){int a[2];a[3]=0;}\n"},
    "E2": {"e2.c": "int e2(int x){ return x/0; }\n"},
    "E3": {"e3.c": "void e3(void){int a[2];a[5]=0;}\nint e3b(int x){ return x/0; }\nvoid e3c(void){int b[3];b[4]=0;}\n"},
    "H1": {"hdr.h": HDR, "h1.c": "#include \"hdr.h\"\nvoid h1(void){ hf(); }\n"},
    "H2": {"hdr.h": HDR, "h2.c": "#include \"hdr.h\"\nvoid h2(void){ hf(); }\n"},
    "SI": {"si.c": "void si(void){int a[2];\n// cppcheck-suppress arrayIndexOutOfBounds\na[4]=0;}\n"},
    "SU": {"su.c": "// cppcheck-suppress zerodiv\nvoid su(void){}\n"},
    "HS1": {"hdrs.h": "static void hs(void){ int a[2];\n// cppcheck-suppress arrayIndexOutOfBounds\na[2]=0; }\n",
            "hs1.c": "#include \"hdrs.h\"\nvoid hs1(void){ hs(); }\n"},
    "HS2": {"hdrs.h": "static void hs(void){ int a[2];\n// cppcheck-suppress arrayIndexOutOfBounds\na[2]=0; }\n",
            "hs2.c": "#include \"hdrs.h\"\nvoid hs2(void){ hs(); }\n"},
    "HU1": {"hdru.h": "// cppcheck-suppress nullPointer\nstatic void hu(void){ }\n",
            "hu1.c": "#include \"hdru.h\"\nvoid hu1(void){ hu(); }\n"},
    "HU2": {"hdru.h": "// cppcheck-suppress nullPointer\nstatic void hu(void){ }\n",
            "hu2.c": "#include \"hdru.h\"\nvoid hu2(void){ hu(); }\n"},
    "HM1": {"hdrm.h": "static int hm(int x){\n// cppcheck-suppress zerodiv\nreturn x / DIVISOR; }\n",
            "hm1.c": "#define DIVISOR 0\n#include \"hdrm.h\"\nint hm1(void){ return hm(1); }\n"},
    "HM2": {"hdrm.h": "static int hm(int x){\n// cppcheck-suppress zerodiv\nreturn x / DIVISOR; }\n",
            "hm2.c": "#define DIVISOR 1\n#include \"hdrm.h\"\nint hm2(void){ return hm(1); }\n"},
    "OK2": {"ok2.c": "int ok2(int x){ return x+2; }\n"},
    "OK3": {"ok3.c": "int ok3(int x){ return x+3; }\n"},
    "SB": {"sb.c": "void sb(void){int a[2];\n// cppcheck-suppress-begin arrayIndexOutOfBounds\na[5]=0;\na[6]=0;\n"
                   "// cppcheck-suppress-end arrayIndexOutOfBounds\na[7]=0;}\n"},
    "SM": {"sm.c": "// cppcheck-suppress-macro zerodiv\n#define DIV(x) ((x)/0)\nint sm(int x){ return DIV(x); }\n"},
    "X": {"x.c": "void x(void){ char *p = \"a;b\tc#d//e\x01\"; p[0]='z'; }\n"},
    "X2": {"x2.c": "void x2(void){ char *q = \"\xc3\xa4\x02;z\"; q[1]='y'; }\n"},
    "XN": {"sp #1.c": "void xn(void){int a[2];a[8]=0;}\n"},
    "Y": {"y.c": "void y(void){ if ( }\n"},
    "ST": {"st.c": "void st(int *p){ int x = 1; x = 2; (void)p; if (p) {} *p = x; }\n"},
    "OK": {"ok.c": "int ok(int x){ return x+1; }\n"},
}

# ids that are whole-program results (excluded from -j1 vs -jN equality when no build dir is used)
WHOLE = ("unusedFunction", "ctu", "checkersReport")


def workspace(letters):
    files = {}
    order = []
    for l in letters:
        for n, c in FILES[l].items():
            files[n] = c
            if n.endswith(".c") and n not in order:
                order.append(n)
    return files, order


def parse(res):
    """-> (sorted list of canonical findings | None when the XML is broken, exit status)"""
    try:
        fs = vrun.parse_xml(res.err)
    except ET.ParseError:
        return None, res.rc
    out = []
    for f in fs:
        if any(f["id"].startswith(w) for w in WHOLE):
            continue
        out.append((f["id"], f["severity"], f["inconclusive"], f["msg"], f["verbose"], f["locs"]))
    return sorted(out), res.rc


class Scenario:
    def __init__(self, letters, opts, name=None, builddir=False):
        self.letters = list(letters)
        self.opts = list(opts)
        self.builddir = builddir
        self.files, self.order = workspace(letters)
        self.name = name or ("+".join(letters) + " " + " ".join(opts) + (" [builddir]" if builddir else ""))
        self.ws = None
        self._n = itertools.count()

    def setup(self):
        self.ws = vrun.WS(self.files)
        return self

    def close(self):
        if self.ws:
            self.ws.close()

    def args(self, jobs, executor=None, bdir=None):
        a = ["--xml", "-q"] + self.opts + ["-j%d" % jobs]
        if executor and jobs > 1:
            a.append("--executor=" + executor)
        if bdir:
            a.append("--cppcheck-build-dir=" + bdir)
        return a + self.order

    def fresh_bdir(self):
        if not self.builddir:
            return None
        d = os.path.join(vrun.scratch_base(), "bd.%s.%d" % (sha(self.name), next(self._n)))
        os.makedirs(d)
        return d

    def reference(self, variant="plain"):
        bd = self.fresh_bdir()
        try:
            r = vrun.cppcheck(self.args(1, bdir=bd), self.ws.dir, variant=variant)
        finally:
            if bd:
                shutil.rmtree(bd, ignore_errors=True)
        return parse(r), r

    def run(self, executor, jobs, prefix, variant="plain", fault=None, env=None, timeout=120):
        bd = self.fresh_bdir()
        try:
            return explore.run_sched(self.args(jobs, executor, bd), self.ws.dir, "t" if executor == "thread" else "p",
                                     prefix, variant=variant, fault=fault, env=env, timeout=timeout)
        finally:
            if bd:
                shutil.rmtree(bd, ignore_errors=True)
