"""Reference name resolution from clang: `clang -fsyntax-only -Xclang -ast-dump=json`.

extract() returns, for one translation unit without includes or macros,
  decls   id -> Decl(line, col, kind, name)         every named Var/ParmVar/Field/Function/CXXMethod declaration
  canon   id -> representative id of its redeclaration chain (previousDecl)
  uses    [Use(line, col, name, target id, target kind, node kind)]   one per DeclRefExpr / MemberExpr, positioned
          at the *name token* of the use (the end of the expression's range, i.e. `x` in `N::x` and `this->x`)
  errors  set of line numbers with a compiler error
Positions are computed from clang's byte offsets (clang's JSON omits unchanged line numbers) - valid because the
generated sources are ASCII without tabs, includes or macros.
"""
import bisect, collections, json, os, re, subprocess

Decl = collections.namedtuple("Decl", "line col kind name eline ecol bline bcol")   # b*/e* = begin/end of its range
Use = collections.namedtuple("Use", "line col name target tkind nkind bline bcol")   # b* = begin of the expression

VAR_KINDS = ("VarDecl", "ParmVarDecl", "FieldDecl", "BindingDecl")
FUN_KINDS = ("FunctionDecl", "CXXMethodDecl", "CXXConstructorDecl", "CXXDestructorDecl", "CXXConversionDecl")
RE_DIAG = re.compile(r"^([^:\n]+):(\d+):(\d+): (fatal error|error): (.*)$", re.M)


def run(path, lang, cwd, timeout=300):
    """-> (json root | None, set of error lines, stderr text)"""
    exe = "clang"
    cmd = [exe, "-fsyntax-only", "-Xclang", "-ast-dump=json", "-fno-color-diagnostics", "-w", "-ferror-limit=0",
           "-x", "c++" if lang == "cpp" else "c", path]
    e = dict(os.environ)
    e["LC_ALL"] = "C"
    p = subprocess.run(cmd, cwd=cwd, env=e, stdout=subprocess.PIPE, stderr=subprocess.PIPE, timeout=timeout)
    err = p.stderr.decode("utf-8", "replace")
    errs = set(int(m.group(2)) for m in RE_DIAG.finditer(err))
    try:
        root = json.loads(p.stdout)
    except ValueError:
        root = None
    return root, errs, err


def import_positions(d):
    """lib/clangimport.cpp gives every token of a node the node's location as parsed from the text dump: the begin
    of the range for '<col:B, col:E>', but (begin line, END column) for '<line:L:B, col:E>'."""
    return {(d.line, d.col), (d.bline, d.bcol), (d.bline, d.ecol), (d.eline, d.ecol)}


class Ref:
    def __init__(self):
        self.decls = {}
        self.prev = {}
        self.uses = []
        self.unknown_targets = {}      # id -> (kind, name) referenced but never seen as a declaration node

    def canon(self, i):
        seen = set()
        while i in self.prev and i not in seen:
            seen.add(i)
            i = self.prev[i]
        return i

    def classes(self, with_range_end=False):
        """canonical id -> set of (line, col) of all its redeclarations (optionally also the positions at which the
        clang import of cppcheck may put the name token of the declaration, see import_positions)"""
        out = {}
        for i, d in self.decls.items():
            s = out.setdefault(self.canon(i), set())
            s.add((d.line, d.col))
            if with_range_end:
                s.update(import_positions(d))
        return out


def extract(root, src):
    starts = [0]
    for i, ch in enumerate(src):
        if ch == "\n":
            starts.append(i + 1)

    def pos(off):
        l = bisect.bisect_right(starts, off) - 1
        return l + 1, off - starts[l] + 1

    def off_of(loc):
        if not loc:
            return None
        if "offset" in loc:
            return loc["offset"]
        for k in ("expansionLoc", "spellingLoc"):
            if k in loc and "offset" in loc[k]:
                return loc[k]["offset"]
        return None

    r = Ref()
    seen = set()
    stack = [root]
    while stack:
        n = stack.pop()
        if not isinstance(n, dict):
            continue
        inner = n.get("inner")
        if inner:
            stack.extend(reversed(inner))
        k = n.get("kind")
        nid = n.get("id")
        if k is None or (nid, k) in seen:
            continue
        seen.add((nid, k))
        if k in VAR_KINDS or k in FUN_KINDS:
            if n.get("isImplicit") or not n.get("name"):
                continue
            o = off_of(n.get("loc"))
            if o is None:
                continue
            l, c = pos(o)
            oe = off_of((n.get("range") or {}).get("end"))
            el, ec = pos(oe) if oe is not None else (l, c)
            ob = off_of((n.get("range") or {}).get("begin"))
            bl, bc = pos(ob) if ob is not None else (l, c)
            r.decls[nid] = Decl(l, c, k, n["name"], el, ec, bl, bc)
            if n.get("previousDecl"):
                r.prev[nid] = n["previousDecl"]
        elif k == "DeclRefExpr":
            rd = n.get("referencedDecl") or {}
            o = off_of((n.get("range") or {}).get("end"))
            if o is None or not rd.get("id"):
                continue
            l, c = pos(o)
            ob = off_of((n.get("range") or {}).get("begin"))
            bl, bc = pos(ob) if ob is not None else (l, c)
            r.uses.append(Use(l, c, rd.get("name"), rd["id"], rd.get("kind"), k, bl, bc))
        elif k == "MemberExpr":
            o = off_of((n.get("range") or {}).get("end"))
            t = n.get("referencedMemberDecl")
            if o is None or not t:
                continue
            l, c = pos(o)
            ob = off_of((n.get("range") or {}).get("begin"))
            bl, bc = pos(ob) if ob is not None else (l, c)
            r.uses.append(Use(l, c, n.get("name"), t, None, k, bl, bc))
    # previousDecl may point at a declaration that was not recorded (implicit) - leave those chains open
    for u in r.uses:
        if u.target not in r.decls:
            r.unknown_targets[u.target] = (u.tkind, u.name)
    return r
