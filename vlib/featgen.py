"""Small well-typed programs for the clang-import check (C35): expression functions and one-feature snippets.

expressions(n, lang)  all expressions with n operators (n = 1, 2) over a fixed leaf set; each becomes
                      `void eK(params) { (void)(EXPR); }`; ill-typed ones are rejected by clang and dropped.
SNIPPETS_CPP / SNIPPETS_C  one translation unit per language feature (statement kinds, declaration kinds, casts,
                      initialisers, GNU extensions): the alphabet of AST node kinds the import has to survive.
"""
import itertools

LEAVES = ["a", "u", "d", "p", "s.m", "ps->m", "1", "2.5", "'c'", "s.a[1]"]
LEAVES2 = ["a", "d", "p", "s.m"]
UNARY = ["-%s", "!%s", "~%s", "*%s", "&%s", "++%s", "%s++", "sizeof(%s)", "(double)%s", "(int)%s"]
BINARY = ["%s + %s", "%s - %s", "%s * %s", "%s / %s", "%s %% %s", "%s < %s", "%s <= %s", "%s == %s", "%s != %s",
          "%s && %s", "%s || %s", "%s & %s", "%s | %s", "%s ^ %s", "%s << %s", "%s >> %s", "%s = %s", "%s += %s",
          "%s , %s", "%s[%s]"]
BINARY2 = ["%s + %s", "%s %% %s", "%s < %s", "%s && %s", "%s = %s", "%s , %s", "%s[%s]", "%s << %s"]
PRELUDE = "struct S { int m; int a[3]; };\nint g(int);\n"
PARAMS = "int a, unsigned u, double d, int *p, struct S s, struct S *ps"


def expressions(n, full=False):
    if n == 1:
        for op in UNARY:
            for x in LEAVES:
                yield op % x
        for op in BINARY:
            for x in LEAVES:
                for y in LEAVES:
                    yield op % (x, y)
        for x in LEAVES:
            for y in LEAVES:
                yield "a ? %s : %s" % (x, y)
        for x in LEAVES:
            yield "g(%s)" % x
    elif n == 2:
        for o1 in UNARY:
            for o2 in UNARY:
                for x in LEAVES2:
                    yield o1 % ("(" + o2 % x + ")")
        for o1 in UNARY:
            for o2 in BINARY2:
                for x in LEAVES2:
                    for y in LEAVES2:
                        yield o1 % ("(" + o2 % (x, y) + ")")
        if full:
            for o1 in BINARY2:
                for o2 in BINARY2:
                    for x in LEAVES2:
                        for y in LEAVES2:
                            for z in LEAVES2:
                                yield o1 % ("(" + o2 % (x, y) + ")", z)
                                yield o1 % (z, "(" + o2 % (x, y) + ")")


def render_expressions(exprs, tag0=0):
    """-> (source, [(first_line, last_line, index)])  one function per expression, one line each"""
    lines = PRELUDE.rstrip("\n").split("\n")
    ranges = []
    for i, e in enumerate(exprs):
        lines.append("void e%d(%s) { (void)(%s); }" % (tag0 + i, PARAMS, e))
        ranges.append((len(lines), len(lines), i))
    return "\n".join(lines) + "\n", ranges


SNIPPETS_CPP = {
    "while": "int f(int a) { while (a > 0) { a--; } return a; }\n",
    "do_while": "int f(int a) { do { a--; } while (a > 0); return a; }\n",
    "switch": "int f(int a) { switch (a) { case 1: return 2; case 2: a++; break; default: a = 0; } return a; }\n",
    "goto": "int f(int a) { if (a) goto out; a = 1;\nout:\n  return a; }\n",
    "continue_break": "int f(int a) { for (int i = 0; i < 4; i++) { if (i == a) continue; if (i > a) break; a += i; } return a; }\n",
    "range_for": "int f() { int v[3] = {1, 2, 3}; int s = 0; for (int e : v) { s += e; } return s; }\n",
    "try_catch": "int g(int);\nint f(int a) { try { if (a) throw 1; return g(a); } catch (int e) { return e; } catch (...) { return 0; } }\n",
    "new_delete": "struct S { int m; };\nint f() { int *p = new int(3); int *q = new int[4]; S *s = new S; int r = *p + q[0] + s->m; delete p; delete[] q; delete s; return r; }\n",
    "casts": "struct B { virtual ~B() {} }; struct D : B { int m; };\nint f(B *b, const int *c, long l) { D *d = dynamic_cast<D*>(b); int *m = const_cast<int*>(c); char *r = reinterpret_cast<char*>(l); return static_cast<int>(l) + (d ? d->m : 0) + *m + (r ? 1 : 0) + int(l); }\n",
    "lambda": "int f(int a) { int b = 2; auto l = [a, &b](int c) -> int { b += c; return a + b; }; auto m = [=]() mutable { a++; return a; }; return l(1) + m(); }\n",
    "ctor_dtor": "struct S { int m; int n; S() : m(0), n(1) {} S(int a) : m(a), n(a) {} ~S() { m = 0; } int get() const { return m + n; } };\nint f() { S s; S t(3); S u = S(4); return s.get() + t.get() + u.get(); }\n",
    "inheritance": "struct B { virtual int v() { return 1; } int b; }; struct D : public B { int v() override { return 2 + b; } }; struct E final : D { int v() override { return D::v() + 1; } };\nint f(B &b) { E e; return b.v() + e.v(); }\n",
    "operators": "struct V { int x; V operator+(const V &o) const { V r; r.x = x + o.x; return r; } int operator[](int i) const { return x + i; } int operator()(int a, int b) { return a + b + x; } V &operator++() { ++x; return *this; } bool operator==(const V &o) const { return x == o.x; } operator int() const { return x; } };\nint f(V a, V b) { V c = a + b; ++c; int i = c; return c[1] + c(2, 3) + (a == b) + i; }\n",
    "template_function": "template<class T> T tmax(T a, T b) { return a < b ? b : a; }\nint f(int a) { return tmax(a, 3) + tmax<int>(1, 2) + (int)tmax(1.5, 2.5); }\n",
    "template_class": "template<class T, int N> struct A { T v[N]; T get(int i) const { return v[i]; } static int size() { return N; } };\nint f() { A<int, 3> a = {{1, 2, 3}}; A<A<int, 2>, 2> b = {}; return a.get(1) + A<char, 4>::size() + b.v[0].v[1]; }\n",
    "variadic_template": "template<class... Ts> int count(Ts... ts) { return sizeof...(ts); }\ntemplate<class T> T sum(T t) { return t; }\ntemplate<class T, class... R> T sum(T t, R... r) { return t + sum(r...); }\nint f() { return count(1, 2.0, 'c') + sum(1, 2, 3); }\n",
    "enum": "enum E { A, B = 3, C }; enum class F : char { X = 'x', Y };\nint f(E e, F g) { switch (e) { case A: return 0; case B: return 1; default: break; } return g == F::X ? C : (int)F::Y; }\n",
    "union": "union U { int i; float f; char c[4]; };\nint f() { U u; u.f = 1.0f; return u.i + u.c[0]; }\n",
    "typedef_using": "typedef unsigned long ul; using il = int; typedef int (*fp)(int); using arr = int[3];\nint g(int a) { return a; }\nint f(ul a) { il b = (il)a; fp p = g; arr x = {1, 2, 3}; return p(b) + x[0]; }\n",
    "namespaces": "namespace N { int v = 1; namespace M { int w = 2; int h() { return w; } } } namespace K = N::M; using namespace N; using N::M::h;\nint f() { return v + K::w + h() + N::M::w; }\n",
    "static_assert_constexpr": "constexpr int sq(int a) { return a * a; }\nstatic_assert(sq(3) == 9, \"sq\");\nint f() { constexpr int k = sq(4); int a[sq(2)] = {0}; return k + a[0]; }\n",
    "auto_decltype": "int g(int);\nauto h(int a) -> decltype(g(a)) { return g(a); }\nint f(int a) { auto b = a; decltype(b) c = b; auto &r = c; const auto *p = &b; r++; return *p + c + h(a); }\n",
    "references": "void sw(int &a, int &b) { int t = a; a = b; b = t; }\nint take(int &&r) { return r; }\nint f(int a) { int b = 2; sw(a, b); const int &c = a; int &&d = 3; return c + d + take(static_cast<int&&>(b)); }\n",
    "default_args": "int g(int a, int b = 2, int c = 3) { return a + b + c; }\nint f() { return g(1) + g(1, 1) + g(1, 1, 1); }\n",
    "init_lists": "struct S { int a; int b; }; struct T { S s; int v[2]; };\nint f() { int a[3] = {1, 2, 3}; S s = {1, 2}; S t{3, 4}; T u = {{5, 6}, {7, 8}}; int z{}; int m[2][2] = {{1, 2}, {3, 4}}; return a[0] + s.a + t.b + u.v[1] + z + m[1][0]; }\n",
    "literals": "int f() { bool t = true, n = false; char c = 'x'; wchar_t w = L'y'; const char *s = \"ab\" \"cd\"; const wchar_t *ws = L\"w\"; float fl = 1.5f; double d = 2.5e3; long l = 10L; unsigned long long ull = 1ULL << 40; int h = 0x1f + 017 + 0b101; int *p = nullptr; return t + n + c + w + s[0] + ws[0] + (int)fl + (int)d + (int)l + (int)ull + h + (p ? 1 : 0); }\n",
    "sizeof_alignof": "struct S { char c; double d; };\nint f(int a) { return sizeof(S) + sizeof a + alignof(S) + sizeof(int[3]) + (int)sizeof(S::d); }\n",
    "ternary_comma": "int f(int a, int b) { int c = a ? b : (a, b + 1); int d = (a++, b++, a + b); return a > b ? c : d; }\n",
    "bitfield": "struct S { unsigned a : 3; int b : 5; unsigned : 0; unsigned c : 1; };\nint f() { S s; s.a = 7; s.b = -3; s.c = 1; return s.a + s.b + s.c; }\n",
    "function_pointers": "struct S { int m; int get(int a) { return m + a; } };\nint g(int a) { return a; }\nint f() { int (*p)(int) = &g; int (S::*mp)(int) = &S::get; int S::*dp = &S::m; S s; s.*dp = 2; return p(1) + (*p)(2) + (s.*mp)(3); }\n",
    "varargs": "int sum(int n, ...) { __builtin_va_list ap; __builtin_va_start(ap, n); int s = 0; for (int i = 0; i < n; i++) s += __builtin_va_arg(ap, int); __builtin_va_end(ap); return s; }\nint f() { return sum(2, 1, 2); }\n",
    "this_static": "struct S { int m; static int cnt; static int count() { return cnt; } int get() { return this->m + count(); } S *self() { return this; } };\nint S::cnt = 0;\nint f() { S s; s.m = 1; return s.self()->get() + S::count(); }\n",
    "friend_nested": "class O { int priv; friend int peek(const O &); public: struct I { int v; }; I i; O() : priv(1) {} };\nint peek(const O &o) { return o.priv; }\nint f() { O o; O::I k; k.v = 2; return peek(o) + k.v + o.i.v; }\n",
    "anonymous": "struct S { union { int i; float f; }; struct { int a; int b; } in; };\nint f() { S s; s.i = 1; s.in.a = 2; return s.i + s.in.a; }\n",
    "arrays_pointers": "int f(int *p, int n) { int a[2][3] = {{1, 2, 3}, {4, 5, 6}}; int *q = &a[1][0]; int (*r)[3] = a; const char *s = \"abc\"; return *(p + n) + q[1] + (*r)[2] + r[1][1] + *s + (int)(q - &a[0][0]); }\n",
    "if_decl": "int g(int);\nint f(int a) { if (int b = g(a)) { return b; } else { return b + 1; } }\n",
    "noexcept": "void g() noexcept; void h() throw(); int k() noexcept(true) { return 1; }\nint f() { g(); h(); return k() + noexcept(g()); }\n",
    "extern_c": "extern \"C\" { int cf(int); } extern \"C\" int cg(int a) { return a; }\nint f() { return cf(1) + cg(2); }\n",
    "inline_namespace": "namespace N { inline namespace v1 { int h() { return 1; } } }\nint f() { return N::h() + N::v1::h(); }\n",
    "attributes": "[[noreturn]] void die(); __attribute__((unused)) static int u; [[deprecated]] int old();\nint f(int a) { if (a) die(); return a; }\n",
    "statement_expr": "int f(int a) { int b = ({ int y = a + 1; y * 2; }); return b; }\n",
    "offsetof": "struct S { int a; double b; };\nint f() { return (int)__builtin_offsetof(S, b); }\n",
    "compound_literal": "struct S { int a; int b; };\nint g(struct S s) { return s.a; }\nint f() { return g((struct S){1, 2}); }\n",
    "label_address": "int f(int a) { void *t = &&l1; if (a) goto *t; a = 2;\nl1:\n  return a; }\n",
    "asm": "int f(int a) { __asm__(\"nop\"); __asm__ volatile(\"\" : \"=r\"(a) : \"0\"(a)); return a; }\n",
    "case_range": "int f(int a) { switch (a) { case 1 ... 3: return 1; default: return 0; } }\n",
    "char_array_init": "int f() { char a[] = \"abc\"; char b[4] = {'a', 'b', 0}; const char *c[] = {\"x\", \"yz\"}; return a[0] + b[1] + c[1][0]; }\n",
    "global_ctor": "struct S { int m; S(int a) : m(a) {} }; S g1(1); S g2 = S(2); static S g3{3}; int garr[3] = {1, 2, 3};\nint f() { return g1.m + g2.m + g3.m + garr[2]; }\n",
    "conversion_explicit": "struct S { explicit S(int a) : m(a) {} explicit operator bool() const { return m != 0; } int m; };\nint f() { S s(1); if (s) return 1; return static_cast<bool>(s); }\n",
    "default_delete": "struct S { S() = default; S(const S &) = delete; S &operator=(const S &) = delete; ~S() = default; int m = 3; };\nint f() { S s; return s.m; }\n",
    "user_literal": "constexpr long long operator\"\" _k(unsigned long long v) { return v * 1000; }\nint f() { return (int)(2_k); }\n",
    "trailing_decltype_auto": "auto g(int a) -> int { return a; } decltype(auto) h(int a) { return a; } auto k() { return 1; }\nint f() { return g(1) + h(2) + k(); }\n",
    "alignas_thread_local": "alignas(16) int al; thread_local int tl = 1; struct alignas(8) S { char c; };\nint f() { static thread_local int x = 2; return al + tl + x + alignof(S); }\n",
    "member_init": "struct S { int a = 1; int b{2}; int c[2] = {3, 4}; const char *s = \"x\"; };\nint f() { S s; return s.a + s.b + s.c[1] + s.s[0]; }\n",
    "static_local": "int f() { static int n = 0; static const int k = 3; n += k; return n; }\n",
    "pointer_to_struct": "struct L { int v; L *next; };\nint f(L *l) { int s = 0; for (L *p = l; p; p = p->next) s += p->v; while (l && l->next) l = l->next; return s + (l ? l->v : 0); }\n",
    "logical_ops": "int f(int a, int b, int *p) { return (a && b) || (!a && p && *p) || (a & b) | (a ^ b) | (~a) | (a << 2) | (b >> 1) | (a % (b ? b : 1)); }\n",
    "compound_assign": "int f(int a, int b) { a += b; a -= 1; a *= 2; a /= 3; a %= 5; a <<= 1; a >>= 1; a &= 7; a |= 8; a ^= b; return a; }\n",
    "string_member": "struct S { char name[8]; };\nint f() { S s = {\"abc\"}; S t; t = s; return t.name[1]; }\n",
    "void_pointer": "int f(void *v, int n) { char *c = (char *)v; int *i = static_cast<int *>(v); return c[n] + i[0]; }\n",
    "nested_calls": "int g(int a, int b) { return a + b; } int h(int a) { return a * 2; }\nint f(int a) { return g(h(a), g(h(1), h(g(2, 3)))); }\n",
    "recursion": "int fact(int n) { return n <= 1 ? 1 : n * fact(n - 1); }\nint f() { return fact(5); }\n",
    "bool_conditions": "int f(int a, double d, int *p) { if (p) a++; if (!p) a--; if (d) a++; while (a) { a = 0; } for (; p && a < 3; a++) {} return a; }\n",
    "struct_return": "struct S { int a; int b; };\nS mk(int a) { S s = {a, a + 1}; return s; }\nint f() { return mk(1).b + mk(2).a; }\n",
    "const_volatile": "int f(const int a, volatile int b, const volatile int *p) { const int c = a + b; volatile int d = c; return d + *p; }\n",
    "empty_bodies": "struct E {}; void n() {} void m() { ; ; {} }\nint f() { E e; (void)e; n(); m(); return 0; }\n",
    "negative_array": "int f(int a) { int v[4] = {0}; v[a] = 1; v[3] = v[a] + v[0]; int *p = v + 2; p[-1] = 2; return v[1]; }\n",
}

SNIPPETS_C = {
    "while": "int f(int a) { while (a > 0) { a--; } return a; }\n",
    "do_while": "int f(int a) { do { a--; } while (a > 0); return a; }\n",
    "switch": "int f(int a) { switch (a) { case 1: return 2; case 2: a++; break; default: a = 0; } return a; }\n",
    "goto": "int f(int a) { if (a) goto out; a = 1;\nout:\n  return a; }\n",
    "continue_break": "int f(int a) { for (int i = 0; i < 4; i++) { if (i == a) continue; if (i > a) break; a += i; } return a; }\n",
    "enum_union": "enum E { A, B = 3, C }; union U { int i; float f; };\nint f(enum E e) { union U u; u.f = 1.0f; return e == A ? u.i : C; }\n",
    "typedef": "typedef unsigned long ul; typedef int (*fp)(int); typedef struct { int a; } T;\nint g(int a) { return a; }\nint f(ul a) { fp p = g; T t; t.a = (int)a; return p(t.a); }\n",
    "designated_init": "struct S { int a; int b; int v[3]; };\nint f(void) { struct S s = {.b = 2, .a = 1, .v = {[1] = 5}}; int a[5] = {[2] = 3, [4] = 1}; return s.a + s.v[1] + a[2]; }\n",
    "compound_literal": "struct S { int a; int b; };\nint g(struct S s) { return s.a; }\nint f(void) { int *p = (int[]){1, 2, 3}; return g((struct S){1, 2}) + p[1]; }\n",
    "generic": "int f(int a) { return _Generic(a, int: 1, double: 2, default: 3); }\n",
    "bool_complex_restrict": "int f(int *restrict p, _Bool b) { double _Complex z = 1.0; return *p + b + (int)__real__ z; }\n",
    "vla": "int f(int n) { int v[n]; v[0] = 1; return v[0] + (int)sizeof(v); }\n",
    "flexible_array": "struct S { int n; int v[]; };\nint f(struct S *s) { return s->n ? s->v[0] : 0; }\n",
    "varargs": "int sum(int n, ...) { __builtin_va_list ap; __builtin_va_start(ap, n); int s = 0; for (int i = 0; i < n; i++) s += __builtin_va_arg(ap, int); __builtin_va_end(ap); return s; }\nint f(void) { return sum(2, 1, 2); }\n",
    "statement_expr": "int f(int a) { int b = ({ int y = a + 1; y * 2; }); return b; }\n",
    "label_address": "int f(int a) { void *t = &&l1; if (a) goto *t; a = 2;\nl1:\n  return a; }\n",
    "asm": "int f(int a) { __asm__(\"nop\"); return a; }\n",
    "case_range": "int f(int a) { switch (a) { case 1 ... 3: return 1; default: return 0; } }\n",
    "char_array_init": "int f(void) { char a[] = \"abc\"; char b[4] = {'a', 'b', 0}; const char *c[] = {\"x\", \"yz\"}; return a[0] + b[1] + c[1][0]; }\n",
    "bitfield": "struct S { unsigned a : 3; int b : 5; unsigned c : 1; };\nint f(void) { struct S s; s.a = 7; s.b = -3; s.c = 1; return s.a + s.b + s.c; }\n",
    "function_pointers": "int g(int a) { return a; }\nint f(void) { int (*p)(int) = &g; int (*t[2])(int) = {g, g}; return p(1) + (*p)(2) + t[1](3); }\n",
    "arrays_pointers": "int f(int *p, int n) { int a[2][3] = {{1, 2, 3}, {4, 5, 6}}; int *q = &a[1][0]; int (*r)[3] = a; const char *s = \"abc\"; return *(p + n) + q[1] + (*r)[2] + r[1][1] + *s + (int)(q - &a[0][0]); }\n",
    "literals": "int f(void) { char c = 'x'; const char *s = \"ab\" \"cd\"; float fl = 1.5f; double d = 2.5e3; long l = 10L; unsigned long long ull = 1ULL << 40; int h = 0x1f + 017; return c + s[0] + (int)fl + (int)d + (int)l + (int)ull + h; }\n",
    "sizeof_alignof": "struct S { char c; double d; };\nint f(int a) { return sizeof(struct S) + sizeof a + _Alignof(struct S) + sizeof(int[3]); }\n",
    "offsetof": "struct S { int a; double b; };\nint f(void) { return (int)__builtin_offsetof(struct S, b); }\n",
    "static_assert": "_Static_assert(sizeof(int) >= 2, \"int\");\nint f(void) { return 0; }\n",
    "anonymous": "struct S { union { int i; float f; }; struct { int a; int b; } in; };\nint f(void) { struct S s; s.i = 1; s.in.a = 2; return s.i + s.in.a; }\n",
    "static_extern": "static int n; extern int e; int e = 2;\nstatic int h(void) { static int k = 0; return ++k; }\nint f(void) { n += h(); return n + e; }\n",
    "pointer_to_struct": "struct L { int v; struct L *next; };\nint f(struct L *l) { int s = 0; for (struct L *p = l; p; p = p->next) s += p->v; return s; }\n",
    "compound_assign": "int f(int a, int b) { a += b; a -= 1; a *= 2; a /= 3; a %= 5; a <<= 1; a >>= 1; a &= 7; a |= 8; a ^= b; return a; }\n",
    "ternary_comma": "int f(int a, int b) { int c = a ? b : (a, b + 1); int d = (a++, b++, a + b); return a > b ? c : d; }\n",
    "old_style": "int g();\nint f(a, b) int a; int b; { return g(a) + b; }\n",
    "struct_return": "struct S { int a; int b; };\nstruct S mk(int a) { struct S s = {a, a + 1}; return s; }\nint f(void) { return mk(1).b + mk(2).a; }\n",
    "const_volatile": "int f(const int a, volatile int b, const volatile int *p) { const int c = a + b; volatile int d = c; return d + *p; }\n",
    "void_pointer": "int f(void *v, int n) { char *c = (char *)v; int *i = v; return c[n] + i[0]; }\n",
}


# ---------------------------------------------------------------------------------------------------------
# One minimal translation unit per statement / expression / declaration KIND that clang's AST distinguishes and that
# is reachable without headers (name = the clang node kind it is aimed at).  Each is analysed in its own file.
KINDS_CPP = {
    # ---- statements
    "NullStmt": "void f() { ; }\n",
    "CompoundStmt_nested": "int f(int a) { { { a++; } } return a; }\n",
    "LabelStmt_unused": "int f(int a) {\nl:\n  return a; }\n",
    "AttributedStmt_fallthrough": "int f(int a) { switch (a) { case 1: a++; [[fallthrough]]; case 2: a--; break; default: break; } return a; }\n",
    "IfStmt_else_chain": "int f(int a) { if (a == 1) return 1; else if (a == 2) return 2; else return 3; }\n",
    "IfStmt_init": "int g(); int f() { if (int a = g(); a > 1) return a; return 0; }\n",
    "IfStmt_constexpr": "template<int N> int f() { if constexpr (N > 1) return N; else return 0; }\nint h() { return f<2>() + f<0>(); }\n",
    "SwitchStmt_fallthrough_default_first": "int f(int a) { int r = 0; switch (a) { default: r = 9; case 0: r++; case 1: r += 2; break; case 2: { r = 5; } } return r; }\n",
    "SwitchStmt_empty": "int f(int a) { switch (a) { } switch (a) default: a++; return a; }\n",
    "SwitchStmt_decl_cond": "int g(); int f() { switch (int k = g()) { case 1: return k; default: return 0; } }\n",
    "WhileStmt_decl_cond": "int g(); int f() { int s = 0; while (int k = g()) { s += k; } return s; }\n",
    "WhileStmt_empty_body": "int f(int a) { while (a-- > 0); return a; }\n",
    "DoStmt_single": "int f(int a) { do a--; while (a > 0); return a; }\n",
    "ForStmt_empty_parts": "int f(int a) { for (;;) { if (a++ > 3) break; } for (; a < 9;) a++; for (int i = 0, j = 1; i < j; i++, j--) a += i; return a; }\n",
    "CXXForRangeStmt_array_ref": "int f() { int v[3] = {1, 2, 3}; for (int &e : v) e++; int s = 0; for (const auto &e : v) s += e; return s; }\n",
    "CXXForRangeStmt_init_list_struct": "struct R { int a[2]; int *begin() { return a; } int *end() { return a + 2; } };\nint f(R r) { int s = 0; for (int e : r) s += e; return s; }\n",
    "GotoStmt_backward": "int f(int a) {\nagain:\n  if (a++ < 3) goto again; return a; }\n",
    "IndirectGotoStmt": "int f(int a) { static void *t[] = {&&l0, &&l1}; goto *t[a & 1];\nl0:\n  return 0;\nl1:\n  return 1; }\n",
    "ContinueStmt_while": "int f(int a) { int s = 0; while (a-- > 0) { if (a & 1) continue; s += a; } return s; }\n",
    "BreakStmt_nested": "int f(int a) { for (int i = 0; i < 3; i++) { for (int j = 0; j < 3; j++) { if (j == a) break; } if (i == a) break; } return a; }\n",
    "ReturnStmt_void": "void f(int a) { if (a) return; a++; return; }\n",
    "ReturnStmt_init_list": "struct S { int a; int b; }; S f() { return {1, 2}; }\n",
    "DeclStmt_multi": "int f() { int a = 1, *p = &a, b[2] = {1, 2}, &r = a; return a + *p + b[1] + r; }\n",
    "DeclStmt_local_types": "int f() { struct L { int m; }; enum E { A, B }; typedef int I; using J = long; L l = {1}; I i = B; J j = 2; return l.m + i + (int)j; }\n",
    "DeclStmt_local_function": "int f() { int g(int); extern int ev; return g(ev); }\n",
    "GCCAsmStmt_operands": "int f(int a) { int r; __asm__ volatile(\"mov %1, %0\" : \"=r\"(r) : \"r\"(a) : \"memory\"); return r; }\n",
    "GCCAsmStmt_goto": "int f(int a) { __asm__ goto(\"\" : : \"r\"(a) : : out); return 0;\nout:\n  return 1; }\n",
    "CXXTryStmt_typed": "struct E { int c; };\nint g(); int f() { try { return g(); } catch (const E &e) { return e.c; } catch (int) { return 1; } }\n",
    "CXXTryStmt_catch_all": "int g(); int f() { try { return g(); } catch (...) { return -1; } }\n",
    "CXXTryStmt_nested": "int g(); int f() { try { try { return g(); } catch (int a) { throw; } } catch (...) { return 0; } return 1; }\n",
    "CXXTryStmt_function_try_block": "int g(); int f() try { return g(); } catch (...) { return 0; }\n",
    "CXXTryStmt_ctor_try_block": "int g(); struct S { int m; S() try : m(g()) {} catch (...) {} };\n",
    "CXXThrowExpr_value": "int f(int a) { if (a) throw a; return 0; }\n",
    "CXXThrowExpr_rethrow": "int translate() { throw; }\n",
    "CXXThrowExpr_rethrow_in_catch": "int g(); int f() { try { return g(); } catch (...) { throw; } }\n",
    "CXXThrowExpr_object": "struct E { int c; E(int a) : c(a) {} };\nvoid f(int a) { throw E(a); }\n",
    "CXXThrowExpr_string": "void f() { throw \"bad\"; }\n",
    "CXXThrowExpr_in_conditional": "int f(int a) { return a ? a : throw 1; }\n",
    "CXXThrowExpr_noexcept_false": "void f() noexcept(false) { throw 1.5; }\n",
    # ---- literals and primary expressions
    "IntegerLiteral_kinds": "unsigned long long f() { return 1 + 2u + 3l + 4ul + 5ll + 6ull + 0x7 + 010 + 0b11 + 1'000; }\n",
    "FloatingLiteral_kinds": "double f() { return 1.0 + 2.f + 3.L + 4e2 + 0x1p3 + .5; }\n",
    "CharacterLiteral_kinds": "int f() { return 'a' + L'b' + u'c' + U'd' + '\\n' + '\\x41' + '\\0'; }\n",
    "StringLiteral_kinds": "int f() { const char *a = \"x\"; const wchar_t *b = L\"y\"; const char16_t *c = u\"z\"; const char32_t *d = U\"w\"; const char *e = u8\"v\"; const char *r = R\"(raw)\"; return a[0] + b[0] + c[0] + d[0] + e[0] + r[0]; }\n",
    "CXXBoolLiteralExpr": "bool f(bool a) { return a ? true : false; }\n",
    "CXXNullPtrLiteralExpr": "int *f(int *p) { if (p == nullptr) return nullptr; decltype(nullptr) n = nullptr; return n; }\n",
    "GNUNullExpr": "int *f() { return __null; }\n",
    "ImaginaryLiteral": "double f() { _Complex double z = 1.0 + 2.0i; return __real__ z + __imag__ z; }\n",
    "PredefinedExpr": "const char *f() { return __func__; } const char *g() { return __PRETTY_FUNCTION__; }\n",
    "ParenExpr_nested": "int f(int a) { return (((a))) + ((a) * (2)); }\n",
    "SourceLocExpr": "int f() { return __builtin_LINE() + __builtin_COLUMN(); } const char *g() { return __builtin_FILE(); }\n",
    # ---- operators
    "UnaryOperator_all": "int f(int a, int *p) { int b = +a; b = -b; b = !b; b = ~b; b = *p; p = &b; ++b; --b; b++; b--; return __extension__ b; }\n",
    "BinaryOperator_arith": "int f(int a, int b) { return a + b - a * b / (b | 1) % (a | 1); }\n",
    "BinaryOperator_bits_shift": "int f(int a, int b) { return ((a & b) | (a ^ b)) << (b & 3) >> 1; }\n",
    "BinaryOperator_compare": "int f(int a, int b) { return (a < b) + (a > b) + (a <= b) + (a >= b) + (a == b) + (a != b); }\n",
    "BinaryOperator_logical": "int f(int a, int b) { return (a && b) || (!a && !b); }\n",
    "BinaryOperator_comma": "int f(int a, int b) { return a++, b++, a + b; }\n",
    "BinaryOperator_assign_chain": "int f(int a) { int b, c; b = c = a; return b + c; }\n",
    "BinaryOperator_pointer": "long f(int *p, int *q) { return (p + 1 - q) + (p < q) + (p == q); }\n",
    "BinaryOperator_member_pointer": "struct S { int m; int g() { return m; } };\nint f(S s, S *p) { int S::*d = &S::m; int (S::*mf)() = &S::g; return s.*d + p->*d + (s.*mf)() + (p->*mf)(); }\n",
    "CompoundAssignOperator_all": "int f(int a, int b) { a += b; a -= b; a *= b; a /= (b | 1); a %= (b | 1); a &= b; a |= b; a ^= b; a <<= 1; a >>= 1; return a; }\n",
    "CompoundAssignOperator_pointer_float": "double f(double d, int *p) { p += 2; p -= 1; d += *p; d *= 2; d /= 3; return d; }\n",
    "ConditionalOperator_comma": "int f(int a, int b) { return a ? (b++, b) : (a--, a); }\n",
    "ConditionalOperator_nested_lvalue": "int f(int a, int b, int c) { (a ? b : c) = 1; return a ? b ? 1 : 2 : c ? 3 : 4; }\n",
    "BinaryConditionalOperator": "int f(int a, int b) { return a ?: b; }\n",
    "ArraySubscriptExpr_forms": "int f(int *p, int i) { int a[2][2] = {{1, 2}, {3, 4}}; return p[i] + i[p] + a[1][0] + \"ab\"[1] + (&a[0])[1][1]; }\n",
    "CallExpr_forms": "int g(int); int (*gp)(int) = g; int (&gr)(int) = g;\nint f(int a) { return g(a) + gp(a) + (*gp)(a) + gr(a) + (g)(a) + (&g)(a); }\n",
    "CallExpr_builtin": "int f(int a) { return __builtin_expect(a, 1) + __builtin_abs(a) + __builtin_popcount(a) + __builtin_constant_p(a); }\n",
    "MemberExpr_forms": "struct I { int v; }; struct S { I i; I *p; int a[2]; static int s; };\nint S::s = 1;\nint f(S s, S *q) { return s.i.v + s.p->v + q->i.v + q->p->v + s.a[1] + q->a[0] + s.s + q->s + S::s; }\n",
    "CStyleCastExpr": "int f(double d, void *v, long l) { return (int)d + *(int *)v + (char)l + (int)(long)v; }\n",
    "CXXFunctionalCastExpr": "struct S { int m; S(int a) : m(a) {} };\nint f(double d) { return int(d) + S(3).m + S{4}.m + int{} + char(65); }\n",
    "CXXStaticCastExpr": "struct B {}; struct D : B { int m; };\nint f(double d, B *b, void *v) { return static_cast<int>(d) + static_cast<D *>(b)->m + *static_cast<int *>(v); }\n",
    "CXXDynamicCastExpr": "struct B { virtual ~B() {} }; struct D : B { int m; };\nint f(B *b, B &r) { D *d = dynamic_cast<D *>(b); D &dr = dynamic_cast<D &>(r); void *v = dynamic_cast<void *>(b); return (d ? d->m : 0) + dr.m + (v != 0); }\n",
    "CXXReinterpretCastExpr": "long f(int *p, long l) { char *c = reinterpret_cast<char *>(p); int &r = reinterpret_cast<int &>(l); return reinterpret_cast<long>(c) + r; }\n",
    "CXXConstCastExpr": "int f(const int *p, const int &r) { *const_cast<int *>(p) = 1; const_cast<int &>(r) = 2; return *p + r; }\n",
    "ImplicitCastExpr_kinds": "struct B {}; struct D : B {}; void t(B *); void u(const int &); void w(bool);\nvoid f(D *d, short s, float fl, int a[3], int (*fp)()) { t(d); u(s); w(d); w(fl); double x = s; long l = fl; int *p = a; unsigned un = -1; (void)x; (void)l; (void)p; (void)un; (void)fp; }\n",
    "CompoundLiteralExpr": "struct S { int a; int b; };\nint f() { int *p = (int[]){1, 2}; return ((struct S){3, 4}).b + p[0]; }\n",
    "InitListExpr_nested": "struct I { int a; int b; }; struct S { I i; int v[3]; const char *s; };\nint f() { S s = {{1, 2}, {3, 4}, \"x\"}; S t = {}; S u{{5}}; int m[2][2] = {1, 2, 3, 4}; return s.i.b + t.v[0] + u.i.a + m[1][1]; }\n",
    "DesignatedInitExpr": "struct S { int a; int b; };\nint f() { S s = {.a = 1, .b = 2}; return s.a + s.b; }\n",
    "ImplicitValueInitExpr": "struct S { int a; int b; int c[4]; };\nint f() { S s = {1}; int v[8] = {1, 2}; return s.b + s.c[3] + v[7]; }\n",
    "ParenListExpr_template": "template<class T> struct W { T t; W(int a) : t(a, a) {} }; struct P { P(int, int) {} };\nint f() { W<P> w(1); (void)w; return 0; }\n",
    "VAArgExpr": "int f(int n, ...) { __builtin_va_list ap, aq; __builtin_va_start(ap, n); __builtin_va_copy(aq, ap); int a = __builtin_va_arg(ap, int); double d = __builtin_va_arg(aq, double); __builtin_va_end(ap); __builtin_va_end(aq); return a + (int)d; }\n",
    "StmtExpr_nested": "int f(int a) { return ({ int b = ({ a + 1; }); if (b > 2) b = 2; b; }); }\n",
    "UnaryExprOrTypeTraitExpr": "struct S { char c; long l; };\nunsigned long f(int a, int v[5]) { int w[a + 1]; return sizeof a + sizeof(a) + sizeof(S) + sizeof(int[3]) + sizeof v + sizeof w + alignof(S) + __alignof__(a) + sizeof(S::l) + sizeof \"abc\"; }\n",
    "OffsetOfExpr": "struct I { int x; int y[3]; }; struct S { char c; I i; };\nunsigned long f() { return __builtin_offsetof(S, i) + __builtin_offsetof(S, i.y[2]); }\n",
    "ChooseExpr": "int f(int a) { return __builtin_choose_expr(sizeof(int) == 4, a + 1, a - 1); }\n",
    "AddrLabelExpr": "void *f() {\nl:\n  return &&l; }\n",
    "TypeTraitExpr": "struct S { int m; };\nint f() { return __is_pod(S) + __is_class(S) + __is_same(int, int) + __is_base_of(S, S) + __has_trivial_destructor(S); }\n",
    "AtomicExpr": "int f(int *p, _Atomic(int) *q) { int a = __atomic_load_n(p, 5); __atomic_store_n(p, a + 1, 5); a += __atomic_fetch_add(p, 1, 5); a += __c11_atomic_load(q, 5); __c11_atomic_store(q, a, 5); return a + __sync_fetch_and_add(p, 1); }\n",
    "vector_extensions": "typedef int v4 __attribute__((vector_size(16))); typedef float f4 __attribute__((ext_vector_type(4)));\nint f(v4 a, v4 b, f4 c) { v4 s = a + b; v4 t = __builtin_shufflevector(a, b, 0, 1, 4, 5); f4 d = c.xyzw + c.wzyx; v4 e = __builtin_convertvector(c, v4); return s[0] + t[1] + (int)d.x + e[2]; }\n",
    "BuiltinBitCastExpr": "int f(float x) { return __builtin_bit_cast(int, x); }\n",
    "ConstantExpr_contexts": "constexpr int k = 3; enum E { A = k + 1 }; int arr[k * 2]; static_assert(k == 3, \"\");\ntemplate<int N> struct T { int v[N]; };\nint f(int a) { T<k + A> t; switch (a) { case k: return sizeof(t.v); case A + 1: return 1; } return sizeof(arr); }\n",
    # ---- C++ object expressions
    "CXXThisExpr": "struct S { int m; S *me() { return this; } int g() const { return this->m + (*this).m; } S &inc() { ++m; return *this; } };\nint f(S s) { return s.me()->g() + s.inc().inc().m; }\n",
    "CXXThisExpr_lambda": "struct S { int m; int g() { auto l = [this]() { return m + this->m; }; return l(); } };\n",
    "CXXDefaultArgExpr": "struct S { int m; S(int a = 7) : m(a) {} };\nint g(int a = 1, S s = S(), int *p = nullptr) { return a + s.m + (p ? 1 : 0); }\nint f() { return g() + g(2) + g(3, S(4)); }\n",
    "CXXDefaultInitExpr": "int g(); struct S { int a = 1; int b = g(); int c{3}; int *p = nullptr; S() {} S(int x) : a(x) {} };\nint f() { S s; S t(2); S u = S{}; return s.b + t.c + u.a; }\n",
    "CXXNewExpr_forms": "struct S { int m; S() : m(0) {} S(int a) : m(a) {} };\nint f(int n) { int *a = new int; int *b = new int(3); int *c = new int[n]; int *d = new int[3]{1, 2, 3}; S *s = new S; S *t = new S(4); S *u = new S[2]; S *v = new S{5}; int **pp = new int *[2]; int r = *a + *b + c[0] + d[2] + s->m + t->m + u[1].m + v->m; delete a; delete b; delete[] c; delete[] d; delete s; delete t; delete[] u; delete v; delete[] pp; return r; }\n",
    "CXXNewExpr_placement": "void *operator new(unsigned long, void *p) noexcept { return p; }\nstruct S { int m; S(int a) : m(a) {} };\nint f() { alignas(S) char buf[sizeof(S)]; S *s = new (buf) S(3); int r = s->m; s->~S(); return r; }\n",
    "CXXDeleteExpr_forms": "struct S { virtual ~S() {} }; struct D : S { int m; };\nvoid f(S *s, int *p, D *d, const int *c) { delete s; delete[] p; delete d; delete c; ::delete (int *)0; }\n",
    "CXXConstructExpr_forms": "struct S { int m; S() : m(0) {} S(int a) : m(a) {} S(int a, int b) : m(a + b) {} S(const S &o) : m(o.m) {} };\nS mk() { return S(1, 2); }\nint f() { S a; S b(1); S c = 2; S d{3}; S e = {4, 5}; S g = b; S h(mk()); S i = S(S(6)); return a.m + b.m + c.m + d.m + e.m + g.m + h.m + i.m; }\n",
    "CXXTemporaryObjectExpr": "struct S { int m; S(int a, int b) : m(a + b) {} ~S() {} int g() const { return m; } };\nint t(const S &s) { return s.m; }\nint f() { return S(1, 2).g() + t(S(3, 4)) + S{5, 6}.m; }\n",
    "ExprWithCleanups_MaterializeTemporary": "struct S { int m; ~S() {} }; S mk();\nint f() { const S &r = mk(); S &&rr = mk(); int a = mk().m; return r.m + rr.m + a; }\n",
    "CXXBindTemporaryExpr": "struct S { ~S(); int m; }; S mk(); void use(S);\nint f() { use(mk()); return mk().m; }\n",
    "CXXMemberCallExpr_forms": "struct B { virtual int v() { return 1; } int n() const { return 2; } static int s() { return 3; } }; struct D : B { int v() override { return B::v() + 1; } };\nint f(D d, D *p, B &r) { return d.v() + p->v() + r.v() + d.n() + p->n() + d.s() + B::s() + p->B::v() + d.B::n(); }\n",
    "CXXOperatorCallExpr_all": "struct V { int x; V operator+(V o) const { return V{x + o.x}; } V operator-() const { return V{-x}; } V &operator+=(V o) { x += o.x; return *this; } V &operator++() { ++x; return *this; } V operator++(int) { V t = *this; ++x; return t; } bool operator<(V o) const { return x < o.x; } bool operator!() const { return !x; } int operator[](int i) const { return x + i; } int operator()(int a) const { return x + a; } V *operator->() { return this; } int operator*() const { return x; } V &operator=(const V &o) { x = o.x; return *this; } V &operator,(V o) { (void)o; return *this; } explicit operator bool() const { return x != 0; } };\nV operator*(V a, V b) { return V{a.x * b.x}; } bool operator==(V a, V b) { return a.x == b.x; } V operator<<(V a, int s) { return V{a.x << s}; }\nint f(V a, V b) { V c = a + b; c += -a; ++c; c++; c = a * b; c = (a, b); return (a < b) + !a + c[1] + c(2) + c->x + *c + (a == b) + (c << 1).x + (c ? 1 : 0); }\n",
    "CXXOperatorCallExpr_new_delete_members": "struct S { int m; static void *operator new(unsigned long n); static void operator delete(void *p); };\nint f() { S *s = new S; int r = s->m; delete s; return r; }\n",
    "UserDefinedLiteral_kinds": "constexpr unsigned long long operator\"\" _i(unsigned long long v) { return v; } constexpr long double operator\"\" _d(long double v) { return v; } constexpr char operator\"\" _c(char c) { return c; } constexpr unsigned long operator\"\" _s(const char *s, unsigned long n) { return n + (s != nullptr); } constexpr int operator\"\" _r(const char *s) { return s[0]; }\nint f() { return (int)(1_i + 2.5_d + 'x'_c + \"ab\"_s + 12_r); }\n",
    "LambdaExpr_capture_kinds": "struct S { int m; int g(int a) { int b = 1, c = 2; auto l0 = [] { return 0; }; auto l1 = [=] { return a + b; }; auto l2 = [&] { b++; return c; }; auto l3 = [a, &b] { b += a; return b; }; auto l4 = [this] { return m; }; auto l5 = [=, &c] { c = a; return m; }; auto l6 = [&, a] { return a + b + c; }; auto l7 = [k = a + 1, &r = b] { r++; return k; }; auto l8 = [*this] { return m; }; return l0() + l1() + l2() + l3() + l4() + l5() + l6() + l7() + l8(); } };\n",
    "LambdaExpr_forms": "int f(int a) { auto g = [](auto x, auto y) { return x + y; }; auto m = [a]() mutable noexcept -> int { return ++a; }; int (*fp)(int) = [](int x) { return x * 2; }; auto n = [](int x = 3) { return x; }; auto r = [&a](int d) { if (d == 0) return a; return a + d; }; return g(1, 2) + (int)g(1.5, 2) + m() + fp(3) + n() + r(1) + [] { return 7; }(); }\n",
    "LambdaExpr_nested_recursive": "int f(int a) { auto outer = [a](int b) { auto inner = [a, b](int c) { return a + b + c; }; return inner(1); }; return outer(2); }\n",
    "CXXScalarValueInitExpr": "template<class T> T z() { return T(); }\nint f() { return int() + (int)double() + z<int>() + (z<int *>() == nullptr) + char(); }\n",
    "CXXNoexceptExpr": "void g() noexcept; void h();\nint f() { return noexcept(g()) + noexcept(h()) + noexcept(1 + 1); }\n",
    "CXXPseudoDestructorExpr": "typedef int I; template<class T> void d(T *p) { p->~T(); }\nvoid f(I *p) { p->~I(); d(p); }\n",
    "CXXInheritedCtorInitExpr": "struct B { int m; B(int a) : m(a) {} B(int a, int b) : m(a + b) {} }; struct D : B { using B::B; int n = 1; };\nint f() { D d(1); D e(2, 3); return d.m + e.m + d.n; }\n",
    "ArrayInitLoopExpr": "struct S { int a[3]; };\nint f(S s) { S t = s; int v[2] = {1, 2}; auto l = [v] { return v[1]; }; auto [x, y] = v; return t.a[2] + l() + x + y; }\n",
    "DecompositionDecl": "struct P { int a; int b; };\nint f(P p) { auto [x, y] = p; auto &[u, w] = p; int arr[2] = {1, 2}; auto [m, n] = arr; u = 3; return x + y + w + m + n; }\n",
    "SizeOfPackExpr_PackExpansion": "int g(int, int, int); template<class... Ts> int h(Ts... ts) { return sizeof...(Ts) + sizeof...(ts) + g(ts...); } template<class... Ts> int k(Ts... ts) { int v[] = {(ts + 1)...}; return v[0] + h(ts * 2 ...); }\nint f() { return k(1, 2, 3); }\n",
    "CXXFoldExpr": "template<class... Ts> int sum(Ts... ts) { return (ts + ...); } template<class... Ts> bool all(Ts... ts) { return (... && ts); } template<class... Ts> int s0(Ts... ts) { return (0 + ... + ts); }\nint f() { return sum(1, 2, 3) + all(true, 1) + s0() + s0(4); }\n",
    "SubstNonTypeTemplateParmExpr": "template<int N, bool B, char C> int g() { return N + B + C; } template<int *P> int h() { return *P; } int gv;\nint f() { return g<3, true, 'a'>() + h<&gv>(); }\n",
    "dependent_exprs_uninstantiated": "template<class T> struct W { T t; int g(T a) { typename T::type x = a.m + T::s; a.template h<int>(x); this->t.k(); return sizeof(T) + T(1, 2).v + static_cast<int>(a) + (a ? 1 : 0) + x[0]; } };\ntemplate<class T> int u(T a) { T b(a); T c{a}; auto l = [=](T d) { return d + b; }; return l(c) + g(a) + a.f() + a->y + (*a).z + T::template q<3>(); }\n",
    "dependent_exprs_instantiated": "struct A { typedef int type; int m; static int s; template<class U> void h(U) {} int k() { return 1; } };\nint A::s = 2;\ntemplate<class T> struct W { T t; int g(T a) { typename T::type x = a.m + T::s; a.template h<int>(x); return this->t.k() + x; } };\nint f() { W<A> w; return w.g(A()); }\n",
    "OpaqueValueExpr_ArrayFiller": "int f(int a) { int v[100] = {a, a + 1}; char s[10] = \"ab\"; int w[4][4] = {{1}, {2}}; return v[50] + s[5] + w[3][3] + (a ?: 5); }\n",
    # ---- declarations
    "VarDecl_storage": "static int a; extern int b; int b = 1; thread_local int c; static thread_local int d; constexpr int e = 2; const int g = 3; extern const int h; inline int i = 4; volatile int j; int k(5); int l{6}; int m = {7};\nint f() { static int s; static const int t = 1; register int r = 2; return a + b + c + d + e + g + i + j + k + l + m + s + t + r; }\n",
    "VarDecl_auto_types": "int g(); int f() { auto a = 1; auto b = 1.5; auto *p = &a; auto &r = a; const auto c = 'c'; auto &&u = g(); decltype(a) d = a; decltype((a)) e = a; return a + (int)b + *p + r + c + u + d + e; }\n",
    "VarTemplateDecl": "template<class T> constexpr T pi = T(3); template<class T> T zero{}; template<> constexpr int pi<char> = 4;\nint f() { return pi<int> + (int)pi<double> + zero<int> + pi<char>; }\n",
    "FunctionDecl_specifiers": "inline int a() { return 1; } static int b() { return 2; } constexpr int c() { return 3; } int d() noexcept { return 4; } [[noreturn]] void e(); extern int g(); int h(void); int i(...); auto j() -> int { return 5; } auto k() { return 6; } decltype(auto) l() { return 7; } int m() = delete; static inline constexpr int n() noexcept { return 8; }\nint f() { return a() + b() + c() + d() + j() + k() + l() + n(); }\n",
    "FunctionDecl_params": "int g(int, int b, int = 3, const int &r = 4, int *p = nullptr, int a[] = nullptr, int (*fp)(int) = nullptr, int (&ar)[2] = *(int (*)[2])nullptr, ...);\nint f(int a, int, int c) { return a + c; }\n",
    "FunctionDecl_overload_redecl": "int g(int); int g(int); int g(int a) { return a; } int g(double); int g(int, int = 0) = delete;\nint f() { return g(1.0); }\n",
    "main_function": "int main(int argc, char **argv) { return argc + (argv[0] != nullptr); }\n",
    "FieldDecl_kinds": "struct S { int a; mutable int b; const int c = 1; int d : 3; unsigned : 2; int e : 4 = 1; static int s; static const int k = 5; static constexpr int ce = 6; int arr[2]; int *p; int &r; int S::*mp; int (*fp)(int); S(int &x) : r(x) {} };\nint S::s = 0;\n",
    "CXXRecordDecl_kinds": "struct A { int a; }; class B { int b; public: int c; protected: int d; private: int e; }; union U { int i; char c; }; struct E {}; struct F final : A {}; struct G : public A, private E {}; struct V1 : virtual A {}; struct V2 : virtual A {}; struct J : V1, V2 { int j() { return a; } }; struct Abs { virtual int p() = 0; virtual ~Abs() = default; }; struct Impl : Abs { int p() override { return 1; } }; struct Fwd; struct Fwd { Fwd *next; };\nint f() { J j; Impl i; G g; F ff; B b; (void)b; (void)ff; return j.j() + i.p() + g.a; }\n",
    "CXXRecordDecl_nested_local_anon": "struct O { struct I { int v; struct D { int w; } d; } i; enum E { X, Y } e; typedef int T; static int s; union { int u1; char u2; }; struct { int an; } n; };\nint O::s = 0;\nint f() { O o; o.u1 = 1; o.n.an = 2; O::I::D dd = {3}; struct { int q; } loc = {4}; return o.u1 + o.n.an + dd.w + loc.q + O::Y; }\n",
    "EnumDecl_kinds": "enum A { A0, A1 = 5, A2 }; enum class B { X, Y = 3 }; enum struct C : unsigned char { P = 255 }; enum D : short; enum D : short { D0 = -1 }; enum { ANON = 9 }; typedef enum { T0 } TE; enum class Fw; enum class Fw { Z };\nint f(A a, B b) { TE t = T0; return a + (int)b + (int)C::P + D0 + ANON + t + (int)Fw::Z + (b == B::Y) + (a < A2); }\n",
    "TypedefDecl_TypeAliasDecl": "typedef int I; typedef I *IP; typedef int A3[3]; typedef int (*FP)(int); typedef int (S0)(int); typedef struct { int m; } TS; typedef struct N { struct N *n; } N; using U = unsigned; using UP = U *; using UF = int (*)(int); using UA = int[2]; template<class T> using Ptr = T *; template<class T, int K> using Arr = T[K];\nint f(I a, IP p, A3 v, FP fp, TS t, N *n, U u, UF uf, Ptr<int> q, Arr<int, 2> &r) { S0 *s = fp; return a + *p + v[0] + fp(1) + s(2) + t.m + (n->n != nullptr) + u + uf(3) + *q + r[1]; }\n",
    "NamespaceDecl_kinds": "namespace A { int a; namespace B { int b; } } namespace A { int a2; } namespace { int anon; } inline namespace I { int i; } namespace A::B::C { int c; } namespace AB = A::B; namespace ABC = AB::C;\nint f() { using namespace A; using A::B::b; using namespace AB; return a + a2 + b + anon + i + I::i + ABC::c + ::A::B::C::c; }\n",
    "UsingDecl_kinds": "namespace N { int v; int g(int); int g(double); struct S { int m; }; enum E { X }; } struct B { int m; void h(int); void h(double); protected: int p; }; struct D : B { using B::h; using B::p; void h(char); };\nusing N::v; using N::g; using N::S; using N::E; using N::X;\nint f() { S s = {1}; E e = X; D d; d.h(1); d.h('c'); d.p = 2; return v + g(1) + g(1.0) + s.m + e + d.p; }\n",
    "LinkageSpecDecl": "extern \"C\" int c1(int); extern \"C\" { int c2(int); extern int cv; struct CS { int m; }; } extern \"C++\" { int cpp1(); } extern \"C\" int c3(int a) { return a; } extern \"C\" { static int c4() { return 1; } }\nint f() { CS s = {1}; return c1(1) + c2(2) + cv + cpp1() + c3(3) + c4() + s.m; }\n",
    "StaticAssertDecl": "static_assert(sizeof(int) >= 2, \"msg\"); static_assert(true); struct S { static_assert(sizeof(char) == 1, \"\"); int m; }; template<class T> struct W { static_assert(sizeof(T) > 0, \"\"); };\nint f() { static_assert(1 + 1 == 2, \"\"); W<int> w; (void)w; return 0; }\n",
    "FriendDecl_kinds": "class A; class B { friend class A; friend struct C; friend int peek(const B &); friend int inl(const B &b) { return b.x; } template<class T> friend struct W; template<class T> friend T tf(const B &); int x = 1; };\nclass A { public: int g(const B &b) { return b.x; } }; int peek(const B &b) { return b.x; } template<class T> T tf(const B &b) { return b.x; }\nint f() { B b; A a; return a.g(b) + peek(b) + inl(b) + tf<int>(b); }\n",
    "AccessSpecDecl": "class C { public: int a; protected: int b; private: int c; public: C() : a(1), b(2), c(3) {} int sum() const { return a + b + c; } };\nstruct S { private: int p = 1; public: int q = p; };\nint f() { C c; S s; return c.sum() + s.q; }\n",
    "CXXConstructorDecl_kinds": "struct B { int b; B() : b(0) {} explicit B(int a) : b(a) {} }; struct M { int m; M(int a = 0) : m(a) {} };\nstruct S : B { M m1, m2; int a; int arr[2]; const int c; int &r; S() : S(1) {} S(int x) : B(x), m1(x), m2{x + 1}, a(x), arr{1, 2}, c(3), r(a) {} S(const S &o) : B(o), m1(o.m1), m2(o.m2), a(o.a), arr{o.arr[0], o.arr[1]}, c(o.c), r(a) {} S(S &&o) noexcept : S(o.a) {} S(int x, int y) : S(x + y) {} S &operator=(const S &) = delete; };\nstruct Def { Def() = default; Def(const Def &) = default; Def(Def &&) = default; Def &operator=(const Def &) = default; Def &operator=(Def &&) = default; ~Def() = default; int m = 1; };\nint f() { S s; S t(2); S u(t); S v(static_cast<S &&>(t)); S w(1, 2); Def d; Def e(d); Def g(static_cast<Def &&>(d)); e = g; return s.a + t.a + u.a + v.a + w.a + e.m; }\n",
    "CXXDestructorDecl_kinds": "struct A { ~A() {} }; struct B { virtual ~B(); }; B::~B() {} struct C : B { ~C() override {} }; struct D { ~D() = default; }; struct E { virtual ~E() = 0; }; E::~E() {} struct F : E { ~F() noexcept {} }; struct G { ~G() = delete; }; struct H { A a; B b; };\nint f() { A a; C c; D d; F ff; H h; B *p = new C; delete p; a.~A(); (void)d; (void)ff; (void)h; return 0; }\n",
    "CXXConversionDecl": "struct S { int m; operator int() const { return m; } explicit operator bool() const { return m != 0; } operator const char *() const { return \"s\"; } template<class T> operator T *() const { return nullptr; } };\nint f(S s) { int a = s; const char *c = s; long *lp = s; if (s) a++; return a + c[0] + (lp == nullptr) + static_cast<bool>(s) + (s ? 1 : 2); }\n",
    "CXXMethodDecl_qualifiers": "struct S { int m; int a() { return m; } int b() const { return m; } int c() volatile { return m; } int d() const volatile { return m; } int e() & { return 1; } int e() && { return 2; } int g() const & { return 3; } int h() noexcept { return m; } static int s() { return 4; } virtual int v() { return 5; } virtual int w() const = 0; inline int i(); constexpr int k() const { return 6; } auto t() const -> int { return m; } };\nint S::i() { return 7; }\nstruct D final : S { int v() override final { return 8; } int w() const override { return 9; } };\nint f(D d, const D cd) { return d.a() + cd.b() + d.e() + static_cast<D &&>(d).e() + cd.g() + S::s() + d.v() + cd.w() + d.i() + cd.k() + cd.t(); }\n",
    "FunctionTemplateDecl_kinds": "template<class T> T id(T t) { return t; } template<> int id<int>(int t) { return t + 1; } template int *id<int *>(int *); extern template double id<double>(double); template<class T, class U = int, int N = 3> U conv(T t) { return U(t) + N; } template<class T> T ov(T) { return T(); } template<class T> T ov(T *) { return T(); } template<typename T, typename... R> int cnt(T, R... r) { return 1 + sizeof...(r); } template<class T> constexpr T sq(T t) { return t * t; } template<template<class> class C, class T> int tt(C<T>) { return 1; } template<class T> struct Box {};\nint f() { int x = 0; Box<int> b; return id(1) + (int)id(1.5) + (int)id('c') + *id(&x) + conv(1.5) + conv<int, long, 4>(2) + ov(1) + ov(&x) + cnt(1, 2, 3) + sq(3) + tt(b); }\n",
    "ClassTemplateDecl_kinds": "template<class T, int N = 2> struct A { T v[N]; T get(int i) const { return v[i]; } template<class U> U as(int i) const { return U(v[i]); } static int cnt; typedef T value_type; struct In { T t; }; }; template<class T, int N> int A<T, N>::cnt = N; template<class T> struct A<T, 0> { T get(int) const { return T(); } }; template<> struct A<char, 1> { char get(int) const { return 'x'; } }; template struct A<long, 3>; extern template struct A<short, 3>; template<class T> struct B : A<T> { T first() const { return this->get(0); } using typename A<T>::value_type; value_type second() const { return A<T>::v[1]; } }; template<class T> struct C; template<class T> struct C<T *> { int p() { return 1; } }; template<class T> struct C<T &> { int p() { return 2; } };\nint f() { A<int> a = {{1, 2}}; A<int, 0> z; A<char, 1> c; B<int> b = {}; C<int *> cp; C<int &> cr; A<int>::In in = {3}; A<double, 1>::value_type d = 1.5; return a.get(1) + a.as<long>(0) + A<int>::cnt + z.get(0) + c.get(0) + b.first() + b.second() + cp.p() + cr.p() + in.t + (int)d; }\n",
    "template_member_out_of_line": "template<class T> struct S { T m; S(T t); ~S(); T get() const; template<class U> U conv() const; static T make(); S &operator+=(const S &o); }; template<class T> S<T>::S(T t) : m(t) {} template<class T> S<T>::~S() {} template<class T> T S<T>::get() const { return m; } template<class T> template<class U> U S<T>::conv() const { return U(m); } template<class T> T S<T>::make() { return T(); } template<class T> S<T> &S<T>::operator+=(const S &o) { m += o.m; return *this; }\nint f() { S<int> s(1); S<int> t(2); s += t; return s.get() + (int)s.conv<double>() + S<int>::make(); }\n",
    "TemplateTemplateParm_defaults": "template<class T> struct V { T t; }; template<template<class> class C = V, class T = int> struct H { C<T> c; }; template<class T, T N> struct K { static constexpr T v = N; }; template<int... Ns> struct Seq { static constexpr int n = sizeof...(Ns); }; template<class... Ts> struct Tup {}; template<class T, class... Ts> struct Tup<T, Ts...> : Tup<Ts...> { T head; };\nint f() { H<> h; h.c.t = 1; Tup<int, char, double> t; t.head = 2; return h.c.t + K<int, 3>::v + K<char, 'a'>::v + Seq<1, 2, 3>::n + t.head; }\n",
    "IndirectFieldDecl": "struct S { union { int i; float f; struct { short lo; short hi; }; }; struct { int a; union { int b; char c; }; }; };\nint f() { S s; s.i = 1; s.lo = 2; s.a = 3; s.b = 4; return s.i + s.hi + s.a + s.c; }\nstatic union { int gi; char gc; };\nint g() { gi = 1; return gc; }\n",
    "EmptyDecl_FileScopeAsm": ";\nasm(\"nop\");\n;;\nint f() { return 0; };\n",
    "attributes_decl": "[[noreturn]] void die(); [[deprecated(\"x\")]] int old(); [[nodiscard]] int nd(); [[maybe_unused]] static int mu; __attribute__((noinline)) int ni() { return 1; } __attribute__((always_inline)) inline int ai() { return 2; } __attribute__((format(printf, 1, 2))) int pf(const char *, ...); __attribute__((unused)) static int un; __attribute__((aligned(16))) int al; struct __attribute__((packed)) P { char c; int i; }; __attribute__((constructor)) static void ctor() {} __attribute__((weak)) int wk; __attribute__((visibility(\"hidden\"))) int hid; __attribute__((section(\"mysec\"))) int sec; int arr[4] __attribute__((aligned(8))); __attribute__((pure)) int pu(int); __attribute__((const)) int co(int); __attribute__((malloc)) void *ma(unsigned long); __attribute__((nonnull(1))) int nn(int *p); __attribute__((warn_unused_result)) int wur(); void cl(int *); __attribute__((noreturn)) void nr();\nint f(int a) { [[maybe_unused]] int x = a; __attribute__((cleanup(cl))) int y = 1; if (a > 100) die(); P p = {1, 2}; return ni() + ai() + al + p.i + wk + hid + sec + arr[0] + pu(a) + co(a) + y; }\n",
    "alignas_pragma_pack": "struct alignas(16) A { char c; }; alignas(8) char buf[16]; alignas(int) alignas(long) char b2[8];\n#pragma pack(push, 1)\nstruct P { char c; int i; };\n#pragma pack(pop)\nint f() { A a; P p = {1, 2}; alignas(32) int loc = 0; return alignof(A) + sizeof(p) + sizeof(a) + buf[0] + b2[0] + loc + p.i; }\n",
    "references_kinds": "int g(); void lv(int &); void rv(int &&); void cl(const int &); template<class T> void fw(T &&t) { lv(t); } int &ret(int &a) { return a; } int &&mv(int &a) { return static_cast<int &&>(a); }\nint f(int a) { int &r = a; const int &c = 1; int &&rr = g(); int &r2 = r; const int &c2 = a + 1; int (&ar)[1] = *(int (*)[1])&a; lv(a); lv(r); rv(1); rv(mv(a)); cl(a); cl(2); fw(a); ret(a) = 3; return r + c + rr + r2 + c2 + ar[0]; }\n",
    "constexpr_kinds": "constexpr int fact(int n) { return n <= 1 ? 1 : n * fact(n - 1); } constexpr int loop(int n) { int s = 0; for (int i = 0; i < n; i++) s += i; return s; } struct P { int x, y; constexpr P(int a, int b) : x(a), y(b) {} constexpr int sum() const { return x + y; } }; constexpr P origin(1, 2); constexpr int arr[] = {1, 2, 3}; constexpr const char *str = \"abc\"; template<int N> struct I { static constexpr int v = N; };\nint f() { constexpr int a = fact(4); constexpr int b = loop(4); static_assert(origin.sum() == 3, \"\"); int v[I<fact(3)>::v]; return a + b + arr[1] + str[0] + (int)sizeof(v); }\n",
    "noexcept_kinds": "void a() noexcept; void b() noexcept(true); void c() noexcept(false); void d() throw(); template<class T> void e(T t) noexcept(noexcept(t.g())) { t.g(); } struct G { void g() noexcept {} }; struct H { void g() {} }; void (*fp)() noexcept = a; struct S { S() noexcept {} ~S() noexcept(false) {} void m() const noexcept {} };\nint f() { e(G()); e(H()); S s; s.m(); return noexcept(a()) + noexcept(c()) + noexcept(e(G())) + noexcept(S()); }\n",
    "default_arguments_kinds": "int g(int a = 1, double d = 2.5, const char *s = \"x\", int *p = nullptr, bool b = true, char c = 'c'); int gv = 3; int h(int a = gv, int b = g()); struct S { int m(int a = 7) { return a; } static int s(int a = sizeof(int)) { return a; } S(int a = 0, int b = 1) {} }; template<class T> T t(T a = T()) { return a; } int k(int (*f)(int) = nullptr, int (&r)[2] = *(int (*)[2])nullptr);\nint f() { S s; S s1(1); S s2(1, 2); return g() + g(1) + g(1, 2.0) + h() + h(1) + s.m() + S::s() + t<int>() + t(1); }\n",
    "variadic_functions": "int sum(int n, ...); int pr(const char *f, ...) __attribute__((format(printf, 1, 2))); template<class... A> int tv(A... a) { return sum((int)sizeof...(a), a...); } int old(...);\nint f() { return sum(0) + sum(2, 1, 2) + sum(3, 1.5, 'c', \"s\") + pr(\"%d %s\", 1, \"x\") + tv() + tv(1, 2L, 3.0f) + old(1, 2); }\n",
    "static_members_kinds": "struct S { static int a; static const int b = 2; static constexpr int c = 3; static inline int d = 4; static int arr[2]; static S *inst; static int g() { return a; } static const char *const name; int m; };\nint S::a = 1; int S::arr[2] = {1, 2}; S *S::inst = nullptr; const char *const S::name = \"S\";\nint f(S s, S *p) { return S::a + S::b + S::c + S::d + S::arr[1] + (S::inst == nullptr) + S::g() + s.a + p->b + s.g() + S::name[0]; }\n",
    "virtual_override_kinds": "struct A { virtual int a() { return 1; } virtual int b() const { return 2; } virtual int c() = 0; virtual int d(int x = 1) { return x; } virtual ~A() {} }; struct B : A { int a() override { return 3; } int b() const final { return 4; } int c() override { return A::a(); } int d(int x = 2) override { return x; } }; struct C : B { int a() final { return B::a() + 1; } int c() override { return 5; } }; struct V1 : virtual A { int c() override { return 6; } }; struct V2 : virtual A { int a() override { return 7; } }; struct J final : V1, V2 {};\nint f(A &r, A *p) { C c; J j; B b; A &rb = b; return r.a() + p->b() + c.a() + c.c() + j.a() + j.c() + rb.d() + p->A::a() + c.B::c(); }\n",
    "operator_overload_free_kinds": "struct V { int x; }; V operator+(V a, V b) { return {a.x + b.x}; } V operator-(V a) { return {-a.x}; } V &operator+=(V &a, V b) { a.x += b.x; return a; } bool operator==(V a, V b) { return a.x == b.x; } bool operator!=(V a, V b) { return !(a == b); } bool operator<(V a, V b) { return a.x < b.x; } V &operator++(V &a) { ++a.x; return a; } V operator++(V &a, int) { V t = a; ++a.x; return t; } V operator<<(V a, int s) { return {a.x << s}; } int operator&(V a, V b) { return a.x & b.x; } bool operator&&(V a, V b) { return a.x && b.x; } V operator~(V a) { return {~a.x}; } V operator%(V a, int m) { return {a.x % m}; } int operator*(V a) { return a.x; } V operator\"\" _v(unsigned long long n) { return {(int)n}; } void *operator new(unsigned long n, int tag); void operator delete(void *p, int tag);\nint f(V a, V b) { V c = a + b; c += -a; ++c; c++; return (c == a) + (c != b) + (a < b) + (c << 1).x + (a & b) + (a && b) + (~a).x + (a % 3).x + *c + (5_v).x + operator+(a, b).x; }\n",
    "explicit_instantiation_specialization": "template<class T> struct S { T m; T get(); static int n; }; template<class T> T S<T>::get() { return m; } template<class T> int S<T>::n = 1; template<> char S<char>::get(); template<> int S<long>::n = 5; template struct S<int>; template double S<double>::get(); extern template struct S<float>; template<class T> T fn(T); template<> int fn<int>(int a) { return a; } template long fn<long>(long); template<class T> T fn(T t) { return t; }\nint f() { S<int> s = {1}; S<long> l = {2}; return s.get() + S<long>::n + (int)l.get() + fn(3) + (int)fn(4L); }\n",
    "sfinae_decltype_traits": "template<bool B, class T = void> struct en {}; template<class T> struct en<true, T> { typedef T type; }; template<class T> struct is_int { static const bool v = false; }; template<> struct is_int<int> { static const bool v = true; }; template<class T> typename en<is_int<T>::v, int>::type g(T) { return 1; } template<class T> typename en<!is_int<T>::v, int>::type g(T) { return 2; } template<class T> auto h(T t) -> decltype(t.m) { return t.m; } int h(...) { return 0; } struct M { int m; }; template<class T, class = decltype(T().m)> int k(T) { return 3; }\nint f() { return g(1) + g(1.5) + h(M{4}) + h(5) + k(M{}); }\n",
    "global_initialisers": "int g(); struct S { int m; S(int a) : m(a) {} ~S() {} }; int a = g(); S s(1); S t = S(g()); static S u{2}; int arr[] = {g(), 2}; const char *names[] = {\"a\", \"b\"}; int (*fps[])() = {g, g}; S *ps = new S(3); int &ref = a; const int &cref = 5; namespace N { S ns(4); thread_local int tl = g(); }\nint f() { static S loc(g()); return a + s.m + t.m + u.m + arr[0] + names[1][0] + fps[0]() + ps->m + ref + cref + N::ns.m + N::tl + loc.m; }\n",
    "pointer_kinds": "struct S { int m; int g(); }; int gf(int);\nint f(int a) { int *p = &a; int **pp = &p; const int *cp = p; int *const pc = p; const int *const cpc = p; void *v = p; const void *cv = cp; int (*fp)(int) = gf; int (**fpp)(int) = &fp; int (*afp[2])(int) = {gf, gf}; int (*pa)[2] = nullptr; int S::*mp = &S::m; int (S::*mf)() = &S::g; char *s = (char *)v; int *n = 0; int *np = nullptr; (void)pc; (void)cpc; (void)cv; (void)pa; (void)mp; (void)mf; (void)s; (void)n; (void)np; return **pp + (*fpp)(1) + afp[1](2) + (p != nullptr) + (p - p) + *(p + 0) + p[0]; }\n",
    "array_kinds": "int g(int n) { int a[3]; int b[] = {1, 2}; int c[2][3] = {}; char s[] = \"ab\"; char t[5] = \"ab\"; const int d[2] = {1, 2}; static int e[4]; int *f[2] = {a, b}; int (*h)[3] = c; int v[n]; int w[n][2]; a[0] = 1; v[0] = 2; w[0][1] = 3; return a[0] + b[1] + c[1][2] + s[0] + t[4] + d[1] + e[3] + *f[1] + (*h)[0] + h[1][1] + v[0] + w[0][1] + (int)(sizeof(a) / sizeof(a[0])) + (int)sizeof(v); }\n",
    "bitfield_kinds": "enum E { A, B }; struct S { int a : 1; unsigned b : 31; bool c : 1; E e : 2; long long d : 40; unsigned : 0; char f : 7; int : 3; signed g : 2; static const int W = 4; int h : W; };\nint f(S s) { s.a = -1; s.b = 7u; s.c = true; s.e = B; s.d = 1LL << 35; s.f = 'a'; s.g = 1; s.h = 3; s.b++; s.b += 2; return s.a + s.b + s.c + s.e + (int)(s.d >> 35) + s.f + s.g + s.h; }\n",
    "union_kinds": "union U { int i; float f; char c[4]; struct { short lo, hi; } s; U() : i(0) {} U(float x) : f(x) {} int get() const { return i; } }; union V { int a; double b; }; struct T { int tag; union { int i; double d; }; };\nint f() { U u; U w(1.5f); V v = {1}; V v2 = {.b = 2.0}; T t = {0, {3}}; u.s.lo = 1; return u.get() + w.c[0] + v.a + (int)v2.b + t.i + (int)sizeof(U); }\n",
    "goto_into_scopes": "int f(int a) { int r = 0; if (a > 5) goto big; { r = 1; goto done; }\nbig:\n  r = 2; { int k = a; r += k; }\ndone:\n  for (int i = 0; i < 2; i++) { if (i == a) goto out; } r++;\nout:\n  return r; }\n",
}

KINDS_C = {
    "NullStmt": "void f(void) { ; }\n",
    "LabelStmt_GotoStmt": "int f(int a) {\nagain:\n  if (a++ < 3) goto again;\n  goto end;\nend:\n  return a; }\n",
    "IndirectGotoStmt": "int f(int a) { static void *t[] = {&&l0, &&l1}; goto *t[a & 1];\nl0:\n  return 0;\nl1:\n  return 1; }\n",
    "IfStmt_else_chain": "int f(int a) { if (a == 1) return 1; else if (a == 2) return 2; else return 3; }\n",
    "SwitchStmt_fallthrough_default_first": "int f(int a) { int r = 0; switch (a) { default: r = 9; case 0: r++; case 1: r += 2; break; case 2: { r = 5; } } return r; }\n",
    "SwitchStmt_duff": "void f(char *to, const char *from, int n) { int k = (n + 3) / 4; switch (n % 4) { case 0: do { *to++ = *from++; case 3: *to++ = *from++; case 2: *to++ = *from++; case 1: *to++ = *from++; } while (--k > 0); } }\n",
    "SwitchStmt_enum_char": "enum E { A, B, C };\nint f(enum E e, char c) { switch (e) { case A: return 1; case B: case C: break; } switch (c) { case 'a': return 2; case '\\n': return 3; } return 0; }\n",
    "WhileStmt_DoStmt_forms": "int f(int a) { while (a-- > 0); do a++; while (a < 3); while (1) { if (a++ > 5) break; } do { continue; } while (0); return a; }\n",
    "ForStmt_forms": "int f(int a) { int i; for (;;) { if (a++ > 3) break; } for (i = 0; i < 3; i++); for (int j = 0, k = 1; j < k; j++, k--) a += j; for (; a < 20;) a += 5; return a + i; }\n",
    "ReturnStmt_forms": "void v(int a) { if (a) return; } int *p(int *q) { return q; } struct S { int m; }; struct S s(void) { return (struct S){1}; } double d(int a) { return a; } _Bool b(int a) { return a; }\n",
    "DeclStmt_multi_mixed": "int f(void) { int a = 1, *p = &a, b[2] = {1, 2}, (*fp)(void) = f; struct L { int m; } l = {1}, *lp = &l; enum { X = 2 } e = X; typedef int I; I i = 3; a++; int late = a; return *p + b[1] + (fp != 0) + lp->m + e + i + late; }\n",
    "literals_all": "double f(void) { return 1 + 2u + 3l + 4ul + 5ll + 6ull + 0x7 + 010 + 1.0 + 2.f + 3.L + 4e2 + 0x1p3 + .5 + 'a' + L'b' + '\\n' + '\\x41' + '\\0' + \"s\"[0] + L\"w\"[0] + u8\"u\"[0] + u\"x\"[0] + U\"y\"[0]; }\n",
    "ImaginaryLiteral_complex": "double f(void) { _Complex double z = 1.0 + 2.0i; _Complex float w = 1.0f; z = z * w + z / z - z; return __real__ z + __imag__ z + (z == w); }\n",
    "PredefinedExpr": "const char *f(void) { return __func__; } const char *g(void) { return __FUNCTION__; }\n",
    "UnaryOperator_all": "int f(int a, int *p) { int b = +a; b = -b; b = !b; b = ~b; b = *p; p = &b; ++b; --b; b++; b--; return __extension__ b; }\n",
    "BinaryOperator_all": "int f(int a, int b, int *p, int *q) { return a + b - a * b / (b | 1) % (a | 1) + ((a & b) | (a ^ b)) + (a << 1 >> 1) + (a < b) + (a > b) + (a <= b) + (a >= b) + (a == b) + (a != b) + (a && b) + (a || b) + (int)(p - q) + (p < q) + *(p + 1) + (a, b); }\n",
    "CompoundAssignOperator_all": "int f(int a, int b, double d, int *p) { a += b; a -= b; a *= b; a /= (b | 1); a %= (b | 1); a &= b; a |= b; a ^= b; a <<= 1; a >>= 1; d += a; d *= 2; p += 1; p -= 1; return a + (int)d + *p; }\n",
    "ConditionalOperator_forms": "int f(int a, int b, int *p) { return (a ? b : a) + (a ? (b++, b) : (a--, a)) + (a ?: b) + *(a ? p : &b) + (a ? b ? 1 : 2 : 3) + (int)(a ? 1.5 : 2); }\n",
    "ArraySubscriptExpr_forms": "int f(int *p, int i) { int a[2][2] = {{1, 2}, {3, 4}}; return p[i] + i[p] + a[1][0] + \"ab\"[1] + (&a[0])[1][1]; }\n",
    "CallExpr_forms": "int g(int); int (*gp)(int) = g; int k(); int v(int, ...);\nint f(int a) { return g(a) + gp(a) + (*gp)(a) + (g)(a) + (&g)(a) + (****g)(a) + k(1, 2) + v(1, 2.0, \"s\") + __builtin_expect(a, 1) + __builtin_abs(a); }\n",
    "MemberExpr_forms": "struct I { int v; }; struct S { struct I i; struct I *p; int a[2]; };\nint f(struct S s, struct S *q) { return s.i.v + s.p->v + q->i.v + q->p->v + s.a[1] + q->a[0] + (*q).i.v + (&s)->a[0]; }\n",
    "CStyleCastExpr_ImplicitCast": "void t(double); int f(double d, void *v, long l, short s, float fl, int a[3]) { t(s); t(fl); double x = s; long y = fl; int *p = a; unsigned u = -1; char c = l; _Bool b = d; void *w = p; int *r = w; return (int)d + *(int *)v + (char)l + (int)(long)v + (int)x + (int)y + *p + u + c + b + *r; }\n",
    "CompoundLiteralExpr_forms": "struct S { int a; int b; }; int g(struct S s); int h(const int *p);\nint f(void) { int *p = (int[]){1, 2, 3}; struct S *q = &(struct S){.b = 2}; return g((struct S){1, 2}) + h((int[]){5, 6}) + p[2] + q->b + (int){7} + (const char[]){\"ab\"}[0]; }\n",
    "InitListExpr_DesignatedInitExpr": "struct I { int a; int b; }; struct S { struct I i; int v[4]; const char *s; union { int u; float f; }; };\nstruct S g1 = {{1, 2}, {3, 4}, \"x\", {5}}; struct S g2 = {.s = \"y\", .i.b = 2, .v = {[1] = 1, [3] = 3}, .f = 1.0f}; struct I arr[] = {[2] = {1, 2}, [0].b = 3}; int m[2][3] = {{1}, [1][2] = 4}; int r[] = {[0 ... 2] = 7, [5] = 1};\nint f(void) { struct S l = {0}; struct I i = {.b = g1.i.a}; return g2.v[3] + arr[2].a + m[1][2] + r[1] + l.v[0] + i.b; }\n",
    "VAArgExpr": "int f(int n, ...) { __builtin_va_list ap, aq; __builtin_va_start(ap, n); __builtin_va_copy(aq, ap); int a = __builtin_va_arg(ap, int); double d = __builtin_va_arg(aq, double); char *s = __builtin_va_arg(ap, char *); __builtin_va_end(ap); __builtin_va_end(aq); return a + (int)d + (s != 0); }\n",
    "StmtExpr_nested": "int f(int a) { return ({ int b = ({ a + 1; }); if (b > 2) b = 2; b; }); }\n",
    "UnaryExprOrTypeTraitExpr": "struct S { char c; long l; };\nunsigned long f(int a, int v[5]) { int w[a + 1]; return sizeof a + sizeof(a) + sizeof(struct S) + sizeof(int[3]) + sizeof v + sizeof w + _Alignof(struct S) + __alignof__(a) + sizeof(((struct S *)0)->l) + sizeof \"abc\" + sizeof(int[a]); }\n",
    "OffsetOfExpr": "struct I { int x; int y[3]; }; struct S { char c; struct I i; };\nunsigned long f(int k) { return __builtin_offsetof(struct S, i) + __builtin_offsetof(struct S, i.y[2]) + __builtin_offsetof(struct S, i.y[k]); }\n",
    "GenericSelectionExpr": "int fi(int); int fd(double);\nint f(int a, double d, char *s) { return _Generic(a, int: 1, double: 2, default: 3) + _Generic(d, int: fi, double: fd)(d) + _Generic(s, char *: 4, const char *: 5) + _Generic((a), default: a); }\n",
    "ChooseExpr_builtins": "int f(int a) { return __builtin_choose_expr(sizeof(int) == 4, a + 1, a - 1) + __builtin_types_compatible_p(int, int) + __builtin_constant_p(a) + __builtin_popcount(a) + (int)__builtin_strlen(\"abc\"); }\n",
    "AddrLabelExpr": "void *f(void) {\nl:\n  return &&l; }\n",
    "AtomicExpr": "int f(int *p, _Atomic(int) *q, _Atomic int r) { int a = __atomic_load_n(p, 5); __atomic_store_n(p, a + 1, 5); a += __atomic_fetch_add(p, 1, 5); a += __c11_atomic_load(q, 5); __c11_atomic_store(q, a, 5); r++; r += 2; *q = r; return a + __sync_fetch_and_add(p, 1) + r; }\n",
    "vector_extensions": "typedef int v4 __attribute__((vector_size(16))); typedef float f4 __attribute__((ext_vector_type(4)));\nint f(v4 a, v4 b, f4 c) { v4 s = a + b; v4 t = __builtin_shufflevector(a, b, 0, 1, 4, 5); f4 d = c.xyzw + c.wzyx; v4 e = __builtin_convertvector(c, v4); v4 lit = (v4){1, 2, 3, 4}; return s[0] + t[1] + (int)d.x + e[2] + lit[3]; }\n",
    "typeof_auto_type": "int f(int a) { typeof(a) b = a; __typeof__(a + 1.0) d = 2.5; __auto_type c = b + 1; typeof(int *) p = &b; return b + c + (int)d + *p; }\n",
    "VarDecl_storage": "static int a; extern int b; int b = 1; int tent; int tent; _Thread_local int c; static _Thread_local int d; const int g = 3; volatile int j; _Alignas(16) int al; _Atomic int at; register int *rp __asm__(\"rsp\");\nint f(void) { static int s; static const int t = 1; register int r = 2; auto int au = 3; extern int b; return a + b + tent + c + d + g + j + al + at + s + t + r + au; }\n",
    "FunctionDecl_kinds": "inline int a(void) { return 1; } static int b(void) { return 2; } extern int c(void); _Noreturn void die(void); int kr(); int kr2(a, b) int a; char b; { return a + b; } int pr(const char *, ...); static inline int si(void) { return 3; } int (*rfp(int x))(void) { return x ? a : b; } int arrp(int n, int v[n], int w[static 3], int m[const 2], int z[restrict]); void vp(void);\nint f(void) { return a() + b() + kr(1, 2) + kr2(1, 'c') + si() + rfp(1)(); }\n",
    "RecordDecl_kinds": "struct A { int a; }; union U { int i; char c; }; struct E; struct E { struct E *n; }; struct N { struct In { int v; } in; union { int u1; char u2; }; struct { int an; }; enum { K = 3 } k; int bf : 3; unsigned : 0; int fl[]; }; typedef struct { int m; } T; struct P { char c; int i; } __attribute__((packed)); struct Al { char c; } __attribute__((aligned(8)));\nint f(struct N *n, T t) { struct In i = {1}; struct A a = {2}; union U u = {.c = 'c'}; struct E e = {0}; n->u1 = 1; n->an = 2; n->bf = 3; return i.v + a.a + u.i + (e.n == 0) + n->u2 + n->an + n->k + K + t.m + n->fl[0] + (int)sizeof(struct P) + (int)sizeof(struct Al); }\n",
    "EnumDecl_kinds": "enum A { A0, A1 = 5, A2 }; enum { ANON = 9 }; typedef enum { T0, T1 } TE; enum Neg { N0 = -1, N1 = 1u << 31 }; enum Big { B0 = 1ull << 40 };\nint f(enum A a) { TE t = T1; enum A b = A1; int i = a; return a + b + ANON + t + N0 + (B0 != 0) + i + (a < A2) + sizeof(enum Big); }\n",
    "TypedefDecl_kinds": "typedef int I; typedef I *IP; typedef int A3[3]; typedef int (*FP)(int); typedef int (S0)(int); typedef struct N { struct N *n; } N; typedef const volatile unsigned long CVUL; typedef I I;\nint f(I a, IP p, A3 v, FP fp, N *n, CVUL c) { S0 *s = fp; typedef char L; L l = 1; return a + *p + v[0] + fp(1) + s(2) + (n->n != 0) + (int)c + l; }\n",
    "StaticAssertDecl": "_Static_assert(sizeof(int) >= 2, \"msg\"); struct S { int m; _Static_assert(sizeof(char) == 1, \"\"); };\nint f(void) { _Static_assert(1 + 1 == 2, \"\"); return 0; }\n",
    "EmptyDecl_FileScopeAsm": ";\n__asm__(\"nop\");\n;;\nint f(void) { return 0; };\n",
    "attributes_decl": "__attribute__((noreturn)) void die(void); __attribute__((deprecated(\"x\"))) int old(void); __attribute__((noinline)) int ni(void) { return 1; } __attribute__((always_inline)) inline int ai(void) { return 2; } __attribute__((format(printf, 1, 2))) int pf(const char *, ...); __attribute__((unused)) static int un; __attribute__((aligned(16))) int al; __attribute__((constructor)) static void ctor(void) {} __attribute__((weak)) int wk; __attribute__((visibility(\"hidden\"))) int hid; __attribute__((section(\"mysec\"))) int sec; __attribute__((pure)) int pu(int); __attribute__((const)) int co(int); __attribute__((malloc)) void *ma(unsigned long); __attribute__((nonnull(1))) int nn(int *p); __attribute__((warn_unused_result)) int wur(void); void cl(int *); enum __attribute__((packed)) PE { P0 }; typedef int ai4 __attribute__((aligned(4)));\nint f(int a) { __attribute__((unused)) int x = a; __attribute__((cleanup(cl))) int y = 1; if (a > 100) die(); switch (a) { case 1: a++; __attribute__((fallthrough)); case 2: a--; } return ni() + ai() + al + wk + hid + sec + pu(a) + co(a) + y; }\n",
    "pragma_pack_alignas": "_Alignas(8) char buf[16];\n#pragma pack(push, 1)\nstruct P { char c; int i; };\n#pragma pack(pop)\nint f(void) { struct P p = {1, 2}; _Alignas(32) int loc = 0; return (int)sizeof(p) + buf[0] + loc + p.i + (int)_Alignof(struct P); }\n",
    "pointer_kinds": "struct S { int m; }; int gf(int);\nint f(int a) { int *p = &a; int **pp = &p; const int *cp = p; int *const pc = p; const int *const cpc = p; void *v = p; const void *cv = cp; int (*fp)(int) = gf; int (**fpp)(int) = &fp; int (*afp[2])(int) = {gf, gf}; int (*pa)[2] = 0; char *s = v; int *n = 0; int *restrict rp = p; volatile int *vp = p; (void)pc; (void)cpc; (void)cv; (void)pa; (void)s; (void)n; (void)rp; return **pp + (*fpp)(1) + afp[1](2) + (p != 0) + (int)(p - p) + *(p + 0) + p[0] + *vp + !p; }\n",
    "array_kinds": "int g(int n) { int a[3]; int b[] = {1, 2}; int c[2][3] = {{0}}; char s[] = \"ab\"; char t[5] = \"ab\"; const int d[2] = {1, 2}; static int e[4]; int *f[2] = {a, b}; int (*h)[3] = c; int v[n]; int w[n][2]; int (*vp)[n] = &v; a[0] = 1; v[0] = 2; w[0][1] = 3; return a[0] + b[1] + c[1][2] + s[0] + t[4] + d[1] + e[3] + *f[1] + (*h)[0] + h[1][1] + v[0] + w[0][1] + (*vp)[0] + (int)(sizeof(a) / sizeof(a[0])) + (int)sizeof(v); }\n",
    "bitfield_union_kinds": "enum E { A, B }; struct S { int a : 1; unsigned b : 31; _Bool c : 1; enum E e : 2; long long d : 40; unsigned : 0; char f : 7; int : 3; signed g : 2; }; union U { int i; float f; char c[4]; struct { short lo, hi; } s; }; struct T { int tag; union { int i; double d; }; };\nint f(struct S s) { union U u = {.f = 1.5f}; struct T t = {0, {3}}; s.a = -1; s.b = 7u; s.c = 1; s.e = B; s.d = 1LL << 35; s.f = 'a'; s.g = 1; s.b++; s.b += 2; u.s.lo = 1; return s.a + s.b + s.c + s.e + (int)(s.d >> 35) + s.f + s.g + u.c[0] + t.i; }\n",
    "goto_into_scopes": "int f(int a) { int r = 0; if (a > 5) goto big; { r = 1; goto done; }\nbig:\n  r = 2; { int k = a; r += k; }\ndone:\n  for (int i = 0; i < 2; i++) { if (i == a) goto out; } r++;\nout:\n  return r; }\n",
    "implicit_int_and_decl": "static x; f2(a) { return a + x; }\nint f(void) { return undeclared(1) + f2(2); }\n",
    "string_kinds": "char g1[] = \"ab\" \"cd\"; const char *g2 = \"x\\ty\\0z\"; char g3[3] = \"abc\"; const char g4[][3] = {\"ab\", \"cd\"}; unsigned char g5[] = {'a', 0x80, '\\377'};\nint f(void) { const char *p = \"lit\"; char l[8] = {0}; return g1[3] + g2[4] + g3[2] + g4[1][0] + g5[1] + p[0] + l[7] + *\"z\" + \"abc\"[1] + (int)sizeof(\"four\"); }\n",
    "global_initialisers": "int g(void); int a = 1 + 2 * 3; int *pa = &a; int arr[] = {1, 2}; const char *names[] = {\"a\", \"b\"}; int (*fps[])(void) = {g, g}; struct S { int m; int *p; } s = {1, &a}, *ps = &s; int sz = sizeof(arr) / sizeof(arr[0]); double d = 1.5; long addr = (long)&a; char c = 'a' + 1; int neg = -1; unsigned un = ~0u;\nint f(void) { return a + *pa + arr[1] + names[1][0] + fps[0]() + ps->m + *s.p + sz + (int)d + (addr != 0) + c + neg + (int)un; }\n",
}
