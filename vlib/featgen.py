"""Small well-typed programs for the clang-import check (C35): expression functions and one-feature snippets.

expressions(n, lang)  all expressions with n operators (n = 1, 2) over a fixed leaf set; each becomes
                      `void eK(params) { (void)(EXPR); }`; ill-typed ones are rejected by clang and dropped.
SNIPPETS_CPP / SNIPPETS_C  one translation unit per language feature (statement kinds, declaration kinds, casts,
                      initialisers, GNU extensions): the alphabet of AST node kinds the import has to survive.
"""
import itertools

LEAVES = ["a", "u", "d", "p", "s.m", "ps->m", "1", "2.5", "'c'", "s.a[1]"]
LEAVES2 = ["a", "d", "p", "s.m"]
UNARY = ["-%s", "!%s", "~%s", "*%s", "&%s", "++%s", "%s++", "sizeof(%s)", "(double)%s", "(int)%s"]
BINARY = ["%s + %s", "%s - %s", "%s * %s", "%s / %s", "%s %% %s", "%s < %s", "%s <= %s", "%s == %s", "%s != %s",
          "%s && %s", "%s || %s", "%s & %s", "%s | %s", "%s ^ %s", "%s << %s", "%s >> %s", "%s = %s", "%s += %s",
          "%s , %s", "%s[%s]"]
BINARY2 = ["%s + %s", "%s %% %s", "%s < %s", "%s && %s", "%s = %s", "%s , %s", "%s[%s]", "%s << %s"]
PRELUDE = "struct S { int m; int a[3]; };\nint g(int);\n"
PARAMS = "int a, unsigned u, double d, int *p, struct S s, struct S *ps"


def expressions(n, full=False):
    if n == 1:
        for op in UNARY:
            for x in LEAVES:
                yield op % x
        for op in BINARY:
            for x in LEAVES:
                for y in LEAVES:
                    yield op % (x, y)
        for x in LEAVES:
            for y in LEAVES:
                yield "a ? %s : %s" % (x, y)
        for x in LEAVES:
            yield "g(%s)" % x
    elif n == 2:
        for o1 in UNARY:
            for o2 in UNARY:
                for x in LEAVES2:
                    yield o1 % ("(" + o2 % x + ")")
        for o1 in UNARY:
            for o2 in BINARY2:
                for x in LEAVES2:
                    for y in LEAVES2:
                        yield o1 % ("(" + o2 % (x, y) + ")")
        if full:
            for o1 in BINARY2:
                for o2 in BINARY2:
                    for x in LEAVES2:
                        for y in LEAVES2:
                            for z in LEAVES2:
                                yield o1 % ("(" + o2 % (x, y) + ")", z)
                                yield o1 % (z, "(" + o2 % (x, y) + ")")


def render_expressions(exprs, tag0=0):
    """-> (source, [(first_line, last_line, index)])  one function per expression, one line each"""
    lines = PRELUDE.rstrip("\n").split("\n")
    ranges = []
    for i, e in enumerate(exprs):
        lines.append("void e%d(%s) { (void)(%s); }" % (tag0 + i, PARAMS, e))
        ranges.append((len(lines), len(lines), i))
    return "\n".join(lines) + "\n", ranges


SNIPPETS_CPP = {
    "while": "int f(int a) { while (a > 0) { a--; } return a; }\n",
    "do_while": "int f(int a) { do { a--; } while (a > 0); return a; }\n",
    "switch": "int f(int a) { switch (a) { case 1: return 2; case 2: a++; break; default: a = 0; } return a; }\n",
    "goto": "int f(int a) { if (a) goto out; a = 1;\nout:\n  return a; }\n",
    "continue_break": "int f(int a) { for (int i = 0; i < 4; i++) { if (i == a) continue; if (i > a) break; a += i; } return a; }\n",
    "range_for": "int f() { int v[3] = {1, 2, 3}; int s = 0; for (int e : v) { s += e; } return s; }\n",
    "try_catch": "int g(int);\nint f(int a) { try { if (a) throw 1; return g(a); } catch (int e) { return e; } catch (...) { return 0; } }\n",
    "new_delete": "struct S { int m; };\nint f() { int *p = new int(3); int *q = new int[4]; S *s = new S; int r = *p + q[0] + s->m; delete p; delete[] q; delete s; return r; }\n",
    "casts": "struct B { virtual ~B() {} }; struct D : B { int m; };\nint f(B *b, const int *c, long l) { D *d = dynamic_cast<D*>(b); int *m = const_cast<int*>(c); char *r = reinterpret_cast<char*>(l); return static_cast<int>(l) + (d ? d->m : 0) + *m + (r ? 1 : 0) + int(l); }\n",
    "lambda": "int f(int a) { int b = 2; auto l = [a, &b](int c) -> int { b += c; return a + b; }; auto m = [=]() mutable { a++; return a; }; return l(1) + m(); }\n",
    "ctor_dtor": "struct S { int m; int n; S() : m(0), n(1) {} S(int a) : m(a), n(a) {} ~S() { m = 0; } int get() const { return m + n; } };\nint f() { S s; S t(3); S u = S(4); return s.get() + t.get() + u.get(); }\n",
    "inheritance": "struct B { virtual int v() { return 1; } int b; }; struct D : public B { int v() override { return 2 + b; } }; struct E final : D { int v() override { return D::v() + 1; } };\nint f(B &b) { E e; return b.v() + e.v(); }\n",
    "operators": "struct V { int x; V operator+(const V &o) const { V r; r.x = x + o.x; return r; } int operator[](int i) const { return x + i; } int operator()(int a, int b) { return a + b + x; } V &operator++() { ++x; return *this; } bool operator==(const V &o) const { return x == o.x; } operator int() const { return x; } };\nint f(V a, V b) { V c = a + b; ++c; int i = c; return c[1] + c(2, 3) + (a == b) + i; }\n",
    "template_function": "template<class T> T tmax(T a, T b) { return a < b ? b : a; }\nint f(int a) { return tmax(a, 3) + tmax<int>(1, 2) + (int)tmax(1.5, 2.5); }\n",
    "template_class": "template<class T, int N> struct A { T v[N]; T get(int i) const { return v[i]; } static int size() { return N; } };\nint f() { A<int, 3> a = {{1, 2, 3}}; A<A<int, 2>, 2> b = {}; return a.get(1) + A<char, 4>::size() + b.v[0].v[1]; }\n",
    "variadic_template": "template<class... Ts> int count(Ts... ts) { return sizeof...(ts); }\ntemplate<class T> T sum(T t) { return t; }\ntemplate<class T, class... R> T sum(T t, R... r) { return t + sum(r...); }\nint f() { return count(1, 2.0, 'c') + sum(1, 2, 3); }\n",
    "enum": "enum E { A, B = 3, C }; enum class F : char { X = 'x', Y };\nint f(E e, F g) { switch (e) { case A: return 0; case B: return 1; default: break; } return g == F::X ? C : (int)F::Y; }\n",
    "union": "union U { int i; float f; char c[4]; };\nint f() { U u; u.f = 1.0f; return u.i + u.c[0]; }\n",
    "typedef_using": "typedef unsigned long ul; using il = int; typedef int (*fp)(int); using arr = int[3];\nint g(int a) { return a; }\nint f(ul a) { il b = (il)a; fp p = g; arr x = {1, 2, 3}; return p(b) + x[0]; }\n",
    "namespaces": "namespace N { int v = 1; namespace M { int w = 2; int h() { return w; } } } namespace K = N::M; using namespace N; using N::M::h;\nint f() { return v + K::w + h() + N::M::w; }\n",
    "static_assert_constexpr": "constexpr int sq(int a) { return a * a; }\nstatic_assert(sq(3) == 9, \"sq\");\nint f() { constexpr int k = sq(4); int a[sq(2)] = {0}; return k + a[0]; }\n",
    "auto_decltype": "int g(int);\nauto h(int a) -> decltype(g(a)) { return g(a); }\nint f(int a) { auto b = a; decltype(b) c = b; auto &r = c; const auto *p = &b; r++; return *p + c + h(a); }\n",
    "references": "void sw(int &a, int &b) { int t = a; a = b; b = t; }\nint take(int &&r) { return r; }\nint f(int a) { int b = 2; sw(a, b); const int &c = a; int &&d = 3; return c + d + take(static_cast<int&&>(b)); }\n",
    "default_args": "int g(int a, int b = 2, int c = 3) { return a + b + c; }\nint f() { return g(1) + g(1, 1) + g(1, 1, 1); }\n",
    "init_lists": "struct S { int a; int b; }; struct T { S s; int v[2]; };\nint f() { int a[3] = {1, 2, 3}; S s = {1, 2}; S t{3, 4}; T u = {{5, 6}, {7, 8}}; int z{}; int m[2][2] = {{1, 2}, {3, 4}}; return a[0] + s.a + t.b + u.v[1] + z + m[1][0]; }\n",
    "literals": "int f() { bool t = true, n = false; char c = 'x'; wchar_t w = L'y'; const char *s = \"ab\" \"cd\"; const wchar_t *ws = L\"w\"; float fl = 1.5f; double d = 2.5e3; long l = 10L; unsigned long long ull = 1ULL << 40; int h = 0x1f + 017 + 0b101; int *p = nullptr; return t + n + c + w + s[0] + ws[0] + (int)fl + (int)d + (int)l + (int)ull + h + (p ? 1 : 0); }\n",
    "sizeof_alignof": "struct S { char c; double d; };\nint f(int a) { return sizeof(S) + sizeof a + alignof(S) + sizeof(int[3]) + (int)sizeof(S::d); }\n",
    "ternary_comma": "int f(int a, int b) { int c = a ? b : (a, b + 1); int d = (a++, b++, a + b); return a > b ? c : d; }\n",
    "bitfield": "struct S { unsigned a : 3; int b : 5; unsigned : 0; unsigned c : 1; };\nint f() { S s; s.a = 7; s.b = -3; s.c = 1; return s.a + s.b + s.c; }\n",
    "function_pointers": "struct S { int m; int get(int a) { return m + a; } };\nint g(int a) { return a; }\nint f() { int (*p)(int) = &g; int (S::*mp)(int) = &S::get; int S::*dp = &S::m; S s; s.*dp = 2; return p(1) + (*p)(2) + (s.*mp)(3); }\n",
    "varargs": "int sum(int n, ...) { __builtin_va_list ap; __builtin_va_start(ap, n); int s = 0; for (int i = 0; i < n; i++) s += __builtin_va_arg(ap, int); __builtin_va_end(ap); return s; }\nint f() { return sum(2, 1, 2); }\n",
    "this_static": "struct S { int m; static int cnt; static int count() { return cnt; } int get() { return this->m + count(); } S *self() { return this; } };\nint S::cnt = 0;\nint f() { S s; s.m = 1; return s.self()->get() + S::count(); }\n",
    "friend_nested": "class O { int priv; friend int peek(const O &); public: struct I { int v; }; I i; O() : priv(1) {} };\nint peek(const O &o) { return o.priv; }\nint f() { O o; O::I k; k.v = 2; return peek(o) + k.v + o.i.v; }\n",
    "anonymous": "struct S { union { int i; float f; }; struct { int a; int b; } in; };\nint f() { S s; s.i = 1; s.in.a = 2; return s.i + s.in.a; }\n",
    "arrays_pointers": "int f(int *p, int n) { int a[2][3] = {{1, 2, 3}, {4, 5, 6}}; int *q = &a[1][0]; int (*r)[3] = a; const char *s = \"abc\"; return *(p + n) + q[1] + (*r)[2] + r[1][1] + *s + (int)(q - &a[0][0]); }\n",
    "if_decl": "int g(int);\nint f(int a) { if (int b = g(a)) { return b; } else { return b + 1; } }\n",
    "noexcept": "void g() noexcept; void h() throw(); int k() noexcept(true) { return 1; }\nint f() { g(); h(); return k() + noexcept(g()); }\n",
    "extern_c": "extern \"C\" { int cf(int); } extern \"C\" int cg(int a) { return a; }\nint f() { return cf(1) + cg(2); }\n",
    "inline_namespace": "namespace N { inline namespace v1 { int h() { return 1; } } }\nint f() { return N::h() + N::v1::h(); }\n",
    "attributes": "[[noreturn]] void die(); __attribute__((unused)) static int u; [[deprecated]] int old();\nint f(int a) { if (a) die(); return a; }\n",
    "statement_expr": "int f(int a) { int b = ({ int y = a + 1; y * 2; }); return b; }\n",
    "offsetof": "struct S { int a; double b; };\nint f() { return (int)__builtin_offsetof(S, b); }\n",
    "compound_literal": "struct S { int a; int b; };\nint g(struct S s) { return s.a; }\nint f() { return g((struct S){1, 2}); }\n",
    "label_address": "int f(int a) { void *t = &&l1; if (a) goto *t; a = 2;\nl1:\n  return a; }\n",
    "asm": "int f(int a) { __asm__(\"nop\"); __asm__ volatile(\"\" : \"=r\"(a) : \"0\"(a)); return a; }\n",
    "case_range": "int f(int a) { switch (a) { case 1 ... 3: return 1; default: return 0; } }\n",
    "char_array_init": "int f() { char a[] = \"abc\"; char b[4] = {'a', 'b', 0}; const char *c[] = {\"x\", \"yz\"}; return a[0] + b[1] + c[1][0]; }\n",
    "global_ctor": "struct S { int m; S(int a) : m(a) {} }; S g1(1); S g2 = S(2); static S g3{3}; int garr[3] = {1, 2, 3};\nint f() { return g1.m + g2.m + g3.m + garr[2]; }\n",
    "conversion_explicit": "struct S { explicit S(int a) : m(a) {} explicit operator bool() const { return m != 0; } int m; };\nint f() { S s(1); if (s) return 1; return static_cast<bool>(s); }\n",
    "default_delete": "struct S { S() = default; S(const S &) = delete; S &operator=(const S &) = delete; ~S() = default; int m = 3; };\nint f() { S s; return s.m; }\n",
    "user_literal": "constexpr long long operator\"\" _k(unsigned long long v) { return v * 1000; }\nint f() { return (int)(2_k); }\n",
    "trailing_decltype_auto": "auto g(int a) -> int { return a; } decltype(auto) h(int a) { return a; } auto k() { return 1; }\nint f() { return g(1) + h(2) + k(); }\n",
    "alignas_thread_local": "alignas(16) int al; thread_local int tl = 1; struct alignas(8) S { char c; };\nint f() { static thread_local int x = 2; return al + tl + x + alignof(S); }\n",
    "member_init": "struct S { int a = 1; int b{2}; int c[2] = {3, 4}; const char *s = \"x\"; };\nint f() { S s; return s.a + s.b + s.c[1] + s.s[0]; }\n",
    "static_local": "int f() { static int n = 0; static const int k = 3; n += k; return n; }\n",
    "pointer_to_struct": "struct L { int v; L *next; };\nint f(L *l) { int s = 0; for (L *p = l; p; p = p->next) s += p->v; while (l && l->next) l = l->next; return s + (l ? l->v : 0); }\n",
    "logical_ops": "int f(int a, int b, int *p) { return (a && b) || (!a && p && *p) || (a & b) | (a ^ b) | (~a) | (a << 2) | (b >> 1) | (a % (b ? b : 1)); }\n",
    "compound_assign": "int f(int a, int b) { a += b; a -= 1; a *= 2; a /= 3; a %= 5; a <<= 1; a >>= 1; a &= 7; a |= 8; a ^= b; return a; }\n",
    "string_member": "struct S { char name[8]; };\nint f() { S s = {\"abc\"}; S t; t = s; return t.name[1]; }\n",
    "void_pointer": "int f(void *v, int n) { char *c = (char *)v; int *i = static_cast<int *>(v); return c[n] + i[0]; }\n",
    "nested_calls": "int g(int a, int b) { return a + b; } int h(int a) { return a * 2; }\nint f(int a) { return g(h(a), g(h(1), h(g(2, 3)))); }\n",
    "recursion": "int fact(int n) { return n <= 1 ? 1 : n * fact(n - 1); }\nint f() { return fact(5); }\n",
    "bool_conditions": "int f(int a, double d, int *p) { if (p) a++; if (!p) a--; if (d) a++; while (a) { a = 0; } for (; p && a < 3; a++) {} return a; }\n",
    "struct_return": "struct S { int a; int b; };\nS mk(int a) { S s = {a, a + 1}; return s; }\nint f() { return mk(1).b + mk(2).a; }\n",
    "const_volatile": "int f(const int a, volatile int b, const volatile int *p) { const int c = a + b; volatile int d = c; return d + *p; }\n",
    "empty_bodies": "struct E {}; void n() {} void m() { ; ; {} }\nint f() { E e; (void)e; n(); m(); return 0; }\n",
    "negative_array": "int f(int a) { int v[4] = {0}; v[a] = 1; v[3] = v[a] + v[0]; int *p = v + 2; p[-1] = 2; return v[1]; }\n",
}

SNIPPETS_C = {
    "while": "int f(int a) { while (a > 0) { a--; } return a; }\n",
    "do_while": "int f(int a) { do { a--; } while (a > 0); return a; }\n",
    "switch": "int f(int a) { switch (a) { case 1: return 2; case 2: a++; break; default: a = 0; } return a; }\n",
    "goto": "int f(int a) { if (a) goto out; a = 1;\nout:\n  return a; }\n",
    "continue_break": "int f(int a) { for (int i = 0; i < 4; i++) { if (i == a) continue; if (i > a) break; a += i; } return a; }\n",
    "enum_union": "enum E { A, B = 3, C }; union U { int i; float f; };\nint f(enum E e) { union U u; u.f = 1.0f; return e == A ? u.i : C; }\n",
    "typedef": "typedef unsigned long ul; typedef int (*fp)(int); typedef struct { int a; } T;\nint g(int a) { return a; }\nint f(ul a) { fp p = g; T t; t.a = (int)a; return p(t.a); }\n",
    "designated_init": "struct S { int a; int b; int v[3]; };\nint f(void) { struct S s = {.b = 2, .a = 1, .v = {[1] = 5}}; int a[5] = {[2] = 3, [4] = 1}; return s.a + s.v[1] + a[2]; }\n",
    "compound_literal": "struct S { int a; int b; };\nint g(struct S s) { return s.a; }\nint f(void) { int *p = (int[]){1, 2, 3}; return g((struct S){1, 2}) + p[1]; }\n",
    "generic": "int f(int a) { return _Generic(a, int: 1, double: 2, default: 3); }\n",
    "bool_complex_restrict": "int f(int *restrict p, _Bool b) { double _Complex z = 1.0; return *p + b + (int)__real__ z; }\n",
    "vla": "int f(int n) { int v[n]; v[0] = 1; return v[0] + (int)sizeof(v); }\n",
    "flexible_array": "struct S { int n; int v[]; };\nint f(struct S *s) { return s->n ? s->v[0] : 0; }\n",
    "varargs": "int sum(int n, ...) { __builtin_va_list ap; __builtin_va_start(ap, n); int s = 0; for (int i = 0; i < n; i++) s += __builtin_va_arg(ap, int); __builtin_va_end(ap); return s; }\nint f(void) { return sum(2, 1, 2); }\n",
    "statement_expr": "int f(int a) { int b = ({ int y = a + 1; y * 2; }); return b; }\n",
    "label_address": "int f(int a) { void *t = &&l1; if (a) goto *t; a = 2;\nl1:\n  return a; }\n",
    "asm": "int f(int a) { __asm__(\"nop\"); return a; }\n",
    "case_range": "int f(int a) { switch (a) { case 1 ... 3: return 1; default: return 0; } }\n",
    "char_array_init": "int f(void) { char a[] = \"abc\"; char b[4] = {'a', 'b', 0}; const char *c[] = {\"x\", \"yz\"}; return a[0] + b[1] + c[1][0]; }\n",
    "bitfield": "struct S { unsigned a : 3; int b : 5; unsigned c : 1; };\nint f(void) { struct S s; s.a = 7; s.b = -3; s.c = 1; return s.a + s.b + s.c; }\n",
    "function_pointers": "int g(int a) { return a; }\nint f(void) { int (*p)(int) = &g; int (*t[2])(int) = {g, g}; return p(1) + (*p)(2) + t[1](3); }\n",
    "arrays_pointers": "int f(int *p, int n) { int a[2][3] = {{1, 2, 3}, {4, 5, 6}}; int *q = &a[1][0]; int (*r)[3] = a; const char *s = \"abc\"; return *(p + n) + q[1] + (*r)[2] + r[1][1] + *s + (int)(q - &a[0][0]); }\n",
    "literals": "int f(void) { char c = 'x'; const char *s = \"ab\" \"cd\"; float fl = 1.5f; double d = 2.5e3; long l = 10L; unsigned long long ull = 1ULL << 40; int h = 0x1f + 017; return c + s[0] + (int)fl + (int)d + (int)l + (int)ull + h; }\n",
    "sizeof_alignof": "struct S { char c; double d; };\nint f(int a) { return sizeof(struct S) + sizeof a + _Alignof(struct S) + sizeof(int[3]); }\n",
    "offsetof": "struct S { int a; double b; };\nint f(void) { return (int)__builtin_offsetof(struct S, b); }\n",
    "static_assert": "_Static_assert(sizeof(int) >= 2, \"int\");\nint f(void) { return 0; }\n",
    "anonymous": "struct S { union { int i; float f; }; struct { int a; int b; } in; };\nint f(void) { struct S s; s.i = 1; s.in.a = 2; return s.i + s.in.a; }\n",
    "static_extern": "static int n; extern int e; int e = 2;\nstatic int h(void) { static int k = 0; return ++k; }\nint f(void) { n += h(); return n + e; }\n",
    "pointer_to_struct": "struct L { int v; struct L *next; };\nint f(struct L *l) { int s = 0; for (struct L *p = l; p; p = p->next) s += p->v; return s; }\n",
    "compound_assign": "int f(int a, int b) { a += b; a -= 1; a *= 2; a /= 3; a %= 5; a <<= 1; a >>= 1; a &= 7; a |= 8; a ^= b; return a; }\n",
    "ternary_comma": "int f(int a, int b) { int c = a ? b : (a, b + 1); int d = (a++, b++, a + b); return a > b ? c : d; }\n",
    "old_style": "int g();\nint f(a, b) int a; int b; { return g(a) + b; }\n",
    "struct_return": "struct S { int a; int b; };\nstruct S mk(int a) { struct S s = {a, a + 1}; return s; }\nint f(void) { return mk(1).b + mk(2).a; }\n",
    "const_volatile": "int f(const int a, volatile int b, const volatile int *p) { const int c = a + b; volatile int d = c; return d + *p; }\n",
    "void_pointer": "int f(void *v, int n) { char *c = (char *)v; int *i = v; return c[n] + i[0]; }\n",
}
