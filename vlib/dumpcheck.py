"""Independent checker for cppcheck --dump files (properties C14 and C35).

`load(path)` parses a dump with xml.etree only (no code shared with addons/cppcheckdata.py) into plain dicts.
`check_cfg(cfg)` evaluates the invariants the property statement names on one <dump> (configuration):

  ids          every id is unique inside the configuration
  references   every id-valued attribute resolves to an element of the expected kind in the same configuration
               (the null id "0" is the producer's spelling of "no reference" and is not a reference)
  links        token `link` is an involution without fixed points, pairs ( ) [ ] { } < > and the linked pairs are
               properly nested in token order
  ast          x.astOperandK = y  <=>  y.astParent = x, operand1 != operand2, no cycles (=> forest, <= 1 parent)
  varid        a token that references a non-member variable V carries the varId of V's name token (the two
               spellings of the same link agree; member accesses get per-object varIds by design and are skipped)

`compare_cppcheckdata(path, dump)` loads the same file with the shipped addons/cppcheckdata.py and compares the object
graph it builds (token order, links, AST edges, scopes incl. nesting and variable lists, functions, arguments,
variables, value lists) with the independently parsed one.  Attributes cppcheckdata.py deliberately does not model
(<types>, valueType-containerId, template simplifier output) are not compared.

Every problem is returned as (class_key, message); class keys are stable ("dangling:token.astParent",
"link:not-nested", "cppcheckdata:load:KeyError", ...) so that known defects can be listed without hiding others.
"""
import importlib, os, sys
import xml.etree.ElementTree as ET

NULL = (None, "0")

# attribute -> expected kind of the referenced element
TOKEN_REFS = {"link": "token", "scope": "scope", "variable": "variable", "function": "function", "values": "values",
              "type-scope": "scope", "astParent": "token", "astOperand1": "token", "astOperand2": "token",
              "valueType-typeScope": "scope", "valueType-containerId": "container"}
SCOPE_REFS = {"bodyStart": "token", "bodyEnd": "token", "nestedIn": "scope", "function": "function",
              "definedType": "type"}
FUNCTION_REFS = {"token": "token", "tokenDef": "token", "overriddenFunction": "function"}
VARIABLE_REFS = {"nameToken": "token", "typeStartToken": "token", "typeEndToken": "token", "scope": "scope"}
VALUE_REFS = {"tokvalue": "token", "lifetime": "token", "symbolic": "token"}
NONMEMBER = ("Global", "Local", "Namespace", "Argument")
OPEN = {"(": ")", "[": "]", "{": "}", "<": ">"}


class Cfg:
    def __init__(self, name):
        self.name = name
        self.tokens = []        # attribute dicts in document order
        self.scopes = []        # dicts + "_functions": [function dicts], "_varlist": [ids]
        self.functions = []     # dicts + "_args": {nr: id}, "_scope": scope id
        self.variables = []
        self.types = []         # dicts + "_derived": [dicts]
        self.values = []        # (id, [value attribute dicts])
        self.containers = []
        self.duplicate_ids = []
        self.kind = {}          # id -> kind
        self.tokidx = {}        # token id -> index

    def _reg(self, i, kind):
        if i in self.kind:
            self.duplicate_ids.append((i, self.kind[i], kind))
        else:
            self.kind[i] = kind


class Dump:
    def __init__(self):
        self.cfgs = []
        self.language = None
        self.nrawtokens = 0


def load(path):
    """Parse a dump file.  Raises ET.ParseError if the file is not well-formed XML."""
    root = ET.parse(path).getroot()
    d = Dump()
    if root.tag != "dumps":
        raise ET.ParseError("root element is <%s>, expected <dumps>" % root.tag)
    d.language = root.get("language")
    rt = root.find("rawtokens")
    d.nrawtokens = len(rt.findall("tok")) if rt is not None else 0
    for de in root.findall("dump"):
        c = Cfg(de.get("cfg"))
        tl = de.find("tokenlist")
        if tl is not None:
            for i, t in enumerate(tl.findall("token")):
                a = t.attrib
                c.tokens.append(a)
                c._reg(a.get("id"), "token")
                c.tokidx.setdefault(a.get("id"), i)
        sc = de.find("scopes")
        if sc is not None:
            for s in sc.findall("scope"):
                a = dict(s.attrib)
                a["_functions"] = []
                a["_varlist"] = []
                c._reg(a.get("id"), "scope")
                fl = s.find("functionList")
                if fl is not None:
                    for f in fl.findall("function"):
                        fa = dict(f.attrib)
                        fa["_args"] = {}
                        fa["_arglist"] = []
                        for arg in f.findall("arg"):
                            fa["_args"][int(arg.get("nr"))] = arg.get("variable")
                            fa["_arglist"].append(arg.get("variable"))
                        fa["_scope"] = a.get("id")
                        c._reg(fa.get("id"), "function")
                        a["_functions"].append(fa)
                        c.functions.append(fa)
                vl = s.find("varlist")
                if vl is not None:
                    a["_varlist"] = [v.get("id") for v in vl.findall("var")]
                c.scopes.append(a)
        ty = de.find("types")
        if ty is not None:
            for t in ty.findall("type"):
                a = dict(t.attrib)
                a["_derived"] = [dict(x.attrib) for x in t.findall("derivedFrom")]
                c._reg(a.get("id"), "type")
                c.types.append(a)
        va = de.find("variables")
        if va is not None:
            for v in va.findall("var"):
                c._reg(v.get("id"), "variable")
                c.variables.append(v.attrib)
        co = de.find("containers")
        if co is not None:
            for x in co.findall("container"):
                c._reg(x.get("id"), "container")
                c.containers.append(x.attrib)
        vf = de.find("valueflow")
        if vf is not None:
            for vs in vf.findall("values"):
                c._reg(vs.get("id"), "values")
                c.values.append((vs.get("id"), [v.attrib for v in vs.findall("value")]))
        d.cfgs.append(c)
    return d


def check_cfg(c, stats=None):
    """-> list of (class_key, message).  stats (dict) receives the number of invariant instances evaluated."""
    out = []
    st = stats if stats is not None else {}

    def inc(k, n=1):
        st[k] = st.get(k, 0) + n

    def bad(key, msg):
        out.append((key, msg))

    for i, k1, k2 in c.duplicate_ids:
        bad("duplicate-id:%s/%s" % (k1, k2), "id %s used by a %s and a %s element" % (i, k1, k2))
    inc("ids", len(c.kind))

    def ref(elem_kind, a, attr, want, where):
        v = a.get(attr)
        if v in NULL:
            return None
        inc("references")
        got = c.kind.get(v)
        if got is None:
            bad("dangling:%s.%s" % (elem_kind, attr), "%s: %s=%s resolves to nothing in this <dump>" % (where, attr, v))
        elif got != want:
            bad("wrong-kind:%s.%s" % (elem_kind, attr), "%s: %s=%s resolves to a <%s>, expected <%s>" % (
                where, attr, v, got, want))
        else:
            return v
        return None

    def twhere(a):
        return "token '%s' %s:%s:%s" % (a.get("str"), a.get("file"), a.get("linenr"), a.get("column"))

    toks = c.tokens
    for a in toks:
        for attr, want in TOKEN_REFS.items():
            if attr in a:
                ref("token", a, attr, want, twhere(a))
    for s in c.scopes:
        w = "scope %s '%s'" % (s.get("type"), s.get("className", ""))
        for attr, want in SCOPE_REFS.items():
            if attr in s:
                ref("scope", s, attr, want, w)
        for vid in s["_varlist"]:
            ref("scope", {"varlist": vid}, "varlist", "variable", w)
        for f in s["_functions"]:
            fw = "function '%s' in %s" % (f.get("name"), w)
            for attr, want in FUNCTION_REFS.items():
                if attr in f:
                    ref("function", f, attr, want, fw)
            for nr, vid in f["_args"].items():
                ref("function", {"arg": vid}, "arg", "variable", fw + " arg %d" % nr)
    for t in c.types:
        ref("type", t, "classScope", "scope", "type %s" % t.get("id"))
        for dv in t["_derived"]:
            ref("type", {"derivedFrom.type": dv.get("type")}, "derivedFrom.type", "type", "type %s" % t.get("id"))
            ref("type", {"derivedFrom.nameTok": dv.get("nameTok")}, "derivedFrom.nameTok", "token",
                "type %s" % t.get("id"))
    for v in c.variables:
        for attr, want in VARIABLE_REFS.items():
            if attr in v:
                ref("variable", v, attr, want, "variable %s" % v.get("id"))
    for vid, vals in c.values:
        for v in vals:
            for attr, want in VALUE_REFS.items():
                if attr in v:
                    ref("value", v, attr, want, "values %s" % vid)

    # ---- bracket links --------------------------------------------------------------------------------
    idx = c.tokidx
    stack = []
    for i, a in enumerate(toks):
        l = a.get("link")
        if l in NULL:
            continue
        j = idx.get(l) if c.kind.get(l) == "token" else None
        if j is None:
            continue                              # dangling: reported above
        inc("links")
        b = toks[j]
        if j == i:
            bad("link:self", "%s links to itself" % twhere(a))
            continue
        if b.get("link") != a.get("id"):
            bad("link:asymmetric", "%s links to %s whose link is %s" % (twhere(a), twhere(b), b.get("link")))
            continue
        if j > i:
            if OPEN.get(a.get("str")) != b.get("str"):
                bad("link:pair:%s%s" % (a.get("str"), b.get("str")), "%s is linked with %s" % (twhere(a), twhere(b)))
            stack.append(i)
        else:
            if not stack or stack[-1] != j:
                bad("link:not-nested", "%s closes %s but the innermost open bracket is %s" % (
                    twhere(a), twhere(b), twhere(toks[stack[-1]]) if stack else "none"))
                if j in stack:
                    del stack[stack.index(j):]
            else:
                stack.pop()
    # (an opener whose partner never closes it is impossible once symmetry holds)

    # ---- AST ------------------------------------------------------------------------------------------
    def tid(a, attr):
        v = a.get(attr)
        if v in NULL or c.kind.get(v) != "token":
            return None
        return v

    for a in toks:
        me = a.get("id")
        o1, o2 = tid(a, "astOperand1"), tid(a, "astOperand2")
        for k, o in (("1", o1), ("2", o2)):
            if o is None:
                continue
            inc("ast_edges")
            child = toks[idx[o]]
            if child.get("astParent") != me:
                bad("ast:operand-without-parent", "%s has astOperand%s %s whose astParent is %s" % (
                    twhere(a), k, twhere(child), child.get("astParent")))
        if o1 is not None and o1 == o2:
            bad("ast:same-operand-twice", "%s has the same token as both operands" % twhere(a))
        p = tid(a, "astParent")
        if p is not None:
            inc("ast_edges")
            pa = toks[idx[p]]
            if pa.get("astOperand1") != me and pa.get("astOperand2") != me:
                bad("ast:parent-without-operand", "%s has astParent %s which does not list it as operand" % (
                    twhere(a), twhere(pa)))
    state = {}
    for a in toks:
        me = a.get("id")
        if me in state:
            continue
        path = []
        cur = me
        while cur is not None and cur not in state:
            state[cur] = 1
            path.append(cur)
            cur = tid(toks[idx[cur]], "astParent")
        if cur is not None and state.get(cur) == 1:
            bad("ast:cycle", "astParent chain from %s runs into a cycle" % twhere(a))
        for x in path:
            state[x] = 2
    inc("ast_tokens", len(toks))

    # ---- varId <-> variable ---------------------------------------------------------------------------
    vardict = {v.get("id"): v for v in c.variables}
    for a in toks:
        v = a.get("variable")
        if v in NULL or v not in vardict:
            continue
        if vardict[v].get("access") not in NONMEMBER:
            continue        # member accesses carry a per-object varId (s.x and t.x differ) by design
        nt = vardict[v].get("nameToken")
        if nt in NULL or c.kind.get(nt) != "token":
            continue
        inc("varid_checks")
        n = toks[idx[nt]]
        if n.get("varId") != a.get("varId"):
            bad("varid:differs-from-declaration", "%s has varId %s and variable %s whose name token %s has varId %s" % (
                twhere(a), a.get("varId"), v, twhere(n), n.get("varId")))
    return out


# ------------------------------------------------------------------------------------------------------
_cd = None


def cppcheckdata(repo):
    """Import addons/cppcheckdata.py of the tree under test as a module."""
    global _cd
    if _cd is None:
        p = os.path.join(repo, "addons")
        if p not in sys.path:
            sys.path.insert(0, p)
        _cd = importlib.import_module("cppcheckdata")
    return _cd


def _id(o):
    return None if o is None else o.Id


def _n(v):
    return None if v in NULL else v


def compare_cppcheckdata(path, d, repo, stats=None):
    """Load `path` with cppcheckdata.py and compare with the independently parsed Dump `d`."""
    st = stats if stats is not None else {}
    out = []

    def bad(key, msg):
        out.append(("cppcheckdata:" + key, msg))

    def eq(key, what, mine, theirs):
        st["graph_comparisons"] = st.get("graph_comparisons", 0) + 1
        if mine != theirs:
            bad(key, "%s: dump says %r, cppcheckdata gives %r" % (what, mine, theirs))
            return False
        return True

    cd = cppcheckdata(repo)
    try:
        data = cd.CppcheckData(path)
        cfgs = list(data.iterconfigurations())
    except Exception as e:      # noqa: the library failing to load a dump is the observation
        bad("load:%s" % type(e).__name__, "cppcheckdata.CppcheckData/iterconfigurations raised %s: %s" % (
            type(e).__name__, str(e)[:200]))
        return out
    if not eq("configurations", "configuration names", [c.name for c in d.cfgs], [c.name for c in cfgs]):
        return out
    for c, k in zip(d.cfgs, cfgs):
        if not eq("token-order", "token ids in order", [a.get("id") for a in c.tokens], [t.Id for t in k.tokenlist]):
            continue
        prev = None
        for a, t in zip(c.tokens, k.tokenlist):
            w = "token '%s' line %s col %s" % (a.get("str"), a.get("linenr"), a.get("column"))
            eq("token.str", w, a.get("str"), t.str)
            eq("token.location", w, (a.get("file"), int(a.get("linenr")), int(a.get("column"))),
               (t.file, t.linenr, t.column))
            eq("token.previous", w, prev, _id(t.previous))
            prev = t.Id
            eq("token.link", w + " link", _n(a.get("link")), _id(t.link))
            eq("token.scope", w + " scope", _n(a.get("scope")), _id(t.scope))
            eq("token.variable", w + " variable", _n(a.get("variable")), _id(t.variable))
            eq("token.function", w + " function", _n(a.get("function")), _id(t.function))
            eq("token.typeScope", w + " type-scope", _n(a.get("type-scope")), _id(t.typeScope))
            eq("token.astParent", w + " astParent", _n(a.get("astParent")), _id(t.astParent))
            eq("token.astOperand1", w + " astOperand1", _n(a.get("astOperand1")), _id(t.astOperand1))
            eq("token.astOperand2", w + " astOperand2", _n(a.get("astOperand2")), _id(t.astOperand2))
            eq("token.varId", w + " varId", int(a["varId"]) if "varId" in a else None, t.varId)
            if "valueType-type" in a:
                eq("token.valueType.typeScope", w + " valueType-typeScope", _n(a.get("valueType-typeScope")),
                   _id(t.valueType.typeScope) if t.valueType else "no valueType")
        for a, t in zip(c.tokens[-1:], k.tokenlist[-1:]):
            eq("token.next", "last token", None, _id(t.next))
        for i in range(len(k.tokenlist) - 1):
            if k.tokenlist[i].next is not k.tokenlist[i + 1]:
                bad("token.next", "token #%d next is not token #%d" % (i, i + 1))
                break
        # value lists
        vmap = dict(c.values)
        for a, t in zip(c.tokens, k.tokenlist):
            mine = vmap.get(a.get("values"), []) if a.get("values") not in NULL else []
            theirs = list(t.values or []) + list(t.impossible_values or [])
            mine_s = [v for v in mine if "impossible" not in v] + [v for v in mine if "impossible" in v]

            def mk(v):
                return (v.get("intvalue"), _n(v.get("tokvalue")), _n(v.get("lifetime")), _n(v.get("symbolic")),
                        v.get("floatvalue"), v.get("container-size"), v.get("bound"),
                        "known" if "known" in v else "possible" if "possible" in v else
                        "impossible" if "impossible" in v else "inconclusive" if "inconclusive" in v else None)

            def tk(v):
                return (None if v.intvalue is None else str(v.intvalue), _id(v.tokvalue), _id(getattr(v, "lifetime", None)),
                        _id(getattr(v, "symbolic", None)), v.floatvalue, v.containerSize, v.bound, v.valueKind)
            m2 = []
            for v in mine_s:
                x = mk(v)
                # references that do not resolve are reported by check_cfg; cppcheckdata maps them to None
                x = (x[0],) + tuple(r if (r is None or c.kind.get(r) == "token") else None for r in x[1:4]) + x[4:]
                m2.append(x)
            eq("token.values", "values of token '%s' line %s" % (a.get("str"), a.get("linenr")), m2,
               [tk(v) for v in theirs])
        # scopes
        if eq("scope-order", "scope ids in order", [s.get("id") for s in c.scopes], [s.Id for s in k.scopes]):
            children = {}
            for s in c.scopes:
                if s.get("nestedIn") not in NULL:
                    children.setdefault(s.get("nestedIn"), []).append(s.get("id"))
            for s, t in zip(c.scopes, k.scopes):
                w = "scope %s '%s'" % (s.get("type"), s.get("className", ""))
                eq("scope.type", w, (s.get("type"), s.get("className")), (t.type, t.className))
                eq("scope.bodyStart", w + " bodyStart", _n(s.get("bodyStart")), _id(t.bodyStart))
                eq("scope.bodyEnd", w + " bodyEnd", _n(s.get("bodyEnd")), _id(t.bodyEnd))
                eq("scope.nestedIn", w + " nestedIn", _n(s.get("nestedIn")), _id(t.nestedIn))
                eq("scope.function", w + " function", _n(s.get("function")), _id(t.function))
                eq("scope.nestedList", w + " nested scopes", children.get(s.get("id"), []), [x.Id for x in t.nestedList])
                eq("scope.varlist", w + " varlist", [v for v in s["_varlist"] if c.kind.get(v) == "variable"],
                   [v.Id for v in t.varlist])
        # functions
        if eq("function-order", "function ids in order", [f.get("id") for f in c.functions], [f.Id for f in k.functions]):
            for f, t in zip(c.functions, k.functions):
                w = "function '%s'" % f.get("name")
                eq("function.name", w, (f.get("name"), f.get("type")), (t.name, t.type))
                eq("function.tokenDef", w + " tokenDef", _n(f.get("tokenDef")), _id(t.tokenDef))
                eq("function.token", w + " token", _n(f.get("token")) if c.kind.get(f.get("token")) == "token" else None,
                   _id(t.token))
                eq("function.nestedIn", w + " scope", f["_scope"], _id(t.nestedIn))
                eq("function.argument", w + " arguments", {nr: _n(v) for nr, v in f["_args"].items()},
                   {nr: _id(v) for nr, v in t.argument.items()})
                if f.get("overriddenFunction") not in NULL:
                    eq("function.overriddenFunction", w + " overriddenFunction", f.get("overriddenFunction"),
                       _id(t.overriddenFunction) if hasattr(t.overriddenFunction, "Id") else t.overriddenFunction)
        # variables
        if eq("variable-order", "variable ids in order", [v.get("id") for v in c.variables], [v.Id for v in k.variables]):
            for v, t in zip(c.variables, k.variables):
                w = "variable %s" % v.get("id")
                eq("variable.nameToken", w + " nameToken", _n(v.get("nameToken")), _id(t.nameToken))
                eq("variable.typeStartToken", w + " typeStartToken", _n(v.get("typeStartToken")), _id(t.typeStartToken))
                eq("variable.typeEndToken", w + " typeEndToken", _n(v.get("typeEndToken")), _id(t.typeEndToken))
                eq("variable.scope", w + " scope", _n(v.get("scope")), _id(t.scope))
    return out


def check_file(path, repo, stats=None, with_cppcheckdata=True):
    """Full check of one dump file -> (problems, Dump | None).  problems = [(class_key, message)]."""
    st = stats if stats is not None else {}
    try:
        d = load(path)
    except ET.ParseError as e:
        return [("malformed-xml", "dump is not well-formed XML: %s" % e)], None
    probs = []
    for c in d.cfgs:
        probs += [(k, "cfg '%s': %s" % (c.name, m)) for k, m in check_cfg(c, st)]
        st["configurations"] = st.get("configurations", 0) + 1
    if with_cppcheckdata and d.cfgs:
        probs += compare_cppcheckdata(path, d, repo, st)
    return probs, d
