"""Reference model for C34 (addon results are relayed faithfully) + the alphabet of scripted addon output lines.

Protocol (lib/cppcheck.cpp executeAddon/executeAddons, addons/cppcheckdata.py reportError/reportSummary):
  one JSON object per line;  a result is
     {"file":str,"linenr":int,"column":int,"severity":str,"message":str,"addon":str,"errorId":str,"extra":str}
  or {"loc":[{"file","linenr","column","info"},...],"severity",...};  a summary is {"summary":..., "data":...}.

What the model demands (nothing beyond the property statement):
  * never a crash (signal, abort, sanitizer report, hang, unparsable report);
  * every relayed finding corresponds to a well-formed result of the output (same id '<addon>-<errorId>', severity,
    message, locations) and is reported at most once;
  * if the output has no anomalous line and the addon exits 0: every well-formed result of a *judged, enabled* severity
    that is not suppressed is reported exactly once, suppressed ones are not reported, every summary reaches the
    whole-program invocation;
  * if the output has an anomalous line (or the exit status is not 0): either all of the above still holds ('skipped
    line') or there is an internalError finding ('internal error'), in which case well-formed results may be missing.
Not judged: severities debug/none/internal/<unknown> (the statement does not fix whether they are 'enabled');
whether a finding of a *disabled* severity is withheld (only counted); objects without any location and a valid object
followed by trailing text (category 'noloc' = lenient: may be relayed, skipped or answered by an internal error).
"""
import json

JUDGED = ("error", "warning", "style", "performance", "portability", "information")
SEVERITIES = JUDGED + ("debug", "none", "internal", "bogus")
FIELDS = ("file", "linenr", "column", "severity", "message", "addon", "errorId")
ANOMALOUS = ("skip", "badjson", "notobject", "badobject", "noloc")
MSG = "msg <a> & \"b\" 'c' \\d %e {f}"


def dumps(o):
    return json.dumps(o, separators=(",", ":"))


def result_obj(eid, sev="style", msg=None, line=3, col=5, addon="stub"):
    return {"file": "@FILE@", "linenr": line, "column": col, "severity": sev, "message": msg if msg is not None else MSG + " " + eid,
            "addon": addon, "errorId": eid, "extra": ""}


class Line:
    def __init__(self, name, text, cat, result=None, summary=None, wild=None):
        self.name, self.text, self.cat, self.result, self.summary, self.wild = name, text, cat, result, summary, wild

    def __repr__(self):
        return "Line(%s)" % self.name


def res_of(o):
    """Expected finding of a well-formed result object (locations still with the @FILE@ placeholder)."""
    if "file" in o:
        locs = [(o["file"], o["linenr"], o["column"], "")]
    else:
        locs = [(l["file"], l["linenr"], l["column"], l["info"]) for l in o.get("loc", [])]
    return {"id": o["addon"] + "-" + o["errorId"], "severity": o["severity"], "msg": o["message"], "locs": locs}


def valid(eid, sev="style", **kw):
    o = result_obj(eid, sev, **kw)
    return Line("R:%s:%s" % (sev, eid), dumps(o), "result", res_of(o))


WRONG = {"file": 7, "linenr": "x", "column": "x", "severity": 7, "message": 7, "addon": 7, "errorId": 7}
WRONG_MORE = {"null": None, "array": [1], "object": {"a": 1}, "bool": True, "float": 3.5}


def faulty(faults, eid="ef"):
    """faults: dict field -> 'missing' | 'wrong' | 'wrong:<kind>'."""
    o = result_obj(eid)
    for f, k in faults.items():
        if k == "missing":
            del o[f]
        elif k == "wrong":
            o[f] = WRONG[f]
        else:
            o[f] = WRONG_MORE[k.split(":")[1]]
    name = "F:" + ",".join("%s=%s" % fk for fk in sorted(faults.items()))
    if not faults:
        return Line("F:none", dumps(o), "result", res_of(o))
    if faults.get("file") == "missing" and set(faults) <= {"file", "linenr", "column"}:
        # no "file" and no "loc" (linenr/column are then meaningless): cppcheck relays it without a location; the
        # statement does not say what a result without location is -> lenient
        r = {"id": o["addon"] + "-" + o["errorId"], "severity": o["severity"], "msg": o["message"], "locs": []}
        return Line(name, dumps(o), "noloc", r)
    return Line(name, dumps(o), "badobject")


def loc_line(n, eid=None, fault=None):
    eid = eid or "loc%d" % n
    locs = [{"file": "@FILE@", "linenr": 1, "column": 1, "info": "first"}, {"file": "@FILE@", "linenr": 3, "column": 3, "info": "second"}][:n]
    o = {"loc": locs, "severity": "error", "message": "loc form " + eid, "addon": "stub", "errorId": eid, "extra": ""}
    if fault == "loc-not-array":
        o["loc"] = "x"
    elif fault == "entry-not-object":
        o["loc"] = [5]
    elif fault == "entry-no-linenr":
        del o["loc"][0]["linenr"]
    elif fault == "entry-no-info":
        del o["loc"][0]["info"]
    elif fault == "entry-linenr-string":
        o["loc"][0]["linenr"] = "x"
    if fault:
        return Line("LOC:%s" % fault, dumps(o), "badobject")
    if n == 0:
        return Line("LOC0", dumps(o), "noloc", res_of(o))
    return Line("LOC%d" % n, dumps(o), "result", res_of(o))


def summary_line(tag="s1"):
    o = {"summary": tag, "data": [1, {"k": "v <&>"}]}
    return Line("SUMMARY:" + tag, dumps(o), "summary", summary=o)


def alphabet(tier="quick"):
    """All line kinds, simplest first."""
    A = [valid("e1", "style"), valid("e0", "error")]
    A += [valid("sev_" + s, s) for s in SEVERITIES if s not in ("style", "error")]
    A += [faulty({f: k}) for f in FIELDS for k in ("missing", "wrong")]
    A += [loc_line(1), loc_line(2), loc_line(0)]
    A += [loc_line(1, "locf", f) for f in ("loc-not-array", "entry-not-object", "entry-no-linenr", "entry-no-info", "entry-linenr-string")]
    o = result_obj("cwe1", "warning")
    o["cwe"] = 398
    o["hash"] = 12345
    A.append(Line("CWEHASH", dumps(o), "result", res_of(o)))
    for k, v in (("cwe", "x"), ("hash", "x")):
        o = result_obj("cweb", "warning")
        o[k] = v
        A.append(Line("BAD:%s-string" % k, dumps(o), "badobject"))
    A.append(summary_line("s1"))
    A.append(Line("SUMMARY:nonstring", dumps({"summary": 5}), "summary", summary={"summary": 5}))
    A.append(Line("METRIC", dumps({"metric": {"fileName": "@FILE@", "function": "f", "id": "m1", "lineNumber": 1, "value": 3}}), "metric"))
    A.append(Line("EMPTYOBJ", "{}", "badobject"))
    A.append(Line("EMPTY", "", "skip"))
    A.append(Line("CHECKING", "Checking @FILE@ ...", "skip"))
    A.append(Line("NONJSON", "Traceback (most recent call last): boom", "notobject"))
    A.append(Line("ARRAY", "[1,2,3]", "notobject"))
    A.append(Line("SCALAR", "42", "notobject"))
    A.append(Line("TRUNC", dumps(result_obj("tr"))[:40], "badjson"))
    A.append(Line("JUNKOBJ", "{not json at all}", "badjson"))
    o = result_obj("tg")      # picojson parses the leading object and ignores the rest: relaying it or skipping it are both acceptable
    A.append(Line("TRAILING", dumps(o) + " trailing", "noloc", res_of(o)))
    big = "L" * (100 * 1024)
    o = result_obj("long1", "error", msg=big)
    A.append(Line("LONGVALID", dumps(o), "result", res_of(o)))
    A.append(Line("LONGJUNK", "{" + big, "badjson"))
    A.append(Line("LONGNONJSON", big, "notobject"))
    for nm, ln in (("LINE0", 0), ("LINEMAXINT", 2147483647)):
        o = result_obj(nm.lower(), "error", line=ln, col=0)
        A.append(Line(nm, dumps(o), "result", res_of(o)))
    for nm, ln in (("LINENEG", -1), ("LINEBIG", 2147483648), ("LINEMAX64", 9223372036854775807)):
        o = result_obj(nm.lower(), "error", line=ln)
        A.append(Line(nm, dumps(o), "oddloc", wild="stub-" + nm.lower()))     # location outside int range: only 'no crash' is judged
    A.append(Line("LINEFLOAT", dumps(result_obj("lf")).replace('"linenr":3', '"linenr":3.5'), "badobject"))
    A.append(Line("LINE1E30", dumps(result_obj("le")).replace('"linenr":3', '"linenr":1e30'), "badobject"))
    o = result_obj("", "error", addon="stub")
    A.append(Line("EMPTYID", dumps(o), "result", res_of(o)))
    o = result_obj("other-id.x", "error", addon="stub")
    A.append(Line("DASHID", dumps(o), "result", res_of(o)))
    return A


def field_product():
    """Every combination of {valid, missing, wrong} over the seven fields (3^7), simplest (fewest faults) first."""
    import itertools
    combos = []
    for c in itertools.product(("valid", "missing", "wrong"), repeat=len(FIELDS)):
        faults = {f: k for f, k in zip(FIELDS, c) if k != "valid"}
        combos.append(faults)
    combos.sort(key=lambda d: (len(d), sorted(d.items())))
    return [faulty(f) for f in combos]


def wrong_kind_lines():
    return [faulty({f: "wrong:" + k}) for f in FIELDS for k in WRONG_MORE]


# ------------------------------------------------------------------------------------------------------------------
def subst(loc, f):
    return (loc[0].replace("@FILE@", f), loc[1], loc[2], loc[3])


def fkey(r, f):
    return (r["id"], r["severity"], r["msg"].replace("@FILE@", f), tuple(sorted(subst(l, f) for l in r["locs"])))


def expect(lines, rc, files, enable_all, suppressed_ids):
    """Expectation for the invocations of one stage.  files: the @FILE@ substitutions, one per invocation.
    -> dict(must=set, may=set, disabled=set, forbidden=set, wild=set of ids, anomalous=bool, summaries=list)"""
    must, may, forbidden, disabled = set(), set(), set(), set()
    anomalous = rc != 0 or any(l.cat in ANOMALOUS for l in lines)
    for f in files:
        for l in lines:
            if l.result is None:
                continue
            k = fkey(l.result, f)
            sev = l.result["severity"]
            if l.cat == "noloc" or sev not in JUDGED:
                may.add(k)
            elif l.result["id"] in suppressed_ids:
                forbidden.add(k)
            elif sev == "error" or enable_all:
                must.add(k)
            else:
                disabled.add(k)
    return {"must": must, "may": may, "disabled": disabled, "forbidden": forbidden - must, "anomalous": anomalous,
            "wild": {l.wild for l in lines if l.wild}, "summaries": [l.summary for l in lines if l.summary is not None]}
