"""Mechanical extraction of code snippets from the string literals passed to check("...")-style calls in
/repo/test/test*.cpp (used by C27 thorough and C28).

A snippet is the concatenation of a maximal run of adjacent C++ string literals (ordinary or raw) that directly
follows `identifier(` -- i.e. the first argument of a call -- provided the decoded text looks like code (contains one
of `;`, `{`, `#`).  No attempt is made to decide whether it parses: what does not parse yields syntaxError /
unknownMacro findings, which are findings too.  Deterministic: files in sorted order, snippets in source order,
duplicates (same decoded text) dropped.
"""
import glob, os, re

from . import build

_ESC = {"n": "\n", "t": "\t", "r": "\r", "0": "\0", "\\": "\\", "\"": "\"", "'": "'", "a": "\a", "b": "\b", "f": "\f",
        "v": "\v", "?": "?"}

RE_CALL = re.compile(r"([A-Za-z_][A-Za-z_0-9]*)\s*\(\s*(?=\"|R\")")
RE_STR = re.compile(r"\"((?:[^\"\\\n]|\\.)*)\"")
RE_RAW = re.compile(r"R\"([^()\\ ]{0,16})\((.*?)\)\1\"", re.S)
RE_GAP = re.compile(r"(?:\s|//[^\n]*\n|/\*.*?\*/)*", re.S)


def _decode(s):
    out, i, n = [], 0, len(s)
    while i < n:
        c = s[i]
        if c != "\\" or i + 1 >= n:
            out.append(c)
            i += 1
            continue
        d = s[i + 1]
        if d in _ESC:
            out.append(_ESC[d])
            i += 2
        elif d == "x":
            j = i + 2
            while j < n and s[j] in "0123456789abcdefABCDEF":
                j += 1
            try:
                out.append(chr(int(s[i + 2:j], 16) & 0xFF))
            except ValueError:
                out.append("x")
            i = j
        elif d in "01234567":
            j = i + 1
            while j < n and j < i + 4 and s[j] in "01234567":
                j += 1
            out.append(chr(int(s[i + 1:j], 8) & 0xFF))
            i = j
        else:
            out.append(d)
            i += 2
    return "".join(out)


def literal_run(text, pos):
    """Concatenate adjacent string literals starting at pos -> (decoded text, end position) or (None, pos)."""
    parts, p = [], pos
    while True:
        m = RE_RAW.match(text, p)
        if m:
            parts.append(m.group(2))
            p = m.end()
        else:
            m = RE_STR.match(text, p)
            if not m:
                break
            parts.append(_decode(m.group(1)))
            p = m.end()
        g = RE_GAP.match(text, p)
        q = g.end() if g else p
        if text.startswith("\"", q) or text.startswith("R\"", q):
            p = q
        else:
            break
    if not parts:
        return None, pos
    return "".join(parts), p


def extract(repo=None, names=None):
    """-> list of (origin 'testfoo.cpp:line:callee', code).  names: restrict callee names by regex (default: all)."""
    repo = repo or build.REPO
    want = re.compile(names) if names else None
    seen, out = set(), []
    for path in sorted(glob.glob(os.path.join(repo, "test", "test*.cpp"))):
        try:
            text = open(path, encoding="utf-8", errors="replace").read()
        except OSError:
            continue
        for m in RE_CALL.finditer(text):
            callee = m.group(1)
            if want and not want.search(callee):
                continue
            code, end = literal_run(text, m.end())
            if code is None or len(code) < 8:
                continue
            if not any(c in code for c in ";{#"):
                continue
            if "\0" in code:
                code = code.replace("\0", " ")
            if code in seen:
                continue
            seen.add(code)
            line = text.count("\n", 0, m.start()) + 1
            out.append(("%s:%d:%s" % (os.path.basename(path), line, callee), code if code.endswith("\n") else code + "\n"))
    return out
