"""Scope-grammar program enumerator shared by C08, C14 and C35.

A program is one tree of scopes.  node = (kind, decl, use, children)

  kind  N namespace          S struct with member x (declared before its member functions)
        C class with static member x (+ out-of-class definition)
        F function body (free function, or inline member function below S/C)
        O member function defined outside its class (below S/C only)
        B nested block       R for statement       I if statement (+ else)       L lambda body
  decl  0 the scope does not declare x
        1 it declares x the natural way (namespace variable, member, local variable, for-init, if-condition)
        2 x is a parameter (F, O, L)            3 x is an init-capture (L)
  use   1 the scope uses x (before its own declaration and after its children) in every form that is meaningful
        there: x, ::x, this->x, N::x, C::x

Programs are rendered one statement per line so that (line, column) identifies a token; many programs are batched
into one file (unique suffix per program), in two file classes: with and without a global `int x;`.
Only the *validity* of a use (is some x visible at all) is computed here; which declaration it binds to is left to
the compiler.
"""

CHILD = {"N": "NSCF", "S": "FO", "C": "FO", "F": "BRIL", "O": "BRIL", "B": "BRIL", "R": "BRIL", "I": "BRIL",
         "L": "BRIL"}
DECLS = {"N": (0, 1), "S": (0, 1), "C": (0, 1), "F": (0, 1, 2), "O": (0, 1, 2), "B": (0, 1), "R": (0, 1),
         "I": (0, 1), "L": (0, 1, 2, 3)}
TOP = "FNSC"
C_KINDS = "FBRI"          # the C subset: functions, blocks, for, if (declaration inside the body)
EXEC = "FOBRIL"


def _forests(parent_kinds, n, uses, kinds_ok):
    if n == 0:
        yield ()
        return
    for first in range(1, n + 1):
        for k in parent_kinds:
            if k not in kinds_ok:
                continue
            for t in _trees(k, first, uses, kinds_ok):
                for rest in _forests(parent_kinds, n - first, uses, kinds_ok):
                    yield (t,) + rest


def _trees(kind, n, uses, kinds_ok):
    for ch in _forests(CHILD[kind], n - 1, uses, kinds_ok):
        for d in DECLS[kind]:
            for u in uses:
                yield (kind, d, u, ch)


def programs(n, uses=(1,), lang="cpp"):
    """All programs with exactly n scopes, simplest first (by construction order)."""
    ok = "NSCFOBRIL" if lang == "cpp" else C_KINDS
    for k in TOP:
        if k in ok:
            for t in _trees(k, n, uses, ok):
                yield t


def size(t):
    return 1 + sum(size(c) for c in t[3])


def depth(t):
    return 1 + max([depth(c) for c in t[3]] or [0])


def is_chain(t):
    while t[3]:
        if len(t[3]) != 1:
            return False
        t = t[3][0]
    return True


def show(t):
    return "%s%d%s%s" % (t[0], t[1], "u" if t[2] else "", ("(" + " ".join(show(c) for c in t[3]) + ")") if t[3] else "")


def parse(s):
    """Inverse of show()."""
    pos = [0]

    def node():
        k = s[pos[0]]
        d = int(s[pos[0] + 1])
        pos[0] += 2
        u = 0
        if pos[0] < len(s) and s[pos[0]] == "u":
            u = 1
            pos[0] += 1
        ch = []
        if pos[0] < len(s) and s[pos[0]] == "(":
            pos[0] += 1
            while s[pos[0]] != ")":
                if s[pos[0]] == " ":
                    pos[0] += 1
                    continue
                ch.append(node())
            pos[0] += 1
        return (k, d, u, tuple(ch))
    return node()


class Renderer:
    """Renders programs into one translation unit; records the line range of each program."""

    def __init__(self, global_x, lang="cpp"):
        self.lang = lang
        self.g = global_x
        self.lines = []
        self.ranges = []          # (first_line, last_line, program_index)   1-based inclusive
        self.n = 0
        self.emit("void sink(int);")
        if global_x:
            self.emit("int x = 7;", ("decl", "G"))

    def emit(self, s, tag=None):
        self.lines.append((s, tag))

    def text(self):
        return "\n".join(l for l, _ in self.lines) + "\n"

    def tags(self):
        """line number -> tag.  ("decl", D) with D = G | <kind><decl>;  ("use", form, where) with form in
        x | ::x | this->x | N::x | C::x and where = <scope kinds from the root, "/"-joined; L carries its decl
        digit>.<pre|post|else|init>"""
        return {i + 1: t for i, (_, t) in enumerate(self.lines) if t}

    def add(self, tree, tag):
        first = len(self.lines) + 1
        self.k = 0
        self.tag = tag
        self.after = []
        self.path = []
        self._node(tree, ind=0, vis=bool(self.g), cls=None, nspath=(), quals=(), in_member=False)
        for l in self.after:
            self.emit(l, ("decl", "C1"))
        self.ranges.append((first, len(self.lines), tag))

    def _name(self, p):
        self.k += 1
        return "%s%d_%d" % (p, self.tag, self.k)

    def _uses(self, ind, vis, quals, this_ok, ns_init=None, where=""):
        """Emit every meaningful use form.  ns_init: name prefix when the use is a namespace/class-level initialiser."""
        forms = []
        if vis:
            forms.append(("x", "x"))
        if self.g and self.lang == "cpp":
            forms.append(("::x", "::x"))
        if this_ok:
            forms.append(("this->x", "this->x"))
        forms += list(quals)
        where = "/".join(self.path) + "." + where.split(".")[-1]
        for f, fclass in forms:
            if ns_init is None:
                self.emit("  " * ind + "sink(%s);" % f, ("use", fclass, where))
            else:
                self.emit("  " * ind + "%sint %s = %s;" % (ns_init[0], self._name(ns_init[1]), f), ("use", fclass, where))

    def _node(self, t, ind, vis, cls, nspath, quals, in_member):
        self.path.append(t[0])
        try:
            self._node2(t, ind, vis, cls, nspath, quals, in_member)
        finally:
            self.path.pop()

    def _node2(self, t, ind, vis, cls, nspath, quals, in_member):
        kind, decl, use, ch = t
        I = "  " * ind
        if kind == "N":
            name = self._name("N")
            self.emit(I + "namespace %s {" % name)
            if use:
                self._uses(ind + 1, vis, quals, False, ("", "u"), "N.pre")
            path = nspath + (name,)
            if decl:
                self.emit(I + "  int x = 1;", ("decl", "N1"))
                vis = True
                quals = quals + (("::".join(path) + "::x", "N::x"),)
            for c in ch:
                self._node(c, ind + 1, vis, None, path, quals, False)
            if use:
                self._uses(ind + 1, vis, quals, False, ("", "u"), "N.post")
            self.emit(I + "}")
        elif kind in "SC":
            name = self._name(kind)
            self.emit(I + "struct %s {" % name)
            path = nspath + (name,)
            cvis, cquals = vis, quals
            if decl:
                self.emit(I + ("  int x;" if kind == "S" else "  static int x;"), ("decl", kind + "1"))
                cvis = True
                if kind == "C":
                    cquals = quals + (("::".join(path) + "::x", "C::x"),)
                    self.after.append("int %s::x = 2;" % "::".join(path))
            if use and (cvis):
                # default member initialiser: may name a non-static member, a static member or an outer variable
                self.emit(I + "  int %s = x;" % self._name("v"), ("use", "x", "/".join(self.path) + ".init"))
            outer_pending, self.pending = getattr(self, "pending", None), []
            for c in ch:
                self._node(c, ind + 1, cvis, (path, bool(decl)), nspath, cquals, True)
            self.emit(I + "};")
            for body in self.pending:       # out-of-class member definitions follow their class
                for l, tg in body:
                    self.emit(I + l, tg)
            self.pending = outer_pending
        elif kind in "FO":
            fname = self._name("f")
            par = "int x" if decl == 2 else ""
            body_ind = ind
            if kind == "O":
                cpath, cdecl = cls
                self.emit(I + "void %s(%s);" % (fname, par), ("decl", "O2proto") if decl == 2 else None)
                # the definition goes after the class, at the nesting level of the class: collect lines
                saved, self.lines = self.lines, []
                self.emit("void %s::%s(%s) {" % ("::".join(cpath[len(nspath):]), fname, par),
                          ("decl", "O2") if decl == 2 else None)
                body_ind = 0
            else:
                self.emit(I + "void %s(%s) {" % (fname, par), ("decl", "F2") if decl == 2 else None)
            this_ok = bool(cls and cls[1]) and self.lang == "cpp"
            self._body(t, body_ind + 1, vis or decl == 2, quals, this_ok)
            self.emit("  " * body_ind + "}")
            if kind == "O":
                body, self.lines = self.lines, saved
                self.pending.append(body)
        else:
            raise ValueError(kind)

    def _body(self, t, ind, vis, quals, this_ok):
        """Contents of an executable scope whose opening line is already emitted."""
        kind, decl, use, ch = t
        I = "  " * ind
        if use:
            self._uses(ind, vis, quals, this_ok, None, kind + ".pre")
        if decl == 1 and kind in "FOBL":
            self.emit(I + "int x = 3;", ("decl", kind + "1"))
            vis = True
        for c in ch:
            self._exec(c, ind, vis, quals, this_ok)
        if use:
            self._uses(ind, vis, quals, this_ok, None, kind + ".post")

    def _exec(self, t, ind, vis, quals, this_ok):
        self.path.append(t[0] + (str(t[1]) if t[0] == "L" else ""))
        try:
            self._exec2(t, ind, vis, quals, this_ok)
        finally:
            self.path.pop()

    def _exec2(self, t, ind, vis, quals, this_ok):
        kind, decl, use, ch = t
        I = "  " * ind
        if kind == "B":
            self.emit(I + "{")
            self._body(t, ind + 1, vis, quals, this_ok)
            self.emit(I + "}")
        elif kind == "R":
            if decl:
                self.emit(I + "for (int x = 0; x < 2; x++) {", ("decl", "R1"))
            else:
                v = self._name("i")
                self.emit(I + "for (int %s = 0; %s < 2; %s++) {" % (v, v, v))
            self._body(t, ind + 1, vis or bool(decl), quals, this_ok)
            self.emit(I + "}")
        elif kind == "I":
            if decl and self.lang == "cpp":
                self.emit(I + "if (int x = 4) {", ("decl", "I1"))
                self._body(t, ind + 1, True, quals, this_ok)
                self.emit(I + "} else {")
                if use:
                    self._uses(ind + 1, True, quals, this_ok, None, "I.else")
                self.emit(I + "}")
            else:
                self.emit(I + "if (1) {")
                if decl:
                    t = (kind, 0, use, ch)
                    if use:
                        self._uses(ind + 1, vis, quals, this_ok, None, "I.pre")
                    self.emit(I + "  int x = 4;", ("decl", "I1"))
                    vis2 = True
                    for c in ch:
                        self._exec(c, ind + 1, vis2, quals, this_ok)
                    if use:
                        self._uses(ind + 1, vis2, quals, this_ok, None, "I.post")
                else:
                    self._body(t, ind + 1, vis, quals, this_ok)
                self.emit(I + "}")
        elif kind == "L":
            name = self._name("l")
            cap = "=" if decl != 3 else "=, x = 5"
            par = "int x" if decl == 2 else ""
            self.emit(I + "auto %s = [%s](%s) {" % (name, cap, par), ("decl", "L%d" % decl) if decl in (2, 3) else None)
            self._body(t, ind + 1, vis or decl in (2, 3), quals, this_ok)
            self.emit(I + "};")
        else:
            raise ValueError(kind)


def render_batch(trees, global_x, lang="cpp", tag0=0):
    """-> (source text, [(first_line, last_line, index into trees)])"""
    r = Renderer(global_x, lang)
    for i, t in enumerate(trees):
        r.add(t, tag0 + i)
    return r.text(), [(a, b, tag - tag0) for a, b, tag in r.ranges]


def render_batch_tagged(trees, global_x, lang="cpp", tag0=0):
    """-> (source text, ranges, {line: tag})"""
    r = Renderer(global_x, lang)
    for i, t in enumerate(trees):
        r.add(t, tag0 + i)
    return r.text(), [(a, b, tag - tag0) for a, b, tag in r.ranges], r.tags()


# ---------------------------------------------------------------------------------------------------------
OVERLOADS = ["int", "double", "char*", "int,int", "S", "const S&",
             "long", "unsigned", "float", "bool", "const char*", "short"]        # first 6 = the base set
ARGS = ["1", "1.0", "'c'", "\"s\"", "0", "s", "1,2", "1L", "1u", "1.0f", "true", "nullptr"]   # first 7 = base


def overload_programs(max_set=3, nover=6, nargs=7):
    """All (overload subset, argument) pairs, smallest sets first."""
    import itertools
    for n in range(1, max_set + 1):
        for subset in itertools.combinations(range(nover), n):
            for a in range(nargs):
                yield (subset, a)


def show_overload(p):
    return "{%s} <- f(%s)" % ("; ".join("f(%s)" % OVERLOADS[o] for o in p[0]), ARGS[p[1]])


def render_overloads(progs, tag0=0):
    lines, ranges = [], []
    for i, (subset, a) in enumerate(progs):
        tag = tag0 + i
        first = len(lines) + 1
        lines.append("namespace O%d {" % tag)
        lines.append("  struct S { int m; };")
        for o in subset:
            lines.append("  void f(%s) {}" % OVERLOADS[o])
        lines.append("  void call() {")
        lines.append("    S s;")
        lines.append("    f(%s);" % ARGS[a])
        lines.append("  }")
        lines.append("}")
        ranges.append((first, len(lines), i))
    return "\n".join(lines) + "\n", ranges


# ---------------------------------------------------------------------------------------------------------
# Two-parameter overloads: every parameter list (T1, T2) over a type alphabet, every overload set of bounded size,
# called with every pair of argument variables.  One namespace per set, one call per line.
PTYPES = ["int", "long", "double", "short"]
ATYPES = [("vi", "int"), ("vs", "short"), ("vl", "long"), ("vd", "double"), ("vc", "char")]


def param_lists(types):
    return [(a, b) for a in types for b in types]


def overload2_sets(tier):
    """quick: all sets of size <= 3 over the 16 lists of 4 types plus all sets of size 4 over the 9 lists of
    {int, long, double}; thorough: all sets of size <= 4 over the 16 lists.  A set = sorted tuple of (T1, T2)."""
    import itertools
    l16 = param_lists(PTYPES)
    l9 = param_lists(PTYPES[:3])
    seen = set()
    for n in (1, 2, 3):
        for c in itertools.combinations(l16, n):
            seen.add(c)
            yield c
    for c in itertools.combinations(l9 if tier == "quick" else l16, 4):
        if c not in seen:
            yield c


def render_overloads2(sets, tag0=0):
    """-> (source, ranges [(line, line, index)], items [(set, (argname1, argname2))]) - one item per call line"""
    lines, ranges, items = [], [], []
    params = ", ".join("%s %s" % (t, n) for n, t in ATYPES)
    for k, st in enumerate(sets):
        lines.append("namespace Q%d {" % (tag0 + k))
        for t1, t2 in st:
            lines.append("  void f(%s, %s) {}" % (t1, t2))
        lines.append("  void call(%s) {" % params)
        for a1, _ in ATYPES:
            for a2, _ in ATYPES:
                lines.append("    f(%s, %s);" % (a1, a2))
                ranges.append((len(lines), len(lines), len(items)))
                items.append(([list(x) for x in st], [a1, a2]))
        lines.append("  }")
        lines.append("}")
    return "\n".join(lines) + "\n", ranges, items


def show_overload2(item):
    st, args = item
    ty = dict(ATYPES)
    return "{%s} <- f(%s %s, %s %s)" % ("; ".join("f(%s,%s)" % tuple(x) for x in st), ty[args[0]], args[0], ty[args[1]], args[1])
