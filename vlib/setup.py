"""One-time offline setup: build the cppcheck variants and native helpers from files on disk."""
import sys
from . import build, explore


def main():
    for v in ("plain", "asan", "tsan", "mcoff"):
        build.build(v, quiet=False)
    explore.shim()
    print("setup ok")


if __name__ == "__main__":
    main()
