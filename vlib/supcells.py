"""Workspaces made of independent 'cells' for the suppression properties (C23, C24).

A cell is a directory t/k<tag>/ with one source file and one header whose names all carry the cell's tag, so that a
suppression aimed at one cell (its file pattern names the cell) cannot touch another cell: many (suppression,
finding) combinations are then evaluated by ONE run of the real binary.  Each cell has findings on three consecutive
lines for two ids (so that off-by-one line matching hides a neighbour), a finding with a symbol name, a finding in a
macro expansion and three findings in a header."""
import itertools, string
from . import ref_suppress as ref

TAGS = [a + b for a in string.ascii_lowercase for b in string.ascii_lowercase]


SHIFT = 12      # lines per cell when cells are shifted so that no two cells have a finding on the same line number


def cell_files(tag, csrc=None, hsrc=None, shift=0):
    """shift: number of blank lines put in front of both files (then a suppression with a line number but without a
    cell-specific file pattern still touches one cell only)."""
    c = csrc if csrc is not None else C_LINES
    h = hsrc if hsrc is not None else H_LINES
    return {"t/k%s/m%s.c" % (tag, tag): "\n" * shift + "\n".join(c).replace("@", tag) + "\n",
            "t/k%s/h%s.h" % (tag, tag): "\n" * shift + "\n".join(h).replace("@", tag) + "\n"}


C_LINES = [
    '#include "h@.h"',                                   # 1
    '#define DV@(x) ((x)/0)',                            # 2
    'int za@(int x){ return x/0; }',                     # 3  zerodiv
    'int zb@(int x){ return x/0; }',                     # 4  zerodiv   <- target Z
    'int zc@(int x){ return x/0; }',                     # 5  zerodiv
    'int ua@(void){ int va@; return va@; }',             # 6  uninitvar symbol va@
    'int ub@(void){ int vb@; return vb@; }',             # 7  uninitvar symbol vb@  <- target U
    'int uc@(void){ int vc@; return vc@; }',             # 8  uninitvar symbol vc@
    'void aa@(void){ int a[2]; a[3]=0; }',               # 9  arrayIndexOutOfBounds
    'int dm@(int x){ return DV@(x); }',                  # 10 zerodiv in a macro expansion
    'void ch@(void){ hf@(); }',                          # 11
]
H_LINES = [
    'static void hf@(void){ int b[2];',                  # 1
    '  b[2]=0;',                                         # 2  arrayIndexOutOfBounds
    '  b[3]=0;',                                         # 3  arrayIndexOutOfBounds  <- target H
    '  b[4]=0;',                                         # 4  arrayIndexOutOfBounds
    '}',
]
# target -> (file kind, id, other id present in the same file, line, symbol stem)
TARGETS = {
    "Z": ("c", "zerodiv", "uninitvar", 4, None),
    "U": ("c", "uninitvar", "zerodiv", 7, "vb"),
    "H": ("h", "arrayIndexOutOfBounds", "zerodiv", 3, None),
}
ID_PATTERNS = {
    "zerodiv": {"exact": "zerodiv", "star": "*", "prefix": "zero*", "suffix": "*div", "qmark": "zero?iv", "dstar": "z**v"},
    "uninitvar": {"exact": "uninitvar", "star": "*", "prefix": "uninit*", "suffix": "*initvar", "qmark": "uninit?ar", "dstar": "u**r"},
    "arrayIndexOutOfBounds": {"exact": "arrayIndexOutOfBounds", "star": "*", "prefix": "arrayIndex*", "suffix": "*OutOfBounds",
                              "qmark": "arrayIndexOutOfBound?", "dstar": "a**s"},
}


def id_pattern(target, cls):
    kind, tid, other, line, sym = TARGETS[target]
    if cls == "other":
        return other
    return ID_PATTERNS[tid][cls]


def file_pattern(target, cls, tag, cwd):
    kind = TARGETS[target][0]
    name = ("m%s.c" if kind == "c" else "h%s.h") % tag
    d = "k" + tag
    ext = name[-2:]
    return {
        "none": None,
        "exact": "t/%s/%s" % (d, name),
        "dot": "./t/%s/%s" % (d, name),
        "tail": "%s/%s" % (d, name),
        "base": name,
        "starext": "t/%s/*%s" % (d, ext),
        "dirstar": "%s/*" % d,
        "dstar": "**/%s" % name,
        "qmark": "%s/%s??%s" % (d, name[0], ext),
        "noncanon": "t/./%s/../%s/%s" % (d, d, name),
        "dir": "t/%s" % d,
        "wrong": "t/%s/x%s" % (d, name),
        "partial": "%s/%s" % (tag, name),            # starts in the middle of a path component: must not match
        "wrongabs": "/nonexistent/t/%s/%s" % (d, name),
        "abs": "%s/t/%s/%s" % (cwd, d, name),
        "absdir": "%s/t/%s" % (cwd, d),
        # not confined to one cell:
        "g_starext": "*" + ext, "g_star": "*", "g_dstar": "**", "g_dirt": "t", "g_tstar": "t/*/*" + ext,
    }[cls]


CONFINED_FILES = ["exact", "dot", "tail", "base", "starext", "dirstar", "dstar", "qmark", "noncanon", "dir", "wrong", "partial",
                  "wrongabs", "abs", "absdir"]
GLOBAL_FILES = ["none", "g_starext", "g_star", "g_dstar", "g_dirt", "g_tstar"]


def line_value(target, cls, shift=0):
    ln = TARGETS[target][3] + shift
    return {"none": None, "right": ln, "minus": ln - 1, "plus": ln + 1}[cls]


def symbol_pattern(target, cls, tag):
    stem = TARGETS[target][4] or "vb"
    return {"none": None, "exact": stem + tag, "glob": "v?" + tag, "prefix": stem + "*", "wrong": "zz" + tag}[cls]


def make_sup(target, idc, filec, linec, symc, tag, cwd, shift=0):
    return ref.Sup(id_pattern(target, idc), file_pattern(target, filec, tag, cwd), line_value(target, linec, shift),
                   symbol_pattern(target, symc, tag), text="%s/%s/%s/%s/%s" % (target, idc, filec, linec, symc))


# ---------------------------------------------------------------------------------------------- channels
def text_form(s):
    t = s.id
    if s.file is not None:
        t += ":" + s.file
        if s.line is not None:
            t += ":%d" % s.line
    return t


def text_expressible(s):
    return s.symbol is None and not (s.file is None and s.line is not None)


def xml_form(sups, pretty=True):
    out = ['<?xml version="1.0"?>', "<suppressions>"]
    for s in sups:
        out.append("  <suppress>")
        out.append("    <id>%s</id>" % s.id)
        if s.file is not None:
            out.append("    <fileName>%s</fileName>" % s.file)
        if s.line is not None:
            out.append("    <lineNumber>%d</lineNumber>" % s.line)
        if s.symbol is not None:
            out.append("    <symbolName>%s</symbolName>" % s.symbol)
        out.append("  </suppress>")
    out.append("</suppressions>")
    return "\n".join(out) + "\n"


def list_form(sups):
    """A suppressions file exercising everything the manual allows: '#' and '//' comment lines, empty lines,
    trailing comments of both kinds, CRLF and LF line ends."""
    out = ["# suppressions for the cells\r\n", "// second comment line\n", "\n", "\r\n"]
    for i, s in enumerate(sups):
        t = text_form(s)
        out.append(t + ["\n", "\r\n", " # why\n", " // why\r\n", "\n\n"][i % 5])
        if i % 7 == 3:
            out.append("# in between\n")
    return "".join(out)


def deliver(channel, sups, ws, opt="--suppress", name="sup"):
    """Write the files a channel needs into the workspace and return the command-line arguments."""
    if channel == "cmd":
        return ["%s=%s" % (opt, text_form(s)) for s in sups]
    if channel == "list":
        ws.write(name + ".txt", list_form(sups).encode())
        return ["--suppressions-list=%s.txt" % name if opt == "--suppress" else "--exitcode-suppressions=%s.txt" % name]
    if channel == "xml":
        ws.write(name + ".xml", xml_form(sups))
        return ["--suppress-xml=%s.xml" % name]
    raise ValueError(channel)


# ---------------------------------------------------------------------------------------------- findings
def findings_of(xml_findings, texts, strip=None):
    """cppcheck's --xml findings -> reference findings (primary location = first <location>)."""
    out = []
    for f in xml_findings:
        if f["locs"]:
            file, line = f["locs"][0][0], f["locs"][0][1]
        else:
            file, line = f["file0"] or "", 0
        rel = file[len(strip):] if strip and file.startswith(strip) else file
        out.append({"id": f["id"], "file": file, "line": line, "symbols": tuple(f["symbols"]), "msg": f["msg"],
                    "nlocs": len(f["locs"]), "macros": ref.macros_on_line(texts, rel, line)})
    return out


def fid(f):
    return (f["id"], f["file"], f["line"], f["msg"])


def chunks(seq, n):
    seq = list(seq)
    for i in range(0, len(seq), n):
        yield seq[i:i + n]


# ---------------------------------------------------------------------------------------------- cells with comment slots (C24)
# Fixed line layout with empty 'slots' that can take an inline suppression comment, so that line numbers do not move.
S_C_LINES = [
    '{c1}',                                              # 1  slot (file suppression)
    '#include "h@.h"',                                   # 2
    '{c3}',                                              # 3  slot (macro suppression)
    '#define DV@(x) ((x)/0)',                            # 4
    '{c5}',                                              # 5  slot before a line with a finding
    'int za@(int x){ return x/0; }{t6}',                 # 6  zerodiv, trailing slot
    'int zb@(int x){ return x/0; }',                     # 7  zerodiv
    '{c8}',                                              # 8  slot before a line without finding
    'int ok@(int x){ return x+1; }{t9}',                 # 9  no finding, trailing slot
    'int ub@(void){ int vb@; return vb@; }',             # 10 uninitvar symbol vb@
    'void aa@(void){ int a[2]; a[3]=0; }',               # 11 arrayIndexOutOfBounds
    'int dm@(int x){ return DV@(x); }',                  # 12 zerodiv in macro expansion
    'void ch@(void){ hf@(); }',                          # 13
]
S_H_LINES = [
    'static void hf@(void){ int b[2];',                  # 1
    '{h2}',                                              # 2  slot
    '  b[2]=0;',                                         # 3  arrayIndexOutOfBounds
    '  b[3]=0;',                                         # 4  arrayIndexOutOfBounds
    '}',
]
SLOTS = ("c1", "c3", "c5", "t6", "c8", "t9", "h2")


def slot_cell_files(tag, fill):
    """fill: {slot: comment text}; empty slots become empty (blank line / nothing after the code)."""
    def sub(ln):
        for k in SLOTS:
            v = fill.get(k, "")
            ln = ln.replace("{%s}" % k, (" " + v if k.startswith("t") and v else v))
        return ln
    return cell_files(tag, [sub(l) for l in S_C_LINES], [sub(l) for l in S_H_LINES])
