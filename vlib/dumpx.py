"""Fast line-based reader for `cppcheck --dump` files (used by C07, C09, C10).

The dump writes one <token .../> element per line inside <tokenlist> and one <values id=..> block per value list
inside <valueflow>; a regular-expression scan is several times faster than an XML tree for 10 MB dumps."""
import re

_ATTR = re.compile(r'([\w-]+)="([^"]*)"')
_ENT = {"&lt;": "<", "&gt;": ">", "&amp;": "&", "&quot;": '"', "&apos;": "'"}
_ENTRE = re.compile(r"&(?:lt|gt|amp|quot|apos);")


def unesc(s):
    if "&" not in s:
        return s
    return _ENTRE.sub(lambda m: _ENT[m.group(0)], s)


def attrs(s):
    """attributes of a one-line element; values never contain a raw double quote (the dump escapes it)"""
    p = s.split('"')
    d = {}
    for i in range(0, len(p) - 1, 2):
        k = p[i]
        j = k.rfind(" ")
        d[k[j + 1:-1]] = p[i + 1]
    return d


class Dump:
    """tokens: list of dicts (document order) of the first <dump> configuration; values: id -> list of dicts."""

    def __init__(self, tokens, values, platform, errors):
        self.tokens, self.values, self.platform, self.errors = tokens, values, platform, errors
        self.by_id = {t["id"]: t for t in tokens}

    def lines(self):
        d = {}
        for t in self.tokens:
            d.setdefault(int(t["linenr"]), []).append(t)
        return d


def parse(path, min_line=0, want_values=False):
    tokens, values, platform = [], {}, {}
    cur = None
    ndump = 0
    in_tl = False
    with open(path, "r", errors="replace") as f:
        for line in f:
            s = line.lstrip()
            if s.startswith("<token "):
                if not in_tl or ndump != 1:
                    continue
                d = attrs(s)
                if int(d.get("linenr", "0")) < min_line:
                    continue
                d["str"] = unesc(d.get("str", ""))
                d["pos"] = len(tokens)
                tokens.append(d)
            elif s.startswith("<tokenlist"):
                in_tl = True
            elif s.startswith("</tokenlist"):
                in_tl = False
            elif s.startswith("<dump "):
                ndump += 1
            elif s.startswith("<platform "):
                platform = attrs(s)
            elif want_values and ndump == 1:
                if s.startswith("<values "):
                    cur = []
                    values[attrs(s)["id"]] = cur
                elif s.startswith("<value ") and cur is not None:
                    cur.append(attrs(s))
                elif s.startswith("</values"):
                    cur = None
    return Dump(tokens, values, platform, None)


RE_DIAG = re.compile(r"^([^:\n]+):(\d+):(\d+): (\w+): (.*?) \[(\w+)\]$", re.M)


def diagnostics(stderr_text):
    """(file, line, col, severity, msg, id) of the default text template."""
    return [(m.group(1), int(m.group(2)), int(m.group(3)), m.group(4), m.group(5), m.group(6))
            for m in RE_DIAG.finditer(stderr_text)]


def cppcheck_retry(args, cwd, tries=40, **kw):
    """run.cppcheck, but wait when the binary is momentarily unavailable because another check relinks it."""
    import time
    from . import run
    for k in range(tries):
        try:
            return run.cppcheck(args, cwd, **kw)
        except (PermissionError, FileNotFoundError, OSError) as ex:
            if k == tries - 1:
                raise
            time.sleep(0.5)
