"""Token-level C/C++ lexer, meaning-preserving rewrites (C05) and token alignment helpers (C05, C06).

Everything here works on the *token sequence* of a program text: a rewrite produces a new text, the new text is lexed
again and `align()` proves that the code-token sequence is the old one up to the declared permutation / renaming
(comments and white space are the only other things that may differ).  Positions of the rewritten program therefore
come from lexing the rewritten text, not from trusting the rewriter.
"""
import itertools, re

KEYWORDS = set("""alignas alignof and asm auto bool break case catch char class const const_cast constexpr continue
decltype default delete do double dynamic_cast else enum explicit export extern false final float for friend goto if
inline int long mutable namespace new noexcept not nullptr operator or override private protected public register
reinterpret_cast restrict return short signed sizeof static static_assert static_cast struct switch template this
throw true try typedef typeid typename union unsigned using virtual void volatile wchar_t while xor _Bool""".split())

# names that belong to the implementation / library (never renamed) -- everything used by the corpus
LIBNAMES = set("""main std string vector map move cout cerr endl iterator const_iterator push_back begin end erase empty
size clear at front back c_str length malloc calloc realloc free FILE fopen fclose fprintf printf snprintf sprintf
strcpy strncpy strlen strcmp memset memcpy memcmp NULL size_t abs exit abort stdin stdout stderr first second
int8_t int16_t int32_t int64_t uint8_t uint16_t uint32_t uint64_t""".split())
# 'first'/'second' are std::pair members; the generator does not use them as user names.

PUNCT = sorted("""<<= >>= ... ->* <=> :: -> ++ -- << >> <= >= == != && || += -= *= /= %= &= |= ^= ## .* { } [ ] ( ) ; : ? . + - * / %
^ & | ~ ! = < > , #""".split(), key=len, reverse=True)
RE_ID = re.compile(r"[A-Za-z_]\w*")
RE_NUM = re.compile(r"\.?\d(?:[eEpP][+-]|[\w.'])*")
STRPFX = ("u8", "u", "U", "L")


class Tok:
    __slots__ = ("kind", "text", "line", "col", "off", "endline")

    def __init__(self, kind, text, line, col, off):
        self.kind, self.text, self.line, self.col, self.off = kind, text, line, col, off
        self.endline = line + text.count("\n")

    def __repr__(self):
        return "%s%r@%d:%d" % (self.kind, self.text, self.line, self.col)


class LexError(Exception):
    pass


_RE_TOK = re.compile(
    r"(?P<nl>\n)|(?P<ws>[ \t\r\f\v]+)|(?P<lc>//[^\n]*)|(?P<bc>/\*.*?\*/)|(?P<bad>/\*|R\")"
    r"|(?P<str>(?:u8|u|U|L)?\"(?:\\.|[^\"\\\n])*\")|(?P<chr>(?:u8|u|U|L)?'(?:\\.|[^'\\\n])*')"
    r"|(?P<id>[A-Za-z_]\w*)|(?P<num>\.?\d(?:[eEpP][+-]|[\w.'])*)"
    r"|(?P<op>" + "|".join(re.escape(p) for p in PUNCT) + r")", re.S)


def lex(text):
    """-> list of Tok (kinds: id num str chr op pp cmt).  Columns count every character (tab = 1) from 1."""
    toks, i, n, line, ls = [], 0, len(text), 1, 0      # ls = offset of line start
    bol = True
    match = _RE_TOK.match
    while i < n:
        m = match(text, i)
        if m is None:
            raise LexError("unexpected character %r at line %d" % (text[i], line))
        g = m.lastgroup
        j = m.end()
        if g == "nl":
            line += 1
            ls = j
            bol = True
            i = j
            continue
        if g == "ws":
            i = j
            continue
        if g == "bad":
            raise LexError("unterminated comment or raw string at line %d" % line)
        st = i
        if g == "op" and bol and text[i] == "#":
            j = i
            while True:
                k = text.find("\n", j)
                if k < 0:
                    k = n
                if text[j:k].rstrip("\r").endswith("\\") and k < n:
                    j = k + 1
                    continue
                break
            o = text.find("/*", i, k)
            if o >= 0 and text.find("*/", o, k) < 0:
                raise LexError("block comment opened on a preprocessor line")
            kind, j = "pp", k
            while j > i and text[j - 1] == "\r":
                j -= 1
        elif g == "lc":
            while j > i and text[j - 1] == "\r":
                j -= 1
            if text[i:j].endswith("\\"):
                raise LexError("line comment with continuation")
            kind = "cmt"
        elif g == "bc":
            kind = "cmt"
        else:
            kind = g
        t = Tok(kind, text[st:j], line, st - ls + 1, st)
        toks.append(t)
        if t.endline != line:
            line = t.endline
            ls = st + t.text.rfind("\n") + 1
        i = j
        if kind != "cmt":
            bol = False
    return toks


def code(toks):
    return [t for t in toks if t.kind != "cmt"]


def user_ids(toks, keep=()):
    """identifiers that the renamings touch: every identifier token that is no keyword / library name."""
    out = []
    for t in toks:
        if t.kind == "id" and t.text not in KEYWORDS and t.text not in LIBNAMES and t.text not in keep \
                and t.text not in out:
            out.append(t.text)
    return out


# --------------------------------------------------------------------------------------------------------------
class Prog:
    """A program text with its tokens and the line-level facts the rewrites need."""

    def __init__(self, text, lang, name, chunks=None, after=None, keep=()):
        self.text, self.lang, self.name = text, lang, name
        self.toks = lex(text)
        self.code = code(self.toks)
        self.lines = text.split("\n")
        if self.lines and self.lines[-1] == "":
            self.lines.pop()
            self.final_nl = True
        else:
            self.final_nl = False
        n = len(self.lines)
        self.cont = [False] * (n + 2)          # 1-based: line starts inside a multi-line token
        for t in self.toks:
            for l in range(t.line + 1, t.endline + 1):
                self.cont[l] = True
        self.by_line = {}
        for t in self.toks:
            self.by_line.setdefault(t.line, []).append(t)
        self.gen_chunks = chunks        # generator-provided: list of (first_line, last_line, group) 1-based;
                                        # group: None (fixed), "D" (definition), "P" (prototype / forward declaration)
        self.gen_after = after or {}    # group -> pairs (i, j) of chunk indices in that group: i must stay before j
        self.keep = set(keep)

    def join(self, lines):
        return "\n".join(lines) + ("\n" if self.final_nl or True else "")

    # ---- line classification -------------------------------------------------------------------------------
    def is_blank(self, l):
        return not self.cont[l] and self.lines[l - 1].strip() == ""

    def is_comment_line(self, l):
        ts = self.by_line.get(l, [])
        return (not self.cont[l] and len(ts) == 1 and ts[0].kind == "cmt" and ts[0].endline == l)

    def stmt_boundaries(self):
        """1-based line numbers l such that 'before line l' lies between two statements / declarations."""
        out = []
        depth = 0
        prev = None     # last code token before the line
        ci = 0
        cd = self.code
        for l in range(1, len(self.lines) + 1):
            while ci < len(cd) and cd[ci].line < l:
                t = cd[ci]
                if t.kind == "op":
                    if t.text == "(":
                        depth += 1
                    elif t.text == ")":
                        depth -= 1
                prev = t
                ci += 1
            if self.cont[l]:
                continue
            if prev is not None and prev.endline >= l:
                continue
            nxt = cd[ci] if ci < len(cd) else None
            ok = prev is None or prev.kind == "pp" or (prev.kind == "op" and prev.text in (";", "{", "}", ":")
                                                         and depth == 0)
            if ok and nxt is not None and nxt.kind == "id" and nxt.text == "else":
                ok = False
            if ok:
                out.append(l)
        return out

    # ---- top-level chunks (lexer based; used for the samples) -------------------------------------------------
    def lex_chunks(self):
        """-> list of dicts {first,last (code token indices), typeish, declared, uses} or None if unsafe."""
        cd = self.code
        chunks, cur, bd, pd = [], [], 0, 0
        for idx, t in enumerate(cd):
            if t.kind == "pp":
                if bd == 0 and pd == 0 and not cur:
                    chunks.append({"toks": [idx], "pp": True})
                    continue
                cur.append(idx)
                continue
            cur.append(idx)
            if t.kind != "op":
                continue
            if t.text == "{":
                bd += 1
            elif t.text == "}":
                bd -= 1
                if bd < 0:
                    return None
                if bd == 0 and pd == 0:
                    head = [cd[k].text for k in cur]
                    first = head[0]
                    hd = head[:head.index("{")]
                    if first in ("namespace", "extern", "template", "using"):
                        return None
                    if "(" in hd and first not in ("typedef", "struct", "class", "union", "enum") and "=" not in hd:
                        nxt = cd[idx + 1] if idx + 1 < len(cd) else None
                        if nxt is not None and nxt.kind == "op" and nxt.text == ";":
                            continue
                        chunks.append({"toks": cur, "pp": False})
                        cur = []
            elif t.text == "(":
                pd += 1
            elif t.text == ")":
                pd -= 1
            elif t.text == ";" and bd == 0 and pd == 0:
                chunks.append({"toks": cur, "pp": False})
                cur = []
        if cur or bd or pd:
            return None
        for c in chunks:
            ts = [cd[k] for k in c["toks"]]
            c["first_line"], c["last_line"] = ts[0].line, ts[-1].endline
            if c["pp"]:
                continue
            c["has_pp"] = any(t.kind == "pp" for t in ts)
            c["uses"] = set(t.text for t in ts if t.kind == "id" and t.text not in KEYWORDS)
            dec, b, p = set(), 0, 0
            is_enum = ts[0].text == "enum" or (ts[0].text == "typedef" and len(ts) > 1 and ts[1].text == "enum")
            for t in ts:
                if t.kind == "op":
                    b += t.text == "{"
                    b -= t.text == "}"
                    p += t.text == "("
                    p -= t.text == ")"
                elif t.kind == "id" and t.text not in KEYWORDS and ((b == 0 and p == 0) or is_enum):
                    dec.add(t.text)
            c["declared"] = dec
        return chunks


# --------------------------------------------------------------------------------------------------------------
class Rewrite:
    def __init__(self, fam, name, text, perm=None, ren=None):
        self.fam, self.name, self.text, self.perm, self.ren = fam, name, text, perm, ren


def _indent(p, pre):
    out = []
    for l, s in enumerate(p.lines, 1):
        ts = p.by_line.get(l, [])
        if p.cont[l] or s.strip() == "" or (ts and ts[0].kind == "pp"):
            out.append(s)
        else:
            out.append(pre + s)
    return p.join(out)


def _from_gaps(p, gapfn):
    """Rebuild the text token by token; gapfn(i, gap) may replace the white space before token i."""
    out, pos = [], 0
    for i, t in enumerate(p.toks):
        gap = p.text[pos:t.off]
        out.append(gapfn(i, gap))
        out.append(t.text)
        pos = t.off + len(t.text)
    out.append(p.text[pos:])
    return "".join(out)


def rewrites_W(p):
    yield Rewrite("W", "indent+1", _indent(p, " "))
    yield Rewrite("W", "indent+4", _indent(p, "    "))
    yield Rewrite("W", "indent+tab", _indent(p, "\t"))
    # one token per line (comments and preprocessor lines stay whole)
    yield Rewrite("W", "one-token-per-line", "\n".join(t.text for t in p.toks) + "\n")
    # join every top-level definition that spans several lines on one line
    spans = p.join_spans()
    if spans:
        inner = set()
        for a, b in spans:
            inner.update(range(a + 1, b + 1))
        yield Rewrite("W", "join-definitions", _from_gaps(p, lambda i, g: " " if i in inner else g))
    if "\r" not in p.text:
        yield Rewrite("W", "crlf", p.text.replace("\n", "\r\n"))


def _join_spans(p):
    """token index ranges (in p.toks) of top-level definitions that can be put on one line."""
    spans = []
    if p.gen_chunks is not None:
        rng = [(a, b) for a, b, perm in p.gen_chunks if b > a]
    else:
        ch = p.lex_chunks()
        if ch is None:
            return []
        rng = [(c["first_line"], c["last_line"]) for c in ch if not c["pp"] and c["last_line"] > c["first_line"]]
    for a, b in rng:
        idx = [i for i, t in enumerate(p.toks) if a <= t.line <= b]
        if not idx:
            continue
        ts = [p.toks[i] for i in idx]
        if any(t.kind == "pp" or (t.kind == "cmt" and t.text.startswith("//")) or t.endline != t.line for t in ts):
            continue
        if idx != list(range(idx[0], idx[-1] + 1)):
            continue
        # whole lines only
        if any(t.line == a for t in p.toks[:idx[0]]) or any(t.line == b for t in p.toks[idx[-1] + 1:]):
            continue
        spans.append((idx[0], idx[-1]))
    return spans


Prog.join_spans = _join_spans

COMMENT_LINES = {"blank": "", "line-comment": "// xq note", "block-comment": "/* xq note */"}


def rewrites_B(p):
    for l in p.stmt_boundaries():
        for kind, s in COMMENT_LINES.items():
            yield Rewrite("B", "insert-%s@%d" % (kind, l), p.join(p.lines[:l - 1] + [s] + p.lines[l - 1:]))
    bset = set(p.stmt_boundaries())
    for l in range(1, len(p.lines) + 1):
        kind = "blank" if p.is_blank(l) else "comment" if p.is_comment_line(l) else None
        if kind is None or l not in bset:
            continue
        # the line after must also start at a statement boundary (or be the end of the file)
        if l < len(p.lines) and (l + 1) not in bset:
            continue
        yield Rewrite("B", "delete-%s@%d" % (kind, l), p.join(p.lines[:l - 1] + p.lines[l:]))


def rename_maps(ids):
    """three total injective renamings; none maps onto a keyword, a library name or another (old or new) name."""
    taken = set(ids) | KEYWORDS | LIBNAMES
    maps = {}
    m = {x: x + "_renamed_lng" for x in ids}
    maps["longer"] = m
    m = {}
    for k, x in enumerate(ids):
        m[x] = "z%d" % k
    maps["shorter"] = m
    m = {}
    for x in ids:
        y = x.swapcase()
        if y == x or len(y) == 1 or y in taken or y in m.values():
            y = y + "_C"
        if y[0] == "_" and (y[1:2].isupper() or y[1:2] == "_"):     # reserved for the implementation
            y = "c" + y
        m[x] = y
    maps["case"] = m
    for nm, m in maps.items():
        vals = list(m.values())
        assert len(set(vals)) == len(vals) and not (set(vals) & taken), (nm, m)
    return maps


def rewrites_R(p):
    ids = user_ids(p.toks, p.keep)
    if not ids:
        return
    for nm, m in rename_maps(ids).items():
        out, pos = [], 0
        for t in p.toks:
            out.append(p.text[pos:t.off])
            out.append(m.get(t.text, t.text) if t.kind == "id" else t.text)
            pos = t.off + len(t.text)
        out.append(p.text[pos:])
        yield Rewrite("R", nm, "".join(out), ren=m)


def linear_extensions(n, before):
    """all permutations of range(n) (lexicographic) in which i precedes j for every (i, j) in before."""
    pred = {j: set() for j in range(n)}
    for i, j in before:
        pred[j].add(i)

    def rec(done, doneset):
        if len(done) == n:
            yield tuple(done)
            return
        for k in range(n):
            if k not in doneset and pred[k] <= doneset:
                done.append(k)
                doneset.add(k)
                yield from rec(done, doneset)
                done.pop()
                doneset.discard(k)
    yield from rec([], set())


def _apply_perm(p, movable, perm, name):
    """movable: ascending list of (first_line, last_line) slots; slot k receives old chunk perm[k]."""
    n = len(movable)
    out, tokperm = [], []
    pos = 1
    for slot, (a, b) in enumerate(movable):
        out.extend(p.lines[pos - 1:a - 1])
        sa, sb = movable[perm[slot]]
        out.extend(p.lines[sa - 1:sb])
        pos = b + 1
    out.extend(p.lines[pos - 1:])
    # code-token permutation: new order of old code-token indices
    where = {}
    for k, (a, b) in enumerate(movable):
        for l in range(a, b + 1):
            where[l] = k
    groups = {k: [] for k in range(n)}
    seq = []        # items: ('t', idx) or ('slot', k)
    seen_slot = set()
    for idx, t in enumerate(p.code):
        k = where.get(t.line)
        if k is None:
            seq.append(("t", idx))
        else:
            groups[k].append(idx)
            if k not in seen_slot:
                seen_slot.add(k)
                seq.append(("slot", k))
    for kind, v in seq:
        if kind == "t":
            tokperm.append(v)
        else:
            tokperm.extend(groups[perm[v]])
    return Rewrite("O", name, p.join(out), perm=tokperm)


def rewrites_O(p, limit=None):
    """every legal permutation of the top-level definitions and (generated files) of the block of forward
    declarations; separating blank/comment lines keep their place."""
    if p.gen_chunks is not None:
        # groups: "D" = definitions, "P" = prototypes / forward declarations; each group is permuted on its own,
        # plus one joint rewrite that applies the last legal permutation of both groups at once
        last = {}
        for g in ("D", "P"):
            movable = [(a, b) for a, b, grp in p.gen_chunks if grp == g]
            n = len(movable)
            if n < 2:
                continue
            cnt = 0
            for perm in linear_extensions(n, p.gen_after.get(g, [])):
                if perm == tuple(range(n)):
                    continue
                if limit is not None and cnt >= limit:
                    break
                cnt += 1
                last[g] = perm
                yield _apply_perm(p, movable, perm, "perm-%s-%s" % (g, "".join(str(x) for x in perm)))
        if len(last) == 2:
            slots = sorted([(a, b, grp) for a, b, grp in p.gen_chunks if grp in last])
            idx = {g: [k for k, s in enumerate(slots) if s[2] == g] for g in last}
            perm = list(range(len(slots)))
            for g in last:
                for k, src in zip(idx[g], last[g]):
                    perm[k] = idx[g][src]
            yield _apply_perm(p, [(a, b) for a, b, _ in slots], perm, "perm-DP-last-of-both")
        return
    ch = p.lex_chunks()
    if ch is None:
        return
    # whole lines, no shared lines
    used = {}
    for c in ch:
        for l in range(c["first_line"], c["last_line"] + 1):
            if l in used:
                return
            used[l] = c
    movable, before, defs = [], [], []
    seg = 0
    for c in ch:
        if c["pp"]:
            seg += 1
            continue
        c["seg"] = seg
        defs.append(c)
    for c in defs:
        movable.append((c["first_line"], c["last_line"]))
    for i, a in enumerate(defs):
        for j in range(i + 1, len(defs)):
            b = defs[j]
            if a["seg"] != b["seg"] or a.get("has_pp") or b.get("has_pp") or \
                    (a["uses"] & b["declared"]) or (b["uses"] & a["declared"]):
                before.append((i, j))
    n = len(movable)
    if n < 2:
        return
    cnt = 0
    for perm in linear_extensions(n, before):
        if perm == tuple(range(n)):
            continue
        if limit is not None and cnt >= limit:
            return
        cnt += 1
        yield _apply_perm(p, movable, perm, "perm-" + "".join(str(x) for x in perm))


# --------------------------------------------------------------------------------------------------------------
class Align:
    """Position map old program -> rewritten program, proven on the token sequences."""

    def __init__(self, p, rw):
        self.ok, self.why = True, ""
        try:
            newtoks = lex(rw.text)
        except LexError as e:
            self.ok, self.why = False, "rewritten text does not lex: %s" % e
            return
        nc = code(newtoks)
        oc = p.code
        perm = rw.perm if rw.perm is not None else range(len(oc))
        perm = list(perm)
        if len(nc) != len(oc) or sorted(perm) != list(range(len(oc))):
            self.ok, self.why = False, "token count differs (%d vs %d)" % (len(oc), len(nc))
            return
        ren = rw.ren or {}
        self.pos = {}           # (line, col) of old code token -> (line, col) of new
        self.span = []          # (line, col, endcol, newline, newcol) for in-token positions
        self.lines = {}         # old line -> sorted list of new lines
        for j, oi in enumerate(perm):
            o, nw = oc[oi], nc[j]
            exp = ren.get(o.text, o.text) if o.kind == "id" else o.text
            if nw.text != exp or nw.kind != o.kind:
                self.ok, self.why = False, "token %d: expected %r got %r" % (j, exp, nw.text)
                return
            self.pos[(o.line, o.col)] = (nw.line, nw.col)
            self.span.append((o.line, o.col, o.col + len(o.text), nw.line, nw.col))
            self.lines.setdefault(o.line, set()).add(nw.line)
        self.inv = {v: k for k, v in ren.items()}

    def loc(self, line, col):
        """new (line, col) candidates for an old location."""
        r = self.pos.get((line, col))
        if r is not None:
            return r
        for l, c0, c1, nl, ncol in self.span:
            if l == line and c0 <= col < c1:
                return (nl, ncol + (col - c0))
        return None
