"""Shared context for all property drivers: tiers, deadlines, violations, known findings, evidence."""
import json, os, sys, time, hashlib, threading

ROOT = os.path.dirname(os.path.dirname(os.path.abspath(__file__)))
_OUT = os.environ.get("VERIF_OUT", ROOT)     # seeded-defect runs redirect evidence/replays away from /verif
EVID = os.path.join(_OUT, "evidence")
REPLAYS = os.path.join(_OUT, "replays")
KNOWN = os.path.join(ROOT, "known_findings.json")
NCPU = int(os.environ.get("VERIF_JOBS", str(os.cpu_count() or 4)))


def canon(o):
    return json.dumps(o, sort_keys=True, separators=(",", ":"), ensure_ascii=True, default=str)


def sha(o):
    if not isinstance(o, (bytes, bytearray)):
        o = canon(o).encode()
    return hashlib.sha256(o).hexdigest()[:16]


_LIVE = []      # live contexts; vlib.build extends their deadlines by the time a (re)build took


class Ctx:
    def __init__(self, pid, tier, level, budget_s, replay=None):
        self.pid = pid
        self.tier = tier
        self.level = level
        self.seed = int(os.environ.get("VERIF_SEED", "0") or 0)
        self.t0 = time.time()
        self.budget_s = float(os.environ.get("VERIF_BUDGET_S", budget_s))
        self.deadline = self.t0 + self.budget_s
        self.replay = replay
        _LIVE.append(self)
        self.nviol = 0          # new (unlisted) violations
        self.known_hits = {}    # key -> count
        self.cov = {}
        self.samples = []
        self.assumptions = []
        self.notes = {}
        self.capped = False
        self._lock = threading.Lock()
        self._distinct = set()
        self.evaluations = 0
        try:
            self.known = [k for k in json.load(open(KNOWN))["findings"] if k["property"] == pid]
        except FileNotFoundError:
            self.known = []

    # ---- time -------------------------------------------------------------------------------------
    def time_left(self):
        return self.deadline - time.time()

    def expired(self):
        if time.time() > self.deadline:
            self.capped = True
            return True
        return False

    # ---- coverage accounting ---------------------------------------------------------------------
    def count(self, n=1):
        with self._lock:
            self.evaluations += n

    def distinct(self, key):
        """Register a non-trivial case by canonical key; counted once."""
        with self._lock:
            self._distinct.add(key if isinstance(key, str) else sha(key))

    def sample(self, s, maxn=6):
        with self._lock:
            if len(self.samples) < maxn:
                self.samples.append(s)

    def bump(self, k, n=1):
        with self._lock:
            self.cov[k] = self.cov.get(k, 0) + n

    # ---- violations ------------------------------------------------------------------------------
    def violation(self, key, what, artefact):
        """key: canonical class of the failing input/history (string). Listed known finding => reported
        once as KNOWN-FINDING; otherwise a replay file is written and a VIOLATION line printed."""
        with self._lock:
            for k in self.known:
                if k.get("status") == "known" and k["key"] == key:
                    n = self.known_hits.get(key, 0)
                    self.known_hits[key] = n + 1
                    if n == 0:
                        print("KNOWN-FINDING: property=%s %s" % (self.pid, k["what"]), flush=True)
                    return False
            self.nviol += 1
            if self.nviol > int(os.environ.get("VERIF_MAX_ARTEFACTS", "25")):   # enough artefacts; keep counting
                return True
            os.makedirs(REPLAYS, exist_ok=True)
            path = os.path.join(REPLAYS, "%s-%s.json" % (self.pid, sha([key, artefact])))
            with open(path, "w") as f:
                json.dump({"property": self.pid, "key": key, "what": what, "artefact": artefact}, f, indent=1,
                          default=str)
            print("VIOLATION property=%s replay=%s" % (self.pid, path), flush=True)
            print("  what: %s" % what[:600], flush=True)
            return True

    # ---- evidence --------------------------------------------------------------------------------
    def finish(self, rule, extra=None, exhaustive=None):
        cov = dict(self.cov)
        cov.setdefault("evaluations", self.evaluations)
        cov.setdefault("distinct_nontrivial", len(self._distinct))
        cov["rule"] = rule
        cov["samples"] = self.samples or ["(no sample recorded)"]
        if exhaustive is None:
            exhaustive = not self.capped
        cov["exhaustive"] = bool(exhaustive) and not self.capped
        cov["deadline_hit"] = self.capped
        cov["known_findings_hit"] = {k: v for k, v in self.known_hits.items()}
        if extra:
            cov.update(extra)
        ev = {"property_id": self.pid, "tier": self.tier, "seed": self.seed, "level": self.level,
              "coverage": cov, "assumptions": self.assumptions, "wall_s": round(time.time() - self.t0, 2),
              "violations": self.nviol}
        if self.replay is None:
            os.makedirs(EVID, exist_ok=True)
            tmp = os.path.join(EVID, self.pid + ".json.tmp%d" % os.getpid())
            with open(tmp, "w") as f:
                json.dump(ev, f, indent=1, default=str)
            os.replace(tmp, os.path.join(EVID, self.pid + ".json"))
        print("%s tier=%s evaluations=%s distinct=%s exhaustive=%s violations=%d known=%d wall=%.1fs" % (
            self.pid, self.tier, cov.get("evaluations"), cov.get("distinct_nontrivial"), cov["exhaustive"],
            self.nviol, len(self.known_hits), time.time() - self.t0), flush=True)
        return 1 if self.nviol else 0


def pmap(fn, items, jobs=None):
    """Ordered parallel map with threads (work is subprocess-bound)."""
    from concurrent.futures import ThreadPoolExecutor
    jobs = jobs or NCPU
    with ThreadPoolExecutor(max_workers=jobs) as ex:
        for r in ex.map(fn, items):
            yield r
