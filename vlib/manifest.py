"""Generate /verif/MANIFEST.json from the table below (python3 -m vlib.manifest)."""
import json, os, importlib

ROOT = os.path.dirname(os.path.dirname(os.path.abspath(__file__)))

# id -> (category, design_ref, technique, text, note)
CHECKS = {}


def reg(pid, category, technique, text, note, thorough=True):
    CHECKS[pid] = dict(category=category, technique=technique, text=text, note=note, thorough=thorough)


reg("C12", "exploration",
    "bounded-exhaustive enumeration of all conditional forests (small-scope model checking of the configuration selector against the property's own rule)",
    "Every conditional forest with <=2 (quick) / <=3 (thorough) guards over 4 directive forms, else/no-else, all nestings, sibling orders and "
    "macro-name permutations is run through the real binary under every option set of {bare, --max-configs 1/2/12, --force, -D X, -U X, -D X -U Y}; "
    "the oracle is the statement's rule (every analysed configuration defines X / none does; every region analysed when #regions <= max-configs).",
    "Small-scope hypothesis: forests with more guards are not covered. 'number of guard combinations' is over-approximated by the number of regions, "
    "so coverage is only demanded when even that bound fits --max-configs. Trusted: the 40-line forest printer and region-condition computation.")


reg("C15", "model_checking",
    "stateless deviation-bounded schedule exploration (CHESS-style) of the real thread and process executors under an LD_PRELOAD scheduler, differential against -j1",
    "Every schedule with <=1 deviation (quick; thorough: <=2 where the run has ~40 choice points, job counts 2 and 3) of the real "
    "ThreadExecutor / ProcessExecutor in the binary built from /repo is executed once per scenario (files colliding on duplicate filter, "
    "inline/global suppressions, shared headers, odd bytes, syntax errors, build dir) and its findings multiset, unmatchedSuppression reports "
    "and exit status are compared with the real -j1 run.",
    "Scheduling points are synchronisation operations (mutex lock, create, join, once, static guard, thread exit; select/waitpid/large read for "
    "processes); data races between them are C16's job. Trusted: native/vsched.c (scheduler) and the XML parser.")
reg("C16", "model_checking",
    "stateless preemption-bounded schedule exploration of the real thread executor on a ThreadSanitizer build; TSan happens-before as per-schedule oracle",
    "All schedules with <=1 preemption (quick; <=2 thorough) of the real thread executor are run on the tsan variant; the scheduler serialises "
    "threads with raw futexes in an uninstrumented library so TSan's vector clocks contain only the program's own synchronisation and it reports "
    "unordered conflicting accesses on every enumerated schedule, not only those that physically overlap.",
    "Sequential consistency; races are judged by TSan's happens-before on the enumerated schedules. Trusted: g++ libtsan, native/vsched.c.")
reg("C17", "model_checking",
    "exhaustive enumeration of file sequences analysed in one run of the real binary (explicit-state over histories), differential against single-file runs",
    "All ordered sequences (no repetition) of <=3 (quick) / <=4 (thorough) files from a 13-letter alphabet aimed at per-file state of the reused "
    "analyzer object are analysed in one run; the result must equal the first-occurrence-deduplicated concatenation of single-file runs "
    "(plain concatenation with --emit-duplicates).",
    "Small alphabet; whole-program ids projected out. Trusted: XML parser, concatenation rule.")
reg("C18", "model_checking",
    "breadth-first explicit-state search over edit histories with the real binary as transition function, state = canon(workspace, build dir)",
    "BFS to depth 2 (quick) / 3 (thorough) over 18 edits (token, line/column shifts by 1 and 256, comments, header edits, add/remove/rename files, "
    "same-basename file, swap, suppress comment, noreturn callee, reorder) x job counts; after every transition the cached run must equal the "
    "fresh run; violations are delta-minimised to the shortest failing history.",
    "States are replayed from history on a fresh workspace; equality of state keys merges histories. Trusted: XML parser.")
reg("C19", "model_checking",
    "exhaustive enumeration of option-set histories sharing one build directory with the real binary, differential against fresh runs",
    "All histories of length <=2 (quick) / <=3 (thorough, -j1 and -j2) over 21 option sets on a workspace where every listed option changes a "
    "finding; each run must equal the fresh run with the same options.",
    "Fixed workspace; trusted: XML parser. Known finding: checkersReport count (see known_findings.json).")
reg("C21", "fault_enumeration",
    "exhaustive fault-plan x schedule enumeration on the real process executor (worker kill points injected by LD_PRELOAD, parent schedules explored)",
    "For every crashing worker x message boundary x crash kind (5), all pairs and all-workers plans (thorough: also positions inside a message, "
    "-j3), every parent schedule with <=1 deviation is executed; oracle: termination, internal error naming the file, other files' findings "
    "unchanged, exit status 7.",
    "Crash = kill immediately before the k-th write to the result pipe or at exit. Trusted: native/vsched.c.")

reg("C22", "exploration",
    "bounded-exhaustive enumeration of multi-file call-chain programs, 3-way differential (in-memory vs build-dir -j1 vs build-dir -j2) on the real binary",
    "All call chains top->f1->..->sink of length <=2 (quick) / <=3 (thorough) x every placement into <=3 files x argument kinds x sink kinds x "
    "pass-through forms x C/C++ (with conflicting struct definitions, unused and cross-file-used functions) are analysed in the three storage "
    "modes; finding multisets (whole-program ids included) and exit status must be equal.",
    "Small grammar; reference is the same binary's in-memory whole-program analysis. Known finding: staticFunction is never produced from stored summaries.")

ALL = ["C%02d" % i for i in range(1, 37)]


def main():
    checks = []
    for pid in ALL:
        if pid not in CHECKS or not os.path.exists(os.path.join(ROOT, "props", pid + ".py")):
            continue
        c = CHECKS[pid]
        e = {"property_id": pid,
             "quick_cmd": "./check %s --tier quick" % pid,
             "evidence_file": "evidence/%s.json" % pid,
             "replay_cmd_template": "./check %s --replay {path}" % pid,
             "engine": "vlib",
             "level_claimed": {"category": c["category"], "text": c["text"], "design_ref": "DESIGN.md section 3, " + pid},
             "level_note": c["note"],
             "technique": c["technique"]}
        if c["thorough"]:
            e["thorough_cmd"] = "./check %s --tier thorough" % pid
        checks.append(e)
    na = [{"property_id": pid, "reason": "check not built yet at this commit (design in DESIGN.md section 3; the technique applies)"}
          for pid in ALL if pid not in [c["property_id"] for c in checks]]
    m = {"version": 1,
         "setup_cmd": "python3 -m vlib.setup",
         "hooks": {"guard": "DANMAR_CPPCHECK_VERIF",
                   "enable": "every variant under /verif/build is compiled with -DDANMAR_CPPCHECK_VERIF by vlib/build.py (cmake+ninja from /repo's working tree)",
                   "baseline_off_cmd": "cmake --build /repo/_build -j16 && ctest --test-dir /repo/_build -j8 --timeout 900",
                   "source_commits": ["5a71faf"],
                   "add_only": True},
         "engines": [{"name": "vlib", "path": "vlib/", "serves_properties": [c["property_id"] for c in checks],
                      "kind_free_text": "python drivers (props/Cxx.py) over: native/vsched.c (LD_PRELOAD deviation-bounded scheduler for the real "
                                        "thread/process executors), native/vshim.c (crash-point / environment shim), bounded enumerators and reference models"}],
         "checks": checks,
         "not_applicable": na,
         "notes": "All checks rebuild /repo's working tree into /verif/build/<variant> (ninja, incremental) before exploring. Known genuine defects: known_findings.json."}
    with open(os.path.join(ROOT, "MANIFEST.json"), "w") as f:
        json.dump(m, f, indent=1)
    print("MANIFEST.json: %d checks, %d not_applicable" % (len(checks), len(na)))


if __name__ == "__main__":
    main()
