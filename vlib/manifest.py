"""Generate /verif/MANIFEST.json from the table below (python3 -m vlib.manifest)."""
import json, os, importlib

ROOT = os.path.dirname(os.path.dirname(os.path.abspath(__file__)))

# id -> (category, design_ref, technique, text, note)
CHECKS = {}


def reg(pid, category, technique, text, note, thorough=True):
    CHECKS[pid] = dict(category=category, technique=technique, text=text, note=note, thorough=thorough)


reg("C12", "exploration",
    "bounded-exhaustive enumeration of all conditional forests (small-scope model checking of the configuration selector against the property's own rule)",
    "Every conditional forest with <=2 (quick) / <=3 (thorough) guards over 4 directive forms, else/no-else, all nestings, sibling orders and "
    "macro-name permutations is run through the real binary under every option set of {bare, --max-configs 1/2/12, --force, -D X, -U X, -D X -U Y}; "
    "the oracle is the statement's rule (every analysed configuration defines X / none does; every region analysed when #regions <= max-configs).",
    "Small-scope hypothesis: forests with more guards are not covered. 'number of guard combinations' is over-approximated by the number of regions, "
    "so coverage is only demanded when even that bound fits --max-configs. Trusted: the 40-line forest printer and region-condition computation.")


reg("C15", "model_checking",
    "stateless deviation-bounded schedule exploration (CHESS-style) of the real thread and process executors under an LD_PRELOAD scheduler, differential against -j1",
    "Every schedule with <=1 deviation (quick; thorough: <=2 where the run has ~40 choice points, job counts 2 and 3) of the real "
    "ThreadExecutor / ProcessExecutor in the binary built from /repo is executed once per scenario (files colliding on duplicate filter, "
    "inline/global suppressions, shared headers, odd bytes, syntax errors, build dir) and its findings multiset, unmatchedSuppression reports "
    "and exit status are compared with the real -j1 run.",
    "Scheduling points are synchronisation operations (mutex lock, create, join, once, static guard, thread exit; select/waitpid/large read for "
    "processes); data races between them are C16's job. Trusted: native/vsched.c (scheduler) and the XML parser.")
reg("C16", "model_checking",
    "stateless preemption-bounded schedule exploration of the real thread executor on a ThreadSanitizer build; TSan happens-before as per-schedule oracle",
    "All schedules with <=1 preemption (quick; <=2 thorough) of the real thread executor are run on the tsan variant; the scheduler serialises "
    "threads with raw futexes in an uninstrumented library so TSan's vector clocks contain only the program's own synchronisation and it reports "
    "unordered conflicting accesses on every enumerated schedule, not only those that physically overlap.",
    "Sequential consistency; races are judged by TSan's happens-before on the enumerated schedules. Trusted: g++ libtsan, native/vsched.c.")
reg("C17", "model_checking",
    "exhaustive enumeration of file sequences analysed in one run of the real binary (explicit-state over histories), differential against single-file runs",
    "All ordered sequences (no repetition) of <=3 (quick) / <=4 (thorough) files from a 13-letter alphabet aimed at per-file state of the reused "
    "analyzer object are analysed in one run; the result must equal the first-occurrence-deduplicated concatenation of single-file runs "
    "(plain concatenation with --emit-duplicates).",
    "Small alphabet; whole-program ids projected out. Trusted: XML parser, concatenation rule.")
reg("C18", "model_checking",
    "breadth-first explicit-state search over edit histories with the real binary as transition function, state = canon(workspace, build dir)",
    "BFS to depth 2 (quick) / 3 (thorough) over 18 edits (token, line/column shifts by 1 and 256, comments, header edits, add/remove/rename files, "
    "same-basename file, swap, suppress comment, noreturn callee, reorder) x job counts; after every transition the cached run must equal the "
    "fresh run; violations are delta-minimised to the shortest failing history.",
    "States are replayed from history on a fresh workspace; equality of state keys merges histories. Trusted: XML parser.")
reg("C19", "model_checking",
    "exhaustive enumeration of option-set histories sharing one build directory with the real binary, differential against fresh runs",
    "All histories of length <=2 (quick) / <=3 (thorough, -j1 and -j2) over 21 option sets on a workspace where every listed option changes a "
    "finding; each run must equal the fresh run with the same options.",
    "Fixed workspace; trusted: XML parser. Known finding: checkersReport count (see known_findings.json).")
reg("C21", "fault_enumeration",
    "exhaustive fault-plan x schedule enumeration on the real process executor (worker kill points injected by LD_PRELOAD, parent schedules explored)",
    "For every crashing worker x message boundary x crash kind (5), all pairs and all-workers plans (thorough: also positions inside a message, "
    "-j3), every parent schedule with <=1 deviation is executed; oracle: termination, internal error naming the file, other files' findings "
    "unchanged, exit status 7.",
    "Crash = kill immediately before the k-th write to the result pipe or at exit. Trusted: native/vsched.c.")

reg("C22", "exploration",
    "bounded-exhaustive enumeration of multi-file call-chain programs, 3-way differential (in-memory vs build-dir -j1 vs build-dir -j2) on the real binary",
    "All call chains top->f1->..->sink of length <=2 (quick) / <=3 (thorough) x every placement into <=3 files x argument kinds x sink kinds x "
    "pass-through forms x C/C++ (with conflicting struct definitions, unused and cross-file-used functions) are analysed in the three storage "
    "modes; finding multisets (whole-program ids included) and exit status must be equal.",
    "Small grammar; reference is the same binary's in-memory whole-program analysis. Known finding: staticFunction is never produced from stored summaries.")

reg("C31", "exploration",
    "bounded-exhaustive differential of PathMatch::match (in-process harness linked with the real objects) against a reference model written from the documented rule list, plus exhaustive small-tree / pattern-list enumeration through the real CLI",
    "All patterns of length <=4 (quick) / <=5 (thorough) over {a,b,.,/,*,?} x all paths of length <=5/<=6 over {a,b,.,/} x file modes x three base "
    "directories (1.3e7 / 3.1e8 pairs) are compared bit by bit with the reference; the real binary is run on a 49-file tree with every list of <=2 of 13 "
    "patterns as -i / --file-filter / both under 6 input spellings, on every tree of <=3/<=4 entries under different readdir orders, and with "
    "--suppress file patterns; selection, order, de-duplication and canonical reporting must equal the reference.",
    "Pairs the rule list does not determine (empty or root pattern, '..' past the start or after a glob) are counted, not judged. Extension list from "
    "--help. readdir order is controlled through tmpfs creation order. Trusted: vlib/ref_pathmatch.py. Four known findings.")
reg("C32", "exploration",
    "exhaustive enumeration of compilation-database entries, hundreds per run of the real binary, differential against shlex + a GCC option table cross-checked against the installed gcc",
    "Every ordered selection of <=2 (quick) / <=3 (thorough) of 21 option items x 3 compiler paths x 5 source-path forms x 6 entry forms, plus "
    "same-file entry pairs; one -v run and one -E run per 400 entries observe each entry's defines, undefines, ordered include paths, macro values "
    "and standard; all must equal the reference.",
    "-isystem optional; -fPIC/-fpie/-municode macros allowed; -D/-U relative order not judged; standard only judged when it matches the file's language. "
    "Trusted: the option table and shlex. Six known findings.")
reg("C26", "exploration",
    "bounded-exhaustive finding sets injected through a scripted addon (hundreds per run) plus real findings in hostile-named files, each report checked against a single-pass reference renderer, a RelaxNG-subset interpreter and a SARIF decoder",
    "For message, verbose, location info, file name and symbol each, every string of <=2 (thorough <=3) tokens over 14 characters plus the 12 template "
    "field names, and a structural core set, are pushed through the real StdLogger path with the default and 7 predefined templates, every single "
    "documented field, every field before/after {message} (thorough: ordered pairs and triples), template-location sets, -v, --output-file and duplicate "
    "filter on/off. Text must equal the reference byte for byte; XML must be well-formed, validate against cppcheck-errors.rng and decode field by "
    "field; SARIF must be valid UTF-8 JSON with one result per finding carrying ruleId, mapped level, message and locations.",
    "Small scope (<=3 tokens per text, one field varied at a time). Unspecified template behaviour is taken from cppcheck; checkersReport matched by "
    "shape. Trusted: reference renderer, RNG interpreter. Eight known findings.")
reg("C36", "exploration",
    "bounded-exhaustive enumeration of version-2 result files rendered in-process by cppcheck-htmlreport, every generated page parsed and compared with the XML itself",
    "Every results file with one finding over id x severity x inconclusive x cwe x 34 location shapes (6 file kinds incl. nonexistent, directory and "
    "undecodable source; lines 0/1/last/past end) x plain/markup message x source-dir modes, every message/info string of <=2 (thorough <=3) tokens over "
    "13 tokens, and every sequence of <=3 (thorough <=4) findings over a 10-finding alphabet is rendered by the real script; index and per-file pages "
    "must list each finding exactly once with file, line, id, severity and a message whose parsed text equals the original and contains no element.",
    "Small scope. Location info is accepted as annotation text; secondary-location annotations optional. Trusted: html.parser tree builder. Three known findings.")

reg("C20", "fault_enumeration",
    "exhaustive crash-point and torn-write enumeration from the recorded syscall trace of the real run, bound to the implementation by full-trace replay and real SIGKILLs",
    "For the pre-states {empty, complete run on the same inputs, complete run on older inputs} the mutating-syscall trace of the real run with "
    "--cppcheck-build-dir is recorded with strace; every prefix (and byte-prefixes of cache-file writes: every 7th offset for the re-written cache "
    "files in quick, every offset in thorough) is materialised and the complete command run on it; it must equal the run without build dir. Binding: "
    "the full replay must reproduce the real final directory and really killed runs (strace signal injection) must leave an enumerated state.",
    "Process-kill model (completed syscalls persist); -j1 traces only. Trusted: strace output parser and the 60-line replayer (validated each run).")
reg("C29", "model_checking",
    "exhaustive enumeration of the environment's answers (heap layout via an LD_PRELOAD allocator, ASLR, environment size, readdir order) over a corpus, byte-level differential",
    "Every input of the corpus (samples/*/bad.c*, multi-scope programs; thorough: test/cfg std.c std.cpp posix.c) x job counts x every combination of "
    "allocator {glibc, bump-down (reverses address order), bump-up, pad16, pad4096} x ASLR {on, off} (x environment size in thorough) must give "
    "byte-identical findings in identical order and identical --dump after id renaming (multiset for -j2); every creation order of a 4-file tree (tmpfs "
    "readdir order) must give identical output and files.txt.",
    "Corpus-bound on the input axis, exhaustive on the environment axis. Trusted: native/valloc.c, id normaliser.")
reg("C23", "exploration",
    "bounded-exhaustive enumeration of the suppression x finding product against a documentation-derived reference model, batched in independent cells",
    "Every element of {7 id patterns} x {21 file patterns} x {4 line classes} x {5 symbol classes} for 3 target findings through --suppress= / "
    "--suppressions-list / --suppress-xml with relative and absolute inputs, every inline form of the manual (1857 functions and files), all bracket lists of length 1..3 "
    "over {3 ids} x {4 symbolName classes} per element in the plain, begin/end, macro, file and header forms, and the same "
    "entries as exitcode-suppressions is run through the real binary; reported set == unsuppressed findings minus those vlib/ref_suppress.py hides.",
    "Small scope: one suppression per cell; single-location findings; (absolute pattern, relative file) unconstrained because the base path is "
    "undocumented; invalid syntax only 'must not hide silently'. Trusted: ref_suppress.py, supcells.py. Three known findings.")
reg("C24", "exploration",
    "pairwise exhaustive enumeration of suppression classes against rules R1-R5, differential single/thread/process, plus deviation-bounded schedules",
    "All singles and pairs over 21 command-line/XML and 15 inline suppression classes and 10 id-only ids, each under three executors; R1-R5 decided by "
    "bipartite matching of reports to suppressions; report multisets equal across executors; scheduler shim default schedule (quick) / bound 1 (thorough).",
    "R3 deliberately minimal (id:file:line, symbol, -file/-macro, header-only patterns: R1/R2 only). C15 covers schedules in general. Two known findings.")
reg("C25", "exploration",
    "complete enumeration of the option lattice with the statement as oracle on the run's own output",
    "inputs(11) x error-exitcode{absent,0,1,7} x exitcode-suppressions(4) x executor(3) x format(2) + cached replay (second run on a build dir) + 10 "
    "invalid command lines; status == exitcode iff a reported finding (checkersReport excluded) is not matched by an entry (C23 reference), else 0; "
    "invalid => 1; plus 6 inputs whose only finding is staticFunction / unusedFunction / ctunullpointer / ctuuninitvar / ctuArrayIndex / "
    "ctuOneDefinitionRuleViolation x {single without build dir; single, thread -j2, process -j2 with build dir, fresh and cached run}.",
    "Default schedules only (C15/C21 explore them); --safety excluded by the statement. One known finding.")
reg("C30", "exploration",
    "bounded-exhaustive enumeration of <valid> expressions against a reference interpretation of the cfg manual (in-process seam + real binary), plus complete single-edit mutation neighbourhood of a schema-covering seed cfg under ASan/UBSan",
    "Every <valid> list with 1-2 items (72 items over 9 integer, negative and float bounds) and 3-item lists (quick: 30 items; thorough: all) is evaluated for "
    "all integer arguments -4..12 and float arguments on a 0.25 grid through Library::isIntArgValid/isFloatArgValid of the tree's objects; every 1-2 item "
    "list x 31 constants goes through the real binary; not-null / not-bool forms; every single-edit (thorough: two-edit) mutant of a seed cfg holding "
    "every element and attribute of cppcheck-cfg.rng, and every shipped cfg, loads to OK-or-error under ASan+UBSan.",
    "Small scope; reversed ranges and !v not judged; load mutants are structural edits of one seed. Trusted: 20-line reference predicate, harness. "
    "Known findings: int/float item mixing, load crashes on empty text / non-integer attributes (one key per element path).")
reg("C34", "exploration",
    "bounded-exhaustive enumeration of scripted addon outputs (stub addon via the executable key) through the real binary, judged by a reference relay model",
    "All outputs of <=2 lines over 59 line kinds for the per-file and the whole-program invocation x exit {0,1,139} x --enable x suppression x build dir "
    "{no, fresh, cached} x executor {single, thread -j2, process -j2} (quick: single lines, valid-result pairs, full configuration product on one "
    "representative output); malformed kinds also on the ASan+UBSan binary. Oracle: no crash/hang/sanitizer report; every enabled, unsuppressed "
    "well-formed result exactly once with id, severity, message, locations; summaries reach the whole-program stage.",
    "Judged severities: error..information. Thorough is deadline-capped. Trusted: stub, 60-line expectation function. One known finding.")

reg("C05", "exploration",
    "bounded-exhaustive metamorphic checking: all combinations of finding-triggering building blocks plus samples/ x all rewrites of four finite families, token-level proof of each rewrite, many variants per run of the real binary",
    "Every program of the corpus (all <=2-block (quick) / <=3-block (thorough) combinations of 27 blocks as C/C++ files with <=5 permutable top-level "
    "definitions, + 30 sample files) is rewritten by EVERY member of W (indentation, one token per line, joined definitions, CRLF), B (blank / // / "
    "/* */ line at each statement boundary, deletion of each blank/comment line), R (3 total renamings) and O (every legal permutation); findings of "
    "rewrite(P) must equal those of P under the rewrite's own location / 'line N' / name map.",
    "Small scope. Excluded by the property text: suspiciousSemicolon for W/B (documentation quoted in evidence). Known: certainty of "
    "duplicateBreak/unreachableCode depends on a line between the statements. Trusted: 60-line lexer and re-lex alignment proof.")
reg("C06", "exploration",
    "bounded-exhaustive metamorphic checking over abstract programs printed in all expansion masks; findings and --dump value facts compared on token-aligned using code",
    "All placeholder sets (|S|<=2 of typedef/using x 8 types, #define x 4 values, SQ(x), id<T> x 5, Box<T> x 5) x all lists of <=2 (quick) / <=3 "
    "(thorough) of 7 value-relevant use positions; each pair of forms differing in ONE expansion must give equal findings on the using code modulo the "
    "line offset and equal Known/Impossible facts on every aligned token.",
    "One typedef/alias/macro/template shape each; straight-line uses; facts inside the expansion ignored as the statement says. 20 known classes "
    "(macro/typedef suppressions by design, sizeof of using-array alias, cosmetic expressionString differences).")
reg("C08", "exploration",
    "bounded-exhaustive enumeration of scope-grammar and overload programs, differential against clang's JSON AST, hundreds of programs per run",
    "All trees of <=3 scopes plus all 4-scope chains (thorough: all 4-scope programs, then 5-scope until the deadline) over 9 scope kinds x declaration "
    "variants x all use forms, with and without a global x, C subset as C; all overload sets of size <=3 of 12 parameter lists x 12 arguments; all two-parameter overload sets (<=3 over 16 "
    "lists plus size 4 over 9 lists; thorough <=4 over 16) x 25 argument pairs. Every "
    "linked use or call must name clang's declaration; distinct clang declarations never share a varId.",
    "Small-scope; one variable name throughout; unlinked uses not judged. Trusted: clang 14, byte-offset position mapping. Six known findings.")
reg("C11", "exploration",
    "bounded-exhaustive enumeration of a preprocessing grammar, differential against gcc -E as a conforming reference, many renamed independent units per process",
    "Every unit of Gpp (1-2 macro definitions from 38 forms incl. #, ##, variadic, self/mutual reference x 15 use forms; 9 #if/#ifdef forms x "
    "else/elif, nested once; 13 #include forms via -I / forced include) under all 48 non-contradictory subsets of {-DA,-DA=2,-DB=A,-UA,-Iinc,"
    "--include=pre.h}: pp-token sequence of cppcheck -E == that of gcc -E -P -undef -nostdinc; quick 463k, thorough 3.5M (unit,config) pairs.",
    "Small-scope; no __FILE__/__LINE__/__COUNTER__/GNU extensions/__VA_OPT__. Units gcc rejects are not judged. Disagreements reported per minimal "
    "class (a new defect confined to already-disagreeing inputs of the same category would be masked). 12 known keys from 5 root causes.")
reg("C13", "exploration",
    "bounded-exhaustive enumeration of complete input families with an in-process ASan+UBSan crash/hang oracle and fork-isolated blocks",
    "Every token string of <=3 (thorough <=5, deadline) tokens over a 24-token alphabet in 3 contexts, C and C++; every byte string of <=1 byte, 2-byte "
    "strings with one arbitrary byte (thorough: all) and <=3 (thorough 4) bytes over a 20-byte lexer alphabet; the complete single-edit neighbourhood "
    "of the 129 files of fuzz-crash, fuzz-crash_c, fuzz-timeout and samples; all analysed in-process (CppCheck::checkBuffer + whole-program stages, "
    "CmdLineParser-made Settings, std.cfg) under 4 option sets. Oracle: no signal, no sanitizer report, no escaping exception, CPU-time watchdog.",
    "Small-scope; quick is deadline-cut on a busy machine (evidence says exhaustive:false and how far it got). Hang verdict needs 5x the CPU limit when "
    "re-run alone. Leaks not judged. Trusted: harness equivalence with the -j1 client path. Two known findings.")
reg("C14", "exploration",
    "bounded-exhaustive input enumeration with an independent dump-graph checker and differential against the shipped cppcheckdata.py",
    "All token strings of length <=3 (thorough 4) in function and class context as C and C++; template-alphabet strings of length <=2 (thorough 3); all "
    "single-byte substitutions of 3 seeds; the <=3-scope corpus; samples/ and test/cfg/. Ids unique, every reference resolves by kind, links form a "
    "properly nested involution, the AST is a forest, and cppcheckdata yields the same graph.",
    "Acceptance means a <dump> element was emitted. Crashes and hangs recorded but not judged here. One known finding (overriddenFunction in cppcheckdata.py).")
reg("C27", "exploration",
    "exhaustive option-lattice exploration (64 option sets x trigger corpus) with a gating and covering-edge monotonicity oracle",
    "All 64 option sets for each group (samples, handmade triggers, snippet files selected per finding kind from all 12.8k extracted test snippets - "
    "thorough: all snippets and all test/cfg files with their library): (a) a gated severity is reported only if it is in the enabled closure and "
    "inconclusive only with --inconclusive; (b) exact finding records only grow along all covering edges, and are equal for equal closures.",
    "Only as strong as the trigger corpus. checkersReport count normalised. unusedFunction/missingInclude switches not varied. 24 known keys.")
reg("C28", "exploration",
    "observation closure: ids of all findings over a fixed exhaustively processed corpus must be a subset of the ids of --errorlist, many files per process",
    "ids observed over samples, test/cfg with libraries, the fuzz-crash / fuzz-timeout corpora, 12.8k extracted test snippets (thorough: also as C and "
    "with --check-level=exhaustive) and 38 hand-made preprocessor/tokenizer triggers, with --enable=all --inconclusive; 330 of 342 errorlist ids exercised.",
    "THE CHECK IS ONLY AS STRONG AS ITS CORPUS: ids that no input triggers are not judged. Library <warn> ids and run-level ids are outside the claim. 30 known ids.")
reg("C33", "exploration",
    "3-way differential over an exhaustive product of per-item distinguishing token sets: matchcompiler.py output vs the interpreter of the USE_MATCHCOMPILER=Off build vs the doc-comment language",
    "Every distinct pattern literal matchcompiler.py extracts from lib/*.cpp (2261) plus all generated patterns of <=2 items over a 53-item vocabulary "
    "and all 3-item patterns over a reduced vocabulary, each evaluated on all token lists of length 0..k+1 over the distinguishing sets (full product to "
    "a node cap, else <=2 deviations), in 4 language/standard modes, on real Token objects; findmatch with every end position; plain and mcoff clients "
    "compared on samples/ and 6 test/cfg files.",
    "Distinguishing sets are finite representatives; cases the doc comment does not decide are compared compiled vs interpreted only. Three known findings.")
reg("C35", "exploration",
    "bounded-exhaustive program enumeration through --clang --dump on the ASan+UBSan build, with the C14 invariants and clang's own references as oracle",
    "Scope corpus with <=3 scopes (thorough: plus 4-scope chains), all 1-operator expression functions (thorough: 2-operator), 319 one-kind / one-feature translation units "
    "(one per clang statement / expression / declaration kind, each its own file), as C and C++. No crash or sanitizer report; where no internal error is reported, the dump invariants hold and every linked use names clang's declaration.",
    "Import token positions are approximate, so judging is conservative. Internal errors are exempt as the statement says.")

reg("C07", "exploration",
    "bounded-exhaustive enumeration of expression trees with a minimal-parenthesis and a full-parenthesis printer, column-exact isomorphism of the dump's AST with the generating tree, printer refereed by clang's AST",
    "All trees with <=2 operator nodes over the full operator alphabet (quick; thorough adds all trees with 3 nodes over precedence-class "
    "representatives, 72,441 trees) x {C, C++} x {expression statement, return operand} x {minimal, full parentheses} are dumped by the real binary; "
    "every operator token must have exactly the generating tree's operands, the same in both printings; minimal printings are confirmed by clang's own AST.",
    "Small-scope (n<=3); cppcheck's representation conventions and two value-preserving tokenizer normal forms are accepted; rejected expressions are "
    "counted; 18 known defect classes; the thorough tier is exhaustive only if it finishes in its budget.")
reg("C09", "exploration",
    "exhaustive enumeration of typed expressions, differential against compilers via batch static assertions per target",
    "All (T1 op T2) over 18 types x 30 binary operators, ?:, unary, ++/--, sizeof, casts, subscripts and suffixed literals x {C, C++} x 5 platforms "
    "(quick; 11 thorough): the valueType of the root token must be the type gcc / gcc -m32 / clang --target gives, judged by one compiler run per 2000 expressions.",
    "Judges base type, sign and pointer depth only; plain-char sign, enum, char16_t/char32_t judged through underlying types; compiler-rejected "
    "expressions and untyped tokens are counted; XML platforms only where a clang target has identical sizes; 11 known rule-level classes.")
reg("C10", "exploration",
    "exhaustive enumeration of literal spellings and constant expressions, differential against compilers per target including generated platform XML files",
    "Every literal spelling of the list (21 values x 5 bases x 14 suffixes x separators; character literals x prefixes; multi-character; floating "
    "forms) and every sizeof, cast and constant expression x {C, C++} x 7 platforms (quick; 16 thorough, 5 of them platform files generated from clang "
    "targets): the Known value on the root token must satisfy a sign-and-magnitude static assertion for that target.",
    "Floating values decidable only to 1e-11 relative (12 printed digits), judged by g++; UB expressions screened out; tokens without a Known value are counted; 12 known classes.")

reg("C01", "exploration",
    "bounded-exhaustive enumeration of small C/C++ functions with a program-execution oracle (compiled with value probes, UBSan trap mode plus ASan, every input vector executed)",
    "Every function of grammar G1 (9 families: typed constant folding; parameters x operators x casts; condition shapes; narrow-type assignments, "
    "compound assignments and ++/--; loops, switch; alias, array, struct, global, callee; symbolic relations; a C++ pass with references and a template "
    "callee) is analysed by cppcheck --dump and executed on the full finite input domain (<=100 vectors). Every Known / Impossible integer fact and "
    "every evaluable symbolic fact on an r-value occurrence must hold at every evaluation of every sanitizer-clean execution. Quick: 13k functions.",
    "Small-scope. Possible / conditional / indirect / path facts, lvalue and declaration tokens are not judged. 20 known defect classes (integer "
    "conversion and wrap-around, _Bool, ||, % negative, ?: with ||, reference alias, symbolic kill). Trusted: AST printer, probe macros, fact "
    "interpreter, gcc as semantics.")
reg("C02", "exploration",
    "bounded-exhaustive enumeration of container-operation sequences with a program-execution oracle in C++ (libstdc++, probes logging size())",
    "Every function of grammar G2 (construction forms x all sequences of <=k container operations) over vector, string, deque, list, set and array "
    "is executed on n in {0..3} x t in {0,1}; size() at every container-variable occurrence must satisfy every Known / Impossible container-size fact there.",
    "Iterator, moved and symbolic container facts are not judged. Thorough is deadline-capped. One known class (std::set uniqueness).")
reg("C03", "exploration",
    "bounded-exhaustive enumeration of condition shapes with a program-execution oracle on the full input domain",
    "Every function of grammar G3 on two int parameters in {-2..3}, all 36 vectors: atom pairs x 9 two-condition shapes x modifiers; single conditions "
    "after constants, in loops, as arguments; narrow-type, bit-mask and modulo comparisons; thorough adds 7 three-condition shapes. Every verdict of 13 "
    "ids whose message asserts a truth value for a located expression must equal the value observed at every evaluation.",
    "Non-claim ids are counted, not judged; no --inconclusive. Three known classes.")
reg("C04", "exploration",
    "bounded-exhaustive enumeration with a program-execution oracle plus exact allocation accounting and shadow init flags",
    "Arithmetic, index, null and uninit families on the full domain, plus all straight-line resource programs with <=3 (quick) / <=4 (thorough) "
    "operations over two pointers in C and C++. An error-severity, non-inconclusive finding of the definite-UB set is refuted iff its expression is "
    "evaluated in a sanitizer-clean execution (Known blamed value) or no execution with any sanitizer event reaches it (Possible blamed value); leak, "
    "double-free, use-after-free and mismatch findings are refuted iff the single execution is clean per accounting.",
    "deallocret, memleakOnRealloc and non-sanitizer-visible ids are not judged. Three known classes.")

ALL = ["C%02d" % i for i in range(1, 37)]


def main():
    checks = []
    for pid in ALL:
        if pid not in CHECKS or not os.path.exists(os.path.join(ROOT, "props", pid + ".py")):
            continue
        c = dict(CHECKS[pid])
        # the level a driver writes into its evidence file is authoritative: read it from the driver source
        import re as _re
        src = open(os.path.join(ROOT, "props", pid + ".py")).read()
        m = _re.search(r'Ctx\(\s*"%s"\s*,\s*tier\s*,\s*"(\w+)"' % pid, src)
        if m:
            c["category"] = m.group(1)
        e = {"property_id": pid,
             "quick_cmd": "./check %s --tier quick" % pid,
             "evidence_file": "evidence/%s.json" % pid,
             "replay_cmd_template": "./check %s --replay {path}" % pid,
             "engine": "vlib",
             "level_claimed": {"category": c["category"], "text": c["text"], "design_ref": "DESIGN.md section 3, " + pid},
             "level_note": c["note"],
             "technique": c["technique"]}
        if c["thorough"]:
            e["thorough_cmd"] = "./check %s --tier thorough" % pid
        checks.append(e)
    na = [{"property_id": pid, "reason": "check not built yet at this commit (design in DESIGN.md section 3; the technique applies)"}
          for pid in ALL if pid not in [c["property_id"] for c in checks]]
    m = {"version": 1,
         "setup_cmd": "python3 -m vlib.setup",
         "hooks": {"guard": "DANMAR_CPPCHECK_VERIF",
                   "enable": "every variant under /verif/build is compiled with -DDANMAR_CPPCHECK_VERIF by vlib/build.py (cmake+ninja from /repo's working tree)",
                   "baseline_off_cmd": "cmake --build /repo/_build -j16 && ctest --test-dir /repo/_build -j8 --timeout 900",
                   "source_commits": ["5a71faf"],
                   "add_only": True},
         "engines": [{"name": "vlib", "path": "vlib/", "serves_properties": [c["property_id"] for c in checks],
                      "kind_free_text": "python drivers (props/Cxx.py) over: native/vsched.c (LD_PRELOAD deviation-bounded scheduler for the real "
                                        "thread/process executors), native/vshim.c (crash-point / environment shim), bounded enumerators and reference models"}],
         "checks": checks,
         "not_applicable": na,
         "notes": "All checks rebuild /repo's working tree into /verif/build/<variant> (ninja, incremental) before exploring. Known genuine defects: known_findings.json."}
    with open(os.path.join(ROOT, "MANIFEST.json"), "w") as f:
        json.dump(m, f, indent=1)
    print("MANIFEST.json: %d checks, %d not_applicable" % (len(checks), len(na)))


if __name__ == "__main__":
    main()
