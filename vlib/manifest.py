"""Generate /verif/MANIFEST.json from the table below (python3 -m vlib.manifest)."""
import json, os, importlib

ROOT = os.path.dirname(os.path.dirname(os.path.abspath(__file__)))

# id -> (category, design_ref, technique, text, note)
CHECKS = {}


def reg(pid, category, technique, text, note, thorough=True):
    CHECKS[pid] = dict(category=category, technique=technique, text=text, note=note, thorough=thorough)


reg("C12", "exploration",
    "bounded-exhaustive enumeration of all conditional forests (small-scope model checking of the configuration selector against the property's own rule)",
    "Every conditional forest with <=2 (quick) / <=3 (thorough) guards over 4 directive forms, else/no-else, all nestings, sibling orders and "
    "macro-name permutations is run through the real binary under every option set of {bare, --max-configs 1/2/12, --force, -D X, -U X, -D X -U Y}; "
    "the oracle is the statement's rule (every analysed configuration defines X / none does; every region analysed when #regions <= max-configs).",
    "Small-scope hypothesis: forests with more guards are not covered. 'number of guard combinations' is over-approximated by the number of regions, "
    "so coverage is only demanded when even that bound fits --max-configs. Trusted: the 40-line forest printer and region-condition computation.")

ALL = ["C%02d" % i for i in range(1, 37)]


def main():
    checks = []
    for pid in ALL:
        if pid not in CHECKS or not os.path.exists(os.path.join(ROOT, "props", pid + ".py")):
            continue
        c = CHECKS[pid]
        e = {"property_id": pid,
             "quick_cmd": "./check %s --tier quick" % pid,
             "evidence_file": "evidence/%s.json" % pid,
             "replay_cmd_template": "./check %s --replay {path}" % pid,
             "engine": "vlib",
             "level_claimed": {"category": c["category"], "text": c["text"], "design_ref": "DESIGN.md section 3, " + pid},
             "level_note": c["note"],
             "technique": c["technique"]}
        if c["thorough"]:
            e["thorough_cmd"] = "./check %s --tier thorough" % pid
        checks.append(e)
    na = [{"property_id": pid, "reason": "check not built yet at this commit (design in DESIGN.md section 3; the technique applies)"}
          for pid in ALL if pid not in [c["property_id"] for c in checks]]
    m = {"version": 1,
         "setup_cmd": "python3 -m vlib.setup",
         "hooks": {"guard": "DANMAR_CPPCHECK_VERIF",
                   "enable": "every variant under /verif/build is compiled with -DDANMAR_CPPCHECK_VERIF by vlib/build.py (cmake+ninja from /repo's working tree)",
                   "baseline_off_cmd": "cmake --build /repo/_build -j16 && ctest --test-dir /repo/_build -j8 --timeout 900",
                   "source_commits": [],
                   "add_only": True},
         "engines": [{"name": "vlib", "path": "vlib/", "serves_properties": [c["property_id"] for c in checks],
                      "kind_free_text": "python drivers (props/Cxx.py) over: native/vsched.c (LD_PRELOAD deviation-bounded scheduler for the real "
                                        "thread/process executors), native/vshim.c (crash-point / environment shim), bounded enumerators and reference models"}],
         "checks": checks,
         "not_applicable": na,
         "notes": "All checks rebuild /repo's working tree into /verif/build/<variant> (ninja, incremental) before exploring. Known genuine defects: known_findings.json."}
    with open(os.path.join(ROOT, "MANIFEST.json"), "w") as f:
        json.dump(m, f, indent=1)
    print("MANIFEST.json: %d checks, %d not_applicable" % (len(checks), len(na)))


if __name__ == "__main__":
    main()
