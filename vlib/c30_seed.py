"""Seed library configuration for C30: one instance of every element kind (in every parent context) and of every
attribute of /repo/cfg/cppcheck-cfg.rng.  The driver checks this claim against the .rng at run time."""

SEED = """<?xml version="1.0"?>
<def format="2">
  <define name="SEED_MAX" value="10"/>
  <memory>
    <alloc init="true" no-fail="true" arg="1" buffer-size="malloc:1">seed_malloc</alloc>
    <realloc init="false" no-fail="false" arg="2" buffer-size="malloc:2" realloc-arg="1">seed_realloc</realloc>
    <dealloc arg="1">seed_free</dealloc>
    <use>seed_use</use>
  </memory>
  <resource>
    <alloc init="true" no-fail="true" arg="1">seed_open</alloc>
    <realloc init="true" no-fail="false" arg="2" realloc-arg="3">seed_reopen</realloc>
    <dealloc arg="1">seed_close</dealloc>
    <use>seed_ruse</use>
  </resource>
  <function name="seed_f,seed::g">
    <noreturn>false</noreturn>
    <container action="push" yields="item"/>
    <pure/>
    <const/>
    <leak-ignore/>
    <use-retval type="error-code"/>
    <returnValue type="int" container="1" unknownValues="all">arg1+1</returnValue>
    <formatstr scan="false" secure="true"/>
    <not-overlapping-data ptr1-arg="1" ptr2-arg="2" size-arg="3" strlen-arg="4" count-arg="5"/>
    <warn severity="style" reason="Obsolete" alternatives="seed_h" cstd="c99">do not use</warn>
    <arg nr="1" default="0" direction="in" indirect="1">
      <formatstr/>
      <strz/>
      <not-bool/>
      <not-null/>
      <not-uninit indirect="1"/>
      <valid>0:10,-1.5</valid>
      <minsize type="strlen" arg="2"/>
      <minsize type="mul" arg="2" arg2="3"/>
      <minsize type="value" value="4" baseType="int"/>
      <minsize type="argvalue" arg="2" arg2="3" baseType="char"/>
      <iterator container="1" type="first"/>
    </arg>
    <arg nr="any"/>
    <arg nr="variadic"/>
  </function>
  <function name="seed_ign">
    <ignorefunction>true</ignorefunction>
  </function>
  <markup ext=".seedml" aftercode="true" reporterrors="false">
    <keywords>
      <keyword name="seedkw"/>
    </keywords>
    <codeblocks>
      <block name="seedblk"/>
      <structure offset="3" start="{" end="}"/>
    </codeblocks>
    <exported>
      <exporter prefix="SEED_EXP">
        <prefix>seedpre</prefix>
        <suffix>seedsuf</suffix>
      </exporter>
    </exported>
    <imported>
      <importer>seedimp</importer>
    </imported>
  </markup>
  <reflection>
    <call arg="2">seed_invoke</call>
  </reflection>
  <container id="seedBase" startPattern="seed :: vec &lt;" endPattern="&gt; !!::" itEndPattern="&gt; :: iterator" opLessAllowed="true" hasInitializerListConstructor="true" view="false">
    <type templateParameter="0" string="std-like" associative="std-like" unstable="erase insert"/>
    <rangeItemRecordType>
      <member name="first" templateParameter="0"/>
    </rangeItemRecordType>
    <size templateParameter="1">
      <function name="resize" action="resize" yields="size" returnType="int"/>
    </size>
    <access indexOperator="array-like">
      <function name="at" action="find" yields="at_index"/>
    </access>
  </container>
  <container id="seedDerived" startPattern="seed :: list &lt;" inherits="seedBase"/>
  <smart-pointer class-name="seed::ptr">
    <unique/>
  </smart-pointer>
  <type-checks>
    <unusedvar>
      <check>seed::A</check>
      <suppress>seed::B</suppress>
      <checkFiniteLifetime>seed::C</checkFiniteLifetime>
    </unusedvar>
    <operatorEqVarError>
      <check>seed::D</check>
      <suppress>seed::E</suppress>
    </operatorEqVarError>
  </type-checks>
  <podtype name="seed_u8,seed_byte" stdtype="char" size="1" sign="u"/>
  <platformtype name="seed_size_t" value="long">
    <unsigned/>
    <long/>
    <pointer/>
    <const_ptr/>
    <ptr_ptr/>
    <platform type="unix64"/>
  </platformtype>
  <entrypoint name="seed_main"/>
</def>
"""
