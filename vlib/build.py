"""Build cppcheck variants from /repo's *current working tree* into /verif/build/<variant>.

ninja makes this a no-op when /repo is unchanged and an incremental rebuild otherwise.  All variants are
compiled with -DDANMAR_CPPCHECK_VERIF (hook guard).  A file lock serialises concurrent checks.
"""
import fcntl, os, subprocess, sys, time

REPO = os.environ.get("VERIF_REPO", "/repo")
ROOT = os.path.dirname(os.path.dirname(os.path.abspath(__file__)))
BUILD = os.environ.get("VERIF_BUILD", os.path.join(ROOT, "build"))
GUARD = "DANMAR_CPPCHECK_VERIF"

VARIANTS = {
    # name: (CXX, CC, extra cxx flags, extra linker flags, cmake defs)
    "plain": ("g++", "gcc", "-O1", "", {"USE_MATCHCOMPILER": "On"}),
    "asan": ("clang++", "clang",
             "-O1 -g1 -fsanitize=address,undefined -fno-sanitize-recover=undefined -fno-omit-frame-pointer",
             "-fsanitize=address,undefined", {"USE_MATCHCOMPILER": "On"}),
    "tsan": ("g++", "gcc", "-O1 -g1 -fsanitize=thread", "-fsanitize=thread", {"USE_MATCHCOMPILER": "On"}),
    "mcoff": ("g++", "gcc", "-O1", "", {"USE_MATCHCOMPILER": "Off"}),
}


def _run(cmd, log, **kw):
    with open(log, "ab") as f:
        f.write(("\n$ " + " ".join(cmd) + "\n").encode())
        f.flush()
        return subprocess.call(cmd, stdout=f, stderr=subprocess.STDOUT, **kw)


def bindir(variant="plain"):
    return os.path.join(BUILD, variant, "bin")


def cppcheck(variant="plain"):
    return os.path.join(bindir(variant), "cppcheck")


def build(variant="plain", targets=("cppcheck",), quiet=True):
    """Configure (once) and build; returns the path of the cppcheck binary."""
    cxx, cc, flags, ldflags, defs = VARIANTS[variant]
    bdir = os.path.join(BUILD, variant)
    os.makedirs(bdir, exist_ok=True)
    log = os.path.join(bdir, "verif-build.log")
    lock = open(os.path.join(BUILD, ".lock." + variant), "w")
    fcntl.flock(lock, fcntl.LOCK_EX)
    try:
        t0 = time.time()
        if not os.path.exists(os.path.join(bdir, "build.ninja")):
            cmd = ["cmake", "-S", REPO, "-B", bdir, "-G", "Ninja",
                   "-DCMAKE_BUILD_TYPE=Release",
                   "-DCMAKE_CXX_COMPILER=" + cxx, "-DCMAKE_C_COMPILER=" + cc,
                   "-DCMAKE_CXX_FLAGS_RELEASE=-DNDEBUG", "-DCMAKE_C_FLAGS_RELEASE=-DNDEBUG",
                   "-DCMAKE_CXX_FLAGS=-D%s -w %s" % (GUARD, flags),
                   "-DCMAKE_C_FLAGS=-w %s" % flags,
                   "-DCMAKE_EXE_LINKER_FLAGS=" + ldflags,
                   "-DBUILD_TESTING=OFF", "-DBUILD_GUI=OFF", "-DDISABLE_DMAKE=ON",
                   "-DCMAKE_DISABLE_PRECOMPILE_HEADERS=ON", "-DUSE_BOOST=Off",
                   "-DFILESDIR="]
            if os.path.exists("/usr/bin/ccache"):
                cmd += ["-DCMAKE_CXX_COMPILER_LAUNCHER=ccache", "-DCMAKE_C_COMPILER_LAUNCHER=ccache"]
            cmd += ["-D%s=%s" % kv for kv in defs.items()]
            env = dict(os.environ)
            if _run(cmd, log, env=env) != 0:
                sys.stderr.write("BUILD-ERROR: cmake configure failed for %s, see %s\n" % (variant, log))
                raise SystemExit(2)
        env = dict(os.environ)
        env.setdefault("CCACHE_DIR", os.path.join(BUILD, "ccache"))
        rc = _run(["ninja", "-C", bdir] + list(targets), log, env=env)
        if rc != 0:
            sys.stderr.write("BUILD-ERROR: ninja failed for %s, see %s\n" % (variant, log))
            raise SystemExit(2)
        if not quiet:
            print("built %s in %.1fs" % (variant, time.time() - t0))
        try:        # building is not exploring: give the time back to every running check's budget
            from . import core
            for c in core._LIVE:
                c.deadline += time.time() - t0
        except Exception:
            pass
        return cppcheck(variant)
    finally:
        fcntl.flock(lock, fcntl.LOCK_UN)
        lock.close()


if __name__ == "__main__":
    vs = sys.argv[1:] or ["plain"]
    for v in vs:
        build(v, quiet=False)
