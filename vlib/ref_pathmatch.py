"""Reference model of cppcheck's path-pattern matching (C31).

Written ONLY from the rule list in the header comment of lib/pathmatch.h and the manual's text on -i / --file-filter:

  R1  patterns are canonicalised: '/./' => '/', '/dir/../' => '/', '//' => '/', trailing slashes removed (root kept)
  R2  '**' matches any number of characters including separators, '*' any number except separators,
      '?' exactly one character except separators
  R3  pattern looks absolute (starts with '/'): it must match the START of the file's canonical absolute path, up to a
      separator or the end of the path name
  R4  pattern is '.' or '..' or starts with './' or '../': it is joined to the base path and then treated like R3
  R5  otherwise: it may match ANY part of the canonical absolute path that directly follows a separator and extends up
      to a separator or the end of the path name
  R6  pattern ends with a separator (before canonicalisation): its final component matches the final component of the
      file path only if the file is a directory

`match()` returns True / False, or None where these rules do not determine the answer (see UNDEFINED below); the
driver does not judge None.  The implementation is deliberately unlike cppcheck's (forward, string canonicalisation +
regular expression instead of a reverse iterator with backtracking).

UNDEFINED (rules silent / ambiguous):
  U-empty      the empty pattern, or a pattern that canonicalises to nothing ('a/..', 'a/../')
  U-climb      a '..' that has no component left to cancel (in a pattern: 'a/../../b', '/..'; in a path: '/../a')
  U-globdir    a '..' that follows a component containing a glob ('*/../a': is '*' a "dir"?)
  U-rootfile   R6 applied to the root directory itself as a regular file
  U-root       a pattern that canonicalises to the root '/' (does the root "match up until a separator"?)
  U-rootcomp   an R5 pattern that matches only if the match may begin at the very start of the absolute path, i.e. if
               the root directory counts as a component with an empty name ('*/a' against '/a')
"""
import re

REGULAR, DIRECTORY = "r", "d"


class Undefined(Exception):
    pass


def is_relative_pattern(p):
    return p in (".", "..") or p.startswith("./") or p.startswith("../")


def canon(s, is_pattern):
    """Canonicalise per R1.  Returns the canonical string ('/'-rooted iff s was); raises Undefined(U-...)."""
    rooted = s.startswith("/")
    out = []
    for c in s.split("/"):
        if c == "" or c == ".":
            continue
        if c == "..":
            if not out:
                raise Undefined("U-climb")
            if is_pattern and any(g in out[-1] for g in "*?"):
                raise Undefined("U-globdir")
            out.pop()
            continue
        out.append(c)
    return ("/" if rooted else "") + "/".join(out)


def glob_regex(p):
    """R2 -> regular expression source (never matches a newline, so many paths can be matched in one text)."""
    r, i = [], 0
    while i < len(p):
        if p.startswith("**", i):
            r.append(r"[^\n]*")
            i += 2
        elif p[i] == "*":
            r.append(r"[^/\n]*")
            i += 1
        elif p[i] == "?":
            r.append(r"[^/\n]")
            i += 1
        else:
            r.append(re.escape(p[i]))
            i += 1
    return "".join(r)


def compile_pattern(pattern, base):
    """-> (compiled multi-line regex, trailing_separator) ; raises Undefined."""
    if pattern == "":
        raise Undefined("U-empty")
    trailing = pattern.endswith("/")
    if is_relative_pattern(pattern):
        full, anchored = base + "/" + pattern, True           # R4
    else:
        full, anchored = pattern, pattern.startswith("/")     # R3 / R5
    c = canon(full, True)
    if c == "":
        raise Undefined("U-empty")
    if c == "/":
        raise Undefined("U-root")
    alt = None
    if anchored:
        rx = "^" + glob_regex(c) + r"(?=/|$)"
    else:
        rx = r"^[^\n]*?/" + glob_regex(c) + r"(?=/|$)"
        alt = re.compile("^" + glob_regex(c) + r"(?=/|$)", re.M)   # match beginning at the very start (U-rootcomp)
    return re.compile(rx, re.M), trailing, alt


def canon_path(path, base):
    """Canonical absolute path of a file name given relative to base (or absolute)."""
    return canon(path if path.startswith("/") else base + "/" + path, False)


def subject(cpath, trailing, mode):
    """The string the pattern has to match: the path, or (R6, regular file) its parent directory."""
    if trailing and mode != DIRECTORY:
        if cpath == "/":
            raise Undefined("U-rootfile")
        return cpath.rsplit("/", 1)[0] or "/"
    return cpath


def match(pattern, path, base, mode=REGULAR):
    """True / False / None (undefined)."""
    try:
        rx, trailing, alt = compile_pattern(pattern, base)
        s = subject(canon_path(path, base), trailing, mode)
    except Undefined:
        return None
    if rx.search(s) is not None:
        return True
    if alt is not None and alt.search(s) is not None:
        return None
    return False


def why_undefined(pattern, path, base, mode=REGULAR):
    try:
        rx, trailing, alt = compile_pattern(pattern, base)
        s = subject(canon_path(path, base), trailing, mode)
    except Undefined as e:
        return str(e)
    if alt is not None and rx.search(s) is None and alt.search(s) is not None:
        return "U-rootcomp"
    return None


def match_any(patterns, path, base, mode=REGULAR):
    """List semantics: a path matches if any pattern matches; None if undetermined."""
    res = False
    for p in patterns:
        m = match(p, path, base, mode)
        if m:
            return True
        if m is None:
            res = None
    return res


# ---- table form for the exhaustive seam comparison ----------------------------------------------------------------
def strings(alpha, maxlen):
    """All strings of length 0..maxlen, by length then lexicographic in alphabet order (mirrors the C++ harness)."""
    out, first = [""], 0
    for _ in range(maxlen):
        last = len(out)
        out.extend(out[i] + a for i in range(first, last) for a in alpha)
        first = last
    return out


class Table:
    """Reference results for one base over a fixed list of paths, as bit masks (bit i = path i)."""

    def __init__(self, paths, base):
        self.paths, self.base = paths, base
        self.n = len(paths)
        self.undef_paths = 0                   # mask of paths whose canonical form is undefined
        classes = {}                           # (canonical path) -> mask
        for i, p in enumerate(paths):
            try:
                c = canon_path(p, base)
            except Undefined:
                self.undef_paths |= 1 << i
                continue
            classes[c] = classes.get(c, 0) | (1 << i)
        self.classes = classes
        # subjects for the two situations: plain, and R6 with a regular file (parent directory)
        self.sub_plain = self._index({c: m for c, m in classes.items()})
        par, self.undef_rootfile = {}, 0
        for c, m in classes.items():
            if c == "/":
                self.undef_rootfile |= m
                continue
            d = c.rsplit("/", 1)[0] or "/"
            par[d] = par.get(d, 0) | m
        self.sub_parent = self._index(par)

    @staticmethod
    def _index(d):
        keys = sorted(d)
        text = "\n".join(keys)
        starts, pos = {}, 0
        for k in keys:
            starts[pos] = d[k]
            pos += len(k) + 1
        return text, starts

    def row(self, pattern, mode):
        """-> (match mask, undefined mask) or None if the pattern is undefined for every path."""
        try:
            rx, trailing, alt = compile_pattern(pattern, self.base)
        except Undefined:
            return None
        undef = self.undef_paths
        if trailing and mode != DIRECTORY:
            text, starts = self.sub_parent
            undef |= self.undef_rootfile
        else:
            text, starts = self.sub_plain
        m = 0
        for mo in rx.finditer(text):
            m |= starts[mo.start()]
        if alt is not None:
            a = 0
            for mo in alt.finditer(text):
                a |= starts[mo.start()]
            undef |= a & ~m
        return m, undef
