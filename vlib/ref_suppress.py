"""Reference model of cppcheck's suppressions, written from the DOCUMENTATION only:

  * man/manual.md, chapter "Suppressions" (plain text format, suppression files, XML, inline forms),
  * the header comment of lib/pathmatch.h (path pattern rules),
  * the comments of lib/suppressions.h.

It is deliberately boring: regular expressions, string splitting and set operations.  Every predicate is
three-valued: True / False / None, where None means "the documents do not decide this" (the driver then leaves
the case unconstrained and counts it).

A finding is a dict with keys id, file, line, symbols (tuple), macros (frozenset of macro names used on its line).
"""
import re, functools
import xml.etree.ElementTree as ET


# ------------------------------------------------------------------------------------------------ globs
def glob_re(pat):
    """manual.md: '**' matches zero or more characters including path separators, '*' zero or more characters
    excluding path separators, '?' any single character except path separators."""
    out, i = [], 0
    while i < len(pat):
        if pat.startswith("**", i):
            out.append(".*")
            while i < len(pat) and pat[i] == "*":
                i += 1
            continue
        c = pat[i]
        out.append("[^/]*" if c == "*" else "[^/]" if c == "?" else re.escape(c))
        i += 1
    return "".join(out)


@functools.lru_cache(maxsize=None)
def _compiled(pat):
    return re.compile(glob_re(pat), re.S)


def glob_match(pat, name):
    return _compiled(pat).fullmatch(name) is not None


# ------------------------------------------------------------------------------------------------ paths
def canon(p):
    """pathmatch.h: '/./' => '/', '/dir/../' => '/', '//' => '/', trailing slashes removed, root preserved,
    double-dots at the root level removed."""
    root = p.startswith("/")
    comps = []
    for c in p.split("/"):
        if c in ("", "."):
            continue
        if c == "..":
            if comps and comps[-1] != "..":
                comps.pop()
            elif not root:
                comps.append("..")
            continue
        comps.append(c)
    return ("/" if root else "") + "/".join(comps)


def is_relative_pattern(p):
    return p in (".", "..") or p.startswith("./") or p.startswith("../")


def _path_match_base(pattern, path, base):
    """The rules of pathmatch.h with an explicit base path ('' = none)."""
    P = canon(path if path.startswith("/") or not base else base + "/" + path)
    if is_relative_pattern(pattern):
        pattern = (base + "/" + pattern) if base else pattern
        anchored = True
    else:
        anchored = pattern.startswith("/")
    Q = glob_re(canon(pattern))
    tail = "(/.*)?"          # "... up until a path separator or the end of the pathname"
    if anchored:
        return re.fullmatch(Q + tail, P, re.S) is not None
    # "matches any part of the file's canonical absolute path ... and the matching part directly follows a path
    # separator" (for a path without base the start of the string is the only other possible boundary)
    starts = [i + 1 for i, ch in enumerate(P) if ch == "/"]
    if not P.startswith("/"):
        starts.insert(0, 0)
    return any(re.fullmatch(Q + tail, P[s:], re.S) is not None for s in starts)


@functools.lru_cache(maxsize=200000)
def path_match(pattern, path, cwd):
    """True/False when the rule gives the same answer whether relative names are resolved against the working
    directory or against nothing (no document says which base path suppressions use); None otherwise."""
    a = _path_match_base(pattern, path, cwd)
    b = _path_match_base(pattern, path, "")
    return a if a == b else None


# ------------------------------------------------------------------------------------------------ suppressions
class Invalid(Exception):
    pass


class Sup:
    """kind: plain (command line / file / xml) | line | block | file | macro (inline forms)."""

    def __init__(self, id, file=None, line=None, symbol=None, kind="plain", lo=None, hi=None, macro=None, text=None,
                 at=None):
        self.id, self.file, self.line, self.symbol, self.kind = id, file, line, symbol, kind
        self.lo, self.hi, self.macro, self.text, self.at = lo, hi, macro, text, at

    def __repr__(self):
        return "Sup(%s)" % ", ".join("%s=%r" % (k, v) for k, v in sorted(self.__dict__.items()) if v is not None)

    def spec(self):
        return {k: v for k, v in self.__dict__.items() if v is not None}


def and3(vals):
    vals = list(vals)
    if any(v is False for v in vals):
        return False
    if any(v is None for v in vals):
        return None
    return True


def or3(vals):
    vals = list(vals)
    if any(v is True for v in vals):
        return True
    if any(v is None for v in vals):
        return None
    return False


def matches(s, f, cwd):
    """Does suppression s match finding f?  (three-valued)"""
    # every given attribute has to match; the cheap tests come first (a single False decides)
    if not glob_match(s.id, f["id"]):
        return False
    if s.symbol is not None and not any(glob_match(s.symbol, sym) for sym in f["symbols"]):
        return False
    if s.kind == "plain":
        if s.line is not None and f["line"] != s.line:
            return False
        if s.file is not None:
            return path_match(s.file, f["file"], cwd)
        return True
    if s.kind == "macro":
        return s.macro in f["macros"]
    if canon(s.file) != canon(f["file"]):
        return False
    if s.kind in ("line", "block"):
        return s.lo <= f["line"] <= s.hi
    return True


def hidden(sups, f, cwd):
    return or3(matches(s, f, cwd) for s in sups)


# ------------------------------------------------------------------------------------------------ text / file / xml
def parse_text(line):
    """'[error id]:[filename]:[line]' | '[error id]:[filename2]' | '[error id]' with an optional trailing comment
    starting with '#' or '//'.  Raises Invalid for anything that is none of the three formats."""
    m = re.search(r"#|//", line)
    if m:
        line = line[:m.start()]
    line = line.strip()
    parts = line.split(":")
    if not parts[0]:
        raise Invalid("no id")
    if len(parts) == 1:
        return Sup(parts[0], text=line)
    lineno = None
    if len(parts) >= 3:
        if not re.fullmatch(r"[0-9]+", parts[-1]):
            raise Invalid("line is not a number")
        lineno = int(parts[-1])
        parts = parts[:-1]
    fname = ":".join(parts[1:])
    if not fname:
        raise Invalid("no filename")
    return Sup(parts[0], fname, lineno, text=line)


def parse_list(text):
    """Suppressions file: empty lines and comment lines (starting with '#' or '//') are allowed."""
    out = []
    for ln in re.split(r"\r\n|\n|\r", text):
        if not ln.strip() or ln.startswith("#") or ln.startswith("//"):
            continue
        out.append(parse_text(ln))
    return out


def parse_xml(text):
    try:
        root = ET.fromstring(text)
    except ET.ParseError:
        raise Invalid("malformed xml")
    out = []
    for e in root.findall("suppress"):
        g = lambda n: (e.find(n).text or "").strip() if e.find(n) is not None else None
        if not g("id"):
            raise Invalid("no id")
        ln = g("lineNumber")
        if ln is not None and not re.fullmatch(r"[0-9]+", ln):
            raise Invalid("line is not a number")
        out.append(Sup(g("id"), g("fileName"), int(ln) if ln is not None else None, g("symbolName"), text=g("id")))
    return out


# ------------------------------------------------------------------------------------------------ inline
RE_COMMENT = re.compile(r"//(.*)$|/\*(.*?)\*/")
KEYWORDS = {"cppcheck-suppress": "line", "cppcheck-suppress-begin": "begin", "cppcheck-suppress-end": "end",
            "cppcheck-suppress-file": "file", "cppcheck-suppress-macro": "macro"}


def parse_comment(body):
    """-> (kind, [(id, symbol)]) | None when the comment is not a suppression | raises Invalid."""
    body = body.strip()
    m = re.match(r"(cppcheck-suppress(?:-[a-z]+)?)(?=$|[\s\[])", body)
    if not m:
        return None
    if m.group(1) not in KEYWORDS:
        raise Invalid("unknown keyword")
    kind, rest = KEYWORDS[m.group(1)], body[m.end():].strip()
    items = []
    if rest.startswith("["):
        if "]" not in rest:
            raise Invalid("unterminated [")
        inner, after = rest[1:rest.index("]")], rest[rest.index("]") + 1:]
        for part in inner.split(","):
            w = part.split()
            if not w:
                continue
            sym = None
            for a in w[1:]:
                if not a.startswith("symbolName="):
                    raise Invalid("bad attribute")
                sym = a[len("symbolName="):]
            items.append((w[0], sym))
        # "// cppcheck-suppress[warningid] some comment": anything after ']' is a comment
    else:
        rest = re.split(r";|//", rest)[0]        # "; some comment" and "// some comment"
        w = rest.split()
        if not w:
            raise Invalid("no id")
        sym = None
        for a in w[1:]:
            if not a.startswith("symbolName="):
                raise Invalid("bad attribute")   # free text needs ';' or '//' in this form
            sym = a[len("symbolName="):]
        items.append((w[0], sym))
    if not items:
        raise Invalid("no id")
    return kind, items


def inline_sups(text, path):
    """All inline suppressions of one source text -> (list of Sup, list of (line, reason) for invalid comments).
    Only single-line comments are modelled (the driver generates no others)."""
    lines = text.split("\n")
    code, comments = [], []
    for ln in lines:
        cs = [(m.group(1) if m.group(1) is not None else m.group(2), m.start()) for m in RE_COMMENT.finditer(ln)]
        comments.append(cs)
        code.append(RE_COMMENT.sub(" ", ln).strip())
    sups, bad, begins = [], [], []
    first_code = next((i for i, c in enumerate(code) if c), len(code))
    for i, cs in enumerate(comments):
        for body, col in cs:
            try:
                pc = parse_comment(body)
            except Invalid as e:
                bad.append((i + 1, str(e)))
                continue
            if pc is None:
                continue
            kind, items = pc
            # line of code the comment belongs to: its own line if that has code, else the next line with code
            if code[i]:
                tgt = i
            else:
                tgt = next((j for j in range(i + 1, len(code)) if code[j]), None)
            for sid, sym in items:
                if kind == "line":
                    if tgt is None:
                        continue
                    hi = tgt
                    if tgt == i and code[i] == "{":   # backwards-compatibility special case of the manual
                        hi = tgt + 1
                    sups.append(Sup(sid, path, None, sym, "line", tgt + 1, hi + 1, at=i + 1))
                elif kind == "file":
                    if i > first_code:
                        bad.append((i + 1, "file suppression after code"))   # manual shows it only as a file header
                    else:
                        sups.append(Sup(sid, path, None, sym, "file", at=i + 1))
                elif kind == "macro":
                    m = re.match(r"#\s*define\s+(\w+)", code[tgt]) if tgt is not None else None
                    if m:
                        sups.append(Sup(sid, path, None, sym, "macro", lo=tgt + 1, macro=m.group(1), at=i + 1))
                    else:
                        bad.append((i + 1, "macro suppression not followed by #define"))
                elif kind == "begin":
                    begins.append((sid, sym, i + 1))
                elif kind == "end":
                    k = next((k for k in range(len(begins) - 1, -1, -1) if begins[k][0] == sid and begins[k][1] == sym), None)
                    if k is None:
                        bad.append((i + 1, "end without begin"))
                    else:
                        b = begins.pop(k)
                        sups.append(Sup(sid, path, None, sym, "block", b[2], i + 1, at=b[2]))
    for sid, sym, ln in begins:
        bad.append((ln, "begin without end"))
    return sups, bad


_macro_names = {}


def macro_names(texts):
    """All names defined by '#define NAME' in the given {path: text}."""
    k = id(texts)
    if k not in _macro_names or _macro_names[k][0] is not texts:
        names = set()
        for t in texts.values():
            names.update(re.findall(r"^[ \t]*#[ \t]*define[ \t]+(\w+)", t, re.M))
        if len(_macro_names) > 64:
            _macro_names.clear()
        _macro_names[k] = (texts, names)
    return _macro_names[k][1]


def macros_on_line(texts, path, line):
    """Names of macros (any '#define NAME' of the given texts) that are used on the given source line."""
    names = macro_names(texts)
    src = texts.get(path)
    if src is None:
        return frozenset()
    ls = src.split("\n")
    if not 1 <= line <= len(ls) or re.match(r"\s*#\s*define", ls[line - 1]):
        return frozenset()
    return frozenset(w for w in re.findall(r"\w+", RE_COMMENT.sub(" ", ls[line - 1])) if w in names)
