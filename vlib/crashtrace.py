"""Record the mutating-syscall trace of a real cppcheck run with strace, replay prefixes of it (crash states,
torn writes) into a directory, and really kill a run at a given syscall index (strace fault injection)."""
import os, re, shutil, subprocess
from . import build

SYSCALLS = "openat,write,writev,close,rename,renameat,renameat2,unlink,unlinkat,mkdir,mkdirat,ftruncate"
RE_LINE = re.compile(r"^(\d+)\s+(\w+)\((.*)\)\s+=\s+(-?\d+)(.*)$")
RE_HEX = re.compile(r'"((?:\\x[0-9a-f]{2})*)"')


def unhex(s):
    return bytes(int(s[i + 2:i + 4], 16) for i in range(0, len(s), 4))


def fdpath(tok):
    m = re.match(r"(\d+)<((?:\\x[0-9a-f]{2})*)>", tok)
    return (int(m.group(1)), unhex(m.group(2)).decode("utf-8", "replace")) if m else (None, None)


class Op:
    __slots__ = ("pid", "kind", "path", "path2", "data", "fd", "flags", "gidx")

    def __repr__(self):
        return "%s(%s%s)" % (self.kind, self.path, ", %dB" % len(self.data) if self.data is not None else "")


def record(args, cwd, bdir, env=None, timeout=120):
    """Run cppcheck under strace; return (list of Ops that mutate files under bdir, in order; rc; global count).
    gidx = index of the op among ALL traced syscalls of its pid (used for real kill injection)."""
    exe = build.cppcheck("plain")
    out = os.path.join(cwd, ".strace.out")
    e = dict(os.environ); e["LC_ALL"] = "C"
    if env:
        e.update(env)
    p = subprocess.run(["strace", "-f", "-y", "-s", "1000000", "-xx", "-e", "trace=" + SYSCALLS, "-o", out, exe] + list(args),
                       cwd=cwd, env=e, stdout=subprocess.PIPE, stderr=subprocess.PIPE, timeout=timeout)
    ops = []
    absb = os.path.realpath(os.path.join(cwd, bdir))
    counts = {}
    with open(out, "r", errors="replace") as f:
        for line in f:
            m = RE_LINE.match(line)
            if not m:
                continue
            pid, name, argstr, ret = int(m.group(1)), m.group(2), m.group(3), int(m.group(4))
            g = counts.get(pid, 0)
            counts[pid] = g + 1
            if ret < 0:
                continue
            op = Op(); op.pid = pid; op.gidx = g; op.data = None; op.path2 = None; op.fd = None; op.flags = ""
            if name == "openat":
                strs = RE_HEX.findall(argstr)
                if not strs:
                    continue
                flags = argstr.split(",")[2] if len(argstr.split(",")) > 2 else ""
                if "O_WRONLY" not in flags and "O_RDWR" not in flags:
                    continue
                fd, path = fdpath(m.group(4) + m.group(5).strip()) if "<" in m.group(5) else (ret, None)
                mm = re.match(r"<((?:\\x[0-9a-f]{2})*)>", m.group(5).strip())
                path = unhex(mm.group(1)).decode() if mm else None
                if not path or not path.startswith(absb + "/"):
                    continue
                op.kind, op.path, op.fd, op.flags = "open", os.path.relpath(path, absb), ret, flags
            elif name in ("write", "writev"):
                fd, path = fdpath(argstr.split(",")[0].strip())
                if not path or not path.startswith(absb + "/"):
                    continue
                strs = RE_HEX.findall(argstr.split(">", 1)[1])
                op.kind, op.path, op.fd = "write", os.path.relpath(path, absb), fd
                op.data = b"".join(unhex(s) for s in strs)[:ret]
            elif name == "close":
                fd, path = fdpath(argstr.strip())
                if not path or not path.startswith(absb + "/"):
                    continue
                op.kind, op.path, op.fd = "close", os.path.relpath(path, absb), fd
            elif name in ("unlink", "unlinkat", "mkdir", "mkdirat", "rename", "renameat", "renameat2"):
                strs = [unhex(s).decode("utf-8", "replace") for s in RE_HEX.findall(argstr)]
                strs = [s for s in strs if s]
                if not strs:
                    continue
                ps = [os.path.normpath(s if s.startswith("/") else os.path.join(os.path.realpath(cwd), s)) for s in strs]
                if not any(x.startswith(absb + "/") for x in ps):
                    continue
                op.kind = "unlink" if name.startswith("unlink") else "mkdir" if name.startswith("mkdir") else "rename"
                op.path = os.path.relpath(ps[0], absb)
                if op.kind == "rename" and len(ps) > 1:
                    op.path2 = os.path.relpath(ps[-1], absb)
            else:
                continue
            ops.append(op)
    os.unlink(out)
    return ops, p.returncode, counts


def materialise(pre_dir, ops, n, torn, dest):
    """dest := copy of pre_dir with the first n ops applied; if torn is not None the n-th op (a write) is applied with
    only its first `torn` bytes."""
    if os.path.exists(dest):
        shutil.rmtree(dest)
    shutil.copytree(pre_dir, dest)
    offs = {}
    seq = list(ops[:n])
    if torn is not None:
        seq.append(ops[n])
    for i, op in enumerate(seq):
        p = os.path.join(dest, op.path)
        if op.kind == "open":
            if "O_TRUNC" in op.flags or not os.path.exists(p):
                open(p, "wb").close()
            offs[(op.pid, op.fd)] = os.path.getsize(p) if "O_APPEND" in op.flags else 0
        elif op.kind == "write":
            data = op.data if not (torn is not None and i == n) else op.data[:torn]
            o = offs.get((op.pid, op.fd), 0)
            mode = "r+b" if os.path.exists(p) else "w+b"
            with open(p, mode) as f:
                f.seek(o)
                f.write(data)
            offs[(op.pid, op.fd)] = o + len(data)
        elif op.kind == "close":
            offs.pop((op.pid, op.fd), None)
        elif op.kind == "unlink":
            if os.path.exists(p):
                os.unlink(p)
        elif op.kind == "mkdir":
            os.makedirs(p, exist_ok=True)
        elif op.kind == "rename":
            if os.path.exists(p):
                os.replace(p, os.path.join(dest, op.path2))
    return dest


def real_kill(args, cwd, gidx, timeout=120):
    """Really run cppcheck and SIGKILL it on entering its gidx-th traced syscall (0-based, main pid)."""
    exe = build.cppcheck("plain")
    e = dict(os.environ); e["LC_ALL"] = "C"
    return subprocess.run(["strace", "-o", "/dev/null", "-e", "trace=" + SYSCALLS,
                           "-e", "inject=%s:signal=SIGKILL:when=%d" % (SYSCALLS, gidx + 1), exe] + list(args),
                          cwd=cwd, env=e, stdout=subprocess.PIPE, stderr=subprocess.PIPE, timeout=timeout).returncode


def dirstate(d):
    out = {}
    for root, _, fs in os.walk(d):
        for f in fs:
            p = os.path.join(root, f)
            with open(p, "rb") as fh:
                out[os.path.relpath(p, d)] = fh.read()
    return out
