"""Generated program families for the corpus-bound checks C27 and C28 (deterministic, exhaustive over small alphabets).

multi_severity_files()   one construct (library call argument, operator operand, condition, cast, conversion ...) whose
                         checkers emit several ids of DIFFERENT severities for the same argument / statement, with the
                         argument enumerated over a literal-kind alphabet (two-hole constructs: all pairs).  One small
                         function per instance, one file per construct.
provenance_files()       value-dependent checker triggers (division, array index, shift, overflow, library argument,
                         allocation size, container index, pointer dereference ...) x provenance of the critical value
                         (literal, const local, condition before / after the use, branch, default argument, ternary, loop
                         bound, return value of a callee, argument from a caller, macro, global constant ...) x operand
                         type.  One small function per instance, one file per trigger.  This is what exercises the
                         *Cond / *RedundantCheck / *DefaultArg / ctu* variants of the ids systematically.
Both return {file name: source}.  Function names are unique over all files (no ODR / CTU collisions between files).
"""

ATOMS = [("i", "65"), ("iout", "300"), ("ibig", "100000"), ("neg", "-1"), ("f", "1.5f"), ("fout", "300.0f"),
         ("dbig", "1e10"), ("chr", "'a'"), ("bool", "true"), ("zero", "0"), ("null", "NULL"), ("szbuf", "sizeof(buf)"),
         ("szp", "sizeof(p)"), ("str", "\"abc\"")]

PROLOG_INC = "#include <cstring>\n#include <cstdio>\n#include <cstdlib>\n#include <cctype>\n#include <cmath>\n"
PROLOG_INC_C = "#include <string.h>\n#include <stdio.h>\n#include <stdlib.h>\n#include <ctype.h>\n#include <math.h>\n#include <stdbool.h>\n"

# locals / parameters every instance can use
SIG = "(const char *src, int x, unsigned u, bool b, int *p, float fl, const char *s, char c8, unsigned char uc, void *vp)"
LOCALS = "char buf[10]; buf[0] = src[0]; long r = 0; double d = 0;"
EPILOG = "return r + (long)d + buf[0];"

ONE = [
    ("memset2", "memset(buf, {a}, sizeof(buf));"), ("memset3", "memset(buf, 0, {a});"),
    ("memcpy3", "memcpy(buf, src, {a});"), ("strncpy3", "strncpy(buf, src, {a});"), ("strncat3", "strncat(buf, src, {a});"),
    ("memcmp3", "r = memcmp(buf, src, {a});"), ("memchr2", "r = memchr(buf, {a}, 10) != 0;"),
    ("isalpha", "r = isalpha({a});"), ("toupper", "r = toupper({a});"), ("isdigit", "r = isdigit({a});"),
    ("shl_rhs", "r = x << {a};"), ("shr_rhs", "r = x >> {a};"), ("shl_lhs", "r = {a} << x;"), ("ushl_rhs", "r = u << {a};"),
    ("div_rhs", "r = x / {a};"), ("mod_rhs", "r = x % {a};"), ("div_lhs", "r = {a} / x;"),
    ("cmp_u_lt", "if (u < {a}) r = 1;"), ("cmp_u_ge", "if (u >= {a}) r = 1;"), ("cmp_b_eq", "if (b == {a}) r = 1;"),
    ("cmp_b_lt", "if (b < {a}) r = 1;"), ("cmp_p_lt", "if (p < {a}) r = 1;"), ("cmp_p_eq", "if (p == {a}) r = 1;"),
    ("cmp_x_eq", "if (x == {a}) r = 1;"), ("cmp_fl_eq", "if (fl == {a}) r = 1;"), ("cmp_s_eq", "if (s == {a}) r = 1;"),
    ("cmp_c8_eq", "if (c8 == {a}) r = 1;"), ("cmp_uc_gt", "if (uc > {a}) r = 1;"), ("cmp_uc_eq", "if (uc == {a}) r = 1;"),
    ("asg_x", "if (x = {a}) r = 1;"), ("asg_b", "if (b = {a}) r = 1;"), ("asg_and", "if (u && (x = {a})) r = 1;"),
    ("cast_iptr", "p = (int*){a}; r = *p;"), ("cast_pint", "r = (int)p + {a};"), ("asg_ptr", "p = {a}; r = *p;"),
    ("asg_int_ptr", "x = p; r = x + {a};"), ("cast_long_ptr", "long *lp = (long*){a}; r = *lp;"),
    ("idx_w", "buf[{a}] = 0;"), ("idx_r", "r = buf[{a}];"), ("idx_c8", "r = src[c8] + {a};"), ("idx_src", "r = src[{a}];"),
    ("printf_d", "printf(\"%d\\n\", {a});"), ("printf_u", "printf(\"%u\\n\", {a});"), ("printf_s", "printf(\"%s\\n\", {a});"),
    ("printf_f", "printf(\"%f\\n\", {a});"), ("printf_c", "printf(\"%c\\n\", {a});"), ("printf_p", "printf(\"%p\\n\", {a});"),
    ("printf_ld", "printf(\"%ld\\n\", {a});"), ("printf_x", "printf(\"%x\\n\", {a});"), ("printf_2", "printf(\"%d %d\\n\", {a});"),
    ("printf_0", "printf(\"x\\n\", {a});"), ("sprintf_s", "sprintf(buf, \"%s\", {a});"), ("snprintf_n", "snprintf(buf, {a}, \"%s\", src);"),
    ("sscanf_d", "sscanf(src, \"%d\", {a});"), ("sscanf_s", "sscanf(src, \"%s\", {a});"), ("sscanf_5s", "sscanf(src, \"%20s\", buf + {a});"),
    ("malloc", "vp = malloc({a}); r = vp != 0; free(vp);"), ("calloc1", "vp = calloc({a}, 4); r = vp != 0; free(vp);"),
    ("realloc", "vp = realloc(vp, {a}); r = vp != 0;"), ("newarr", "char *cp = new char[{a}]; r = cp[0]; delete [] cp;"),
    ("alloca", "char *ap = (char*)alloca({a}); r = ap[0];"),
    ("sqrt", "d = sqrt({a});"), ("log", "d = log({a});"), ("acos", "d = acos({a});"), ("pow", "d = pow({a}, 2);"), ("abs", "r = abs({a});"),
    ("fmod", "d = fmod(1.0, {a});"), ("strtol_base", "r = strtol(src, 0, {a});"),
    ("strlen", "r = strlen({a});"), ("strcpy", "strcpy(buf, {a});"), ("strcmp", "r = strcmp(s, {a});"), ("atoi", "r = atoi({a});"),
    ("strcat", "strcat(buf, {a});"), ("fopen", "FILE *fp = fopen({a}, \"r\"); if (fp) fclose(fp);"), ("fclose", "fclose({a});"),
    ("free", "free({a});"), ("puts", "puts({a});"), ("strchr", "r = strchr(src, {a}) != 0;"), ("fgets", "fgets(buf, {a}, stdin);"),
    ("fread", "r = fread(buf, 1, {a}, stdin);"), ("getenv", "r = getenv({a}) != 0;"),
    ("conv_char", "char c1 = {a}; r = c1;"), ("conv_uchar", "unsigned char c2 = {a}; r = c2;"), ("conv_bool", "bool b2 = {a}; r = b2;"),
    ("conv_uns", "unsigned u2 = {a}; r = u2;"), ("conv_ptr", "int *p2 = {a}; r = *p2;"), ("conv_short", "short sh = {a}; r = sh;"),
    ("conv_float", "float f2 = {a}; r = (long)f2;"), ("conv_cstr", "const char *s2 = {a}; r = s2[0];"), ("conv_int", "int i2 = {a}; r = i2;"),
    ("add_x", "r = x + {a};"), ("add_p", "p = p + {a}; r = *p;"), ("sub_p", "r = p - {a};"), ("add_s", "s = s + {a}; r = *s;"),
    ("mul_u", "r = u * {a};"), ("mul_x", "int m = x * {a}; r = m;"), ("neg_u", "u = -{a}; r = u;"),
    ("tern", "r = ({a} ? 1 : 2);"), ("not", "r = !{a};"), ("compl", "r = ~{a};"), ("and_eq", "r = (x & {a}) == 1;"),
    ("or_nz", "if (x | {a}) r = 1;"), ("logand", "if (x && {a}) r = 1;"), ("bitand_b", "if (b & {a}) r = 1;"),
    ("switch", "switch ({a}) { case 1: r = 1; break; default: break; }"), ("while", "while ({a}) { r++; break; }"),
    ("sizeof", "r = sizeof({a});"), ("sizeof_div", "r = sizeof(buf) / sizeof({a});"), ("inc_b", "b = {a}; b++; r = b;"),
    ("cmp_chain", "if (x < {a} < 5) r = 1;"), ("cmp_mod", "if (x % 5 == {a}) r = 1;"), ("cmp_and", "if ((x & 4) == {a}) r = 1;"),
    ("cmp_range", "if (x > {a} && x < 10) r = 1;"), ("cmp_strlen", "if (strlen(src) < {a}) r = 1;"), ("cmp_uchar_and", "if ((uc & 0xf0) > {a}) r = 1;"),
]
RET = [("ret_bool", "bool"), ("ret_cstr", "const char *"), ("ret_iptr", "int *"), ("ret_uns", "unsigned"), ("ret_char", "char"),
       ("ret_uchar", "unsigned char"), ("ret_void", "void")]
TWO = [
    ("memset23", "memset(buf, {a}, {b});"), ("memcpy23", "memcpy(buf, {a}, {b});"), ("calloc12", "vp = calloc({a}, {b}); r = vp != 0; free(vp);"),
    ("shl", "r = {a} << {b};"), ("div", "r = {a} / {b};"), ("cmp_eq", "if ({a} == {b}) r = 1;"), ("cmp_lt", "if ({a} < {b}) r = 1;"),
    ("strncpy23", "strncpy(buf, {a}, {b});"), ("printf12", "printf({a}, {b});"), ("fread23", "r = fread(buf, {a}, {b}, stdin);"),
    ("idx_asg", "buf[{a}] = {b};"), ("pow12", "d = pow({a}, {b});"), ("memchr23", "r = memchr(buf, {a}, {b}) != 0;"),
]
CPP_ONLY = {"newarr", "inc_b"}


def _func(name, body):
    return "long %s%s {\n    %s\n    %s\n    %s\n}\n" % (name, SIG, LOCALS, body, EPILOG)


PAIR_ATOMS_SMALL = ("i", "iout", "neg", "f", "fout", "chr", "bool", "zero", "szbuf", "str")


def multi_severity_files(lang="cpp", small_pairs=False):
    """small_pairs: two-hole constructs over the 10 basic literal kinds (100 pairs) instead of all 14 atoms (196 pairs)."""
    files = {}
    inc = PROLOG_INC if lang == "cpp" else PROLOG_INC_C
    for cname, tmpl in ONE:
        if lang == "c" and cname in CPP_ONLY:
            continue
        out = [inc]
        for an, a in ATOMS:
            out.append(_func("ms_%s_%s" % (cname, an), tmpl.replace("{a}", a)))
        files["ms_%s.%s" % (cname, lang)] = "".join(out)
    for cname, rtype in RET:
        out = [inc]
        for an, a in ATOMS:
            out.append("%s ms_%s_%s%s {\n    char buf[10]; buf[0] = src[0];\n    if (x) return %s;\n    return %s;\n}\n" % (
                rtype, cname, an, SIG, "" if rtype == "void" else {"bool": "false", "const char *": "src", "int *": "p",
                                                                   "unsigned": "u", "char": "c8", "unsigned char": "uc"}[rtype], a))
        files["ms_%s.%s" % (cname, lang)] = "".join(out)
    for cname, tmpl in TWO:
        out = [inc]
        pa = [(n, v) for n, v in ATOMS if not small_pairs or n in PAIR_ATOMS_SMALL]
        for an, a in pa:
            for bn, b in pa:
                out.append(_func("ms_%s_%s_%s" % (cname, an, bn), tmpl.replace("{a}", a).replace("{b}", b)))
        files["ms_%s.%s" % (cname, lang)] = "".join(out)
    return files


# ---------------------------------------------------------------------------------------------------------------------
# value provenance.  trigger: (name, {type: critical value K}, use statement with V = the value expression, extra
# declarations, c++ only)
TYPES = ["int", "unsigned", "char", "long"]
BIGSHIFT = {"int": "40", "unsigned": "40", "char": "40", "long": "70"}
TRIGGERS = [
    ("div", {t: "0" for t in TYPES}, "r = 100 / V;", "", False),
    ("mod", {t: "0" for t in TYPES}, "r = 100 % V;", "", False),
    ("idx_high", {t: "10" for t in TYPES}, "r = arr[V];", "int arr[10] = {0};", False),
    ("idx_high_w", {t: "12" for t in TYPES}, "arr[V] = 1; r = arr[0];", "int arr[10] = {0};", False),
    ("idx_neg", {"int": "-1", "char": "-1", "long": "-2"}, "r = arr[V];", "int arr[10] = {0};", False),
    ("idx_2d", {t: "5" for t in TYPES}, "r = m2[1][V];", "int m2[3][4] = {{0}};", False),
    ("ptr_add", {t: "11" for t in TYPES}, "int *q = arr + V; r = *q;", "int arr[10] = {0};", False),
    ("shl_big", BIGSHIFT, "r = value << V;", "unsigned value = (unsigned)a0;", False),
    ("shl_big_signed", {"int": "31", "unsigned": "31", "char": "33", "long": "31"}, "r = svalue << V;", "int svalue = a0;", False),
    ("shr_big", BIGSHIFT, "r = value >> V;", "unsigned value = (unsigned)a0;", False),
    ("shl_neg", {"int": "-1", "char": "-1", "long": "-3"}, "r = value << V;", "unsigned value = (unsigned)a0;", False),
    ("shl_lhs_neg", {"int": "-8", "char": "-8", "long": "-8"}, "r = V << 2;", "", False),
    ("ovf_add", {"int": "2147483647", "long": "9223372036854775807L"}, "r = V + 10;", "", False),
    ("ovf_mul", {"int": "1000000", "unsigned": "3000000000U"}, "r = V * 5000;", "", False),
    ("ovf_sub", {"int": "(-2147483647 - 1)"}, "r = V - 10;", "", False),
    ("signconv", {"int": "-1", "char": "-2", "long": "-3"}, "unsigned w = u0 * V; r = w;", "unsigned u0 = (unsigned)a0 + 1U;", False),
    ("signconv_asg", {"int": "-1", "long": "-3"}, "unsigned w = u0 + V; r = w / 2;", "unsigned u0 = (unsigned)a0 + 1U;", False),
    ("trunc_char", {"int": "1000", "unsigned": "300", "long": "70000"}, "char tc = V; r = tc;", "", False),
    ("sqrt_neg", {"int": "-1", "long": "-4", "char": "-2"}, "r = (long)sqrt(V);", "", False),
    ("log_zero", {t: "0" for t in TYPES}, "r = (long)log(V);", "", False),
    ("acos_big", {t: "2" for t in TYPES}, "r = (long)acos(V);", "", False),
    ("isalpha_big", {"int": "1000", "unsigned": "1000", "long": "1000"}, "r = isalpha(V);", "", False),
    ("strtol_base", {"int": "1", "unsigned": "1", "char": "1", "long": "37"}, "r = strtol(\"12\", 0, V);", "", False),
    ("memset_size", {"int": "20", "unsigned": "20", "char": "20", "long": "20"}, "memset(cbuf, 0, V); r = cbuf[0];", "char cbuf[8];", False),
    ("memset_neg", {"int": "-1", "long": "-1"}, "memset(cbuf, 0, V); r = cbuf[0];", "char cbuf[8];", False),
    ("strncpy_size", {"int": "20", "unsigned": "20", "long": "20"}, "strncpy(cbuf, \"abc\", V); r = cbuf[0];", "char cbuf[8];", False),
    ("memset_val", {"int": "300", "unsigned": "300", "long": "1000"}, "memset(cbuf, V, sizeof(cbuf)); r = cbuf[0];", "char cbuf[8];", False),
    ("malloc_neg", {"int": "-1", "long": "-10", "char": "-1"}, "char *mp = (char*)malloc(V); if (mp) { r = 1; free(mp); }", "", False),
    ("new_neg", {"int": "-1", "long": "-10"}, "char *np = new char[V]; r = 1; delete [] np;", "", True),
    ("vla_neg", {"int": "-1", "long": "-2"}, "int vla[V]; vla[0] = 1; r = vla[0];", "", False),
    ("vec_idx", {t: "5" for t in TYPES}, "r = vec[V];", "std::vector<int> vec(3);", True),
    ("vec_at", {t: "5" for t in TYPES}, "r = vec.at(V);", "std::vector<int> vec(3);", True),
    ("str_idx", {t: "7" for t in TYPES}, "r = str[V];", "std::string str = \"abc\";", True),
    ("arr_at", {t: "4" for t in TYPES}, "r = sa[V];", "std::array<int, 4> sa = {{0, 1, 2, 3}};", True),
    ("substr", {"int": "10", "unsigned": "10", "long": "10"}, "r = (long)str.substr(V).size();", "std::string str = \"abc\";", True),
    ("cmp_always", {t: "3" for t in TYPES}, "if (V == 3) r = 1; else r = 2;", "", False),
    ("cmp_unsigned_neg", {"int": "-1", "long": "-1"}, "if (u0 < V) r = 1;", "unsigned u0 = (unsigned)a0;", False),
    ("bool_idx", {t: "1" for t in TYPES}, "r = arr[V > 0];", "int arr[1] = {0};", False),
    ("sleep_range", {"int": "1000000", "unsigned": "2000000", "long": "1000000"}, "r = usleep(V);", "", False),
]
PTR_TRIGGERS = [
    ("deref", "r = (*P).m;"), ("deref_w", "(*P).m = 1; r = 0;"), ("member", "r = P->m;"), ("index0", "r = P[0].m;"),
    ("arith", "r = (P + 1)->m;"), ("call_strlen", "r = strlen((const char*)P);"), ("call_memcpy", "memcpy(P, &a0, 1); r = 0;"),
    ("free_use", "r = 1; free(P); r += *(int*)P;"),
]

INC_CPP = "#include <cstring>\n#include <cstdlib>\n#include <cmath>\n#include <cctype>\n#include <vector>\n#include <string>\n#include <array>\n#include <unistd.h>\n"
INC_C = "#include <string.h>\n#include <stdlib.h>\n#include <math.h>\n#include <ctype.h>\n#include <unistd.h>\n"


def _prov(fn, T, K, use, decl, cpp):
    """All provenance variants for one trigger instance -> list of source texts (each self-contained, unique names)."""
    U = lambda v: use.replace("V", v)
    D = decl
    out = []

    def f(tag, params, body, pre=""):
        out.append("%slong %s_%s(%s) {\n    long r = 0; %s\n    %s\n    return r;\n}\n" % (pre, fn, tag, params, D, body))
    f("literal", "int a0", U("(%s)" % K) if K.startswith("-") or K.startswith("(") else U(K))
    f("constlocal", "int a0", "const %s v = %s; %s" % (T, K, U("v")))
    f("local", "int a0", "%s v = %s; %s" % (T, K, U("v")))
    f("local_reassigned", "int a0", "%s v = 1; if (a0) v = %s; %s" % (T, K, U("v")))
    f("cond_before", "int a0, %s v" % T, "if (v == %s) {} %s" % (K, U("v")))
    f("cond_before_ne", "int a0, %s v" % T, "if (v != %s) { r = 5; } %s" % (K, U("v")))
    f("cond_after", "int a0, %s v" % T, "%s if (v == %s) { r++; }" % (U("v"), K))
    f("cond_branch", "int a0, %s v" % T, "if (v == %s) { %s }" % (K, U("v")))
    f("cond_else", "int a0, %s v" % T, "if (v != %s) { r = 3; } else { %s }" % (K, U("v")))
    f("cond_return", "int a0, %s v" % T, "if (v != %s) return 0; %s" % (K, U("v")))
    f("cond_and", "int a0, %s v" % T, "if (a0 && v == %s) { r = 2; } %s" % (K, U("v")))
    f("cond_range", "int a0, %s v" % T, "if (v >= %s) {} %s" % (K, U("v")) if not K.startswith("-") and not K.startswith("(")
      else "if (v <= %s) {} %s" % (K, U("v")))
    f("cond_while", "int a0, %s v" % T, "while (v != %s) { v++; } %s" % (K, U("v")))
    f("switch", "int a0, %s v" % T, "switch (v) { case %s: %s break; default: break; }" % (K, U("v")))
    f("ternary", "int a0", "%s v = a0 ? %s : 1; %s" % (T, K, U("v")))
    f("ternary_inline", "int a0", U("(a0 ? %s : 1)" % K))
    if K.startswith("-") or K.startswith("("):
        f("loop", "int a0", "for (%s v = 1; v >= %s; v--) { %s }" % (T, K, U("v")))
    else:
        f("loop", "int a0", "for (%s v = 0; v <= %s; v++) { %s }" % (T, K, U("v")))
    f("callee_ret", "int a0", U("%s_get()" % fn), pre="static %s %s_get(void) { return %s; }\n" % (T, fn, K))
    f("callee_ret_local", "int a0", "%s v = %s_get2(); %s" % (T, fn, U("v")),
      pre="static %s %s_get2(void) { return %s; }\n" % (T, fn, K))
    out.append("static long %s_callee(int a0, %s v) {\n    long r = 0; %s\n    %s\n    return r;\n}\n"
               "long %s_caller(int a0) { return %s_callee(a0, %s); }\n" % (fn, T, D, U("v"), fn, fn, K))
    out.append("static long %s_callee2(int a0, %s v) {\n    long r = 0; %s\n    %s\n    return r;\n}\n"
               "long %s_caller2(int a0, %s w) { if (w == %s) {} return %s_callee2(a0, w); }\n" % (fn, T, D, U("v"), fn, T, K, fn))
    out.append("#define %s_K %s\n" % (fn.upper(), K))
    f("macro", "int a0", U("%s_K" % fn.upper()))
    out.append("static const %s %s_g = %s;\n" % (T, fn, K))
    f("global_const", "int a0", U("%s_g" % fn))
    out.append("struct %s_S { %s m; };\n" % (fn, T))
    f("member", "int a0", "struct %s_S st; st.m = %s; %s" % (fn, K, U("st.m")))
    f("member_cond", "int a0, struct %s_S *sp" % fn, "if (sp->m == %s) {} %s" % (K, U("sp->m")))
    f("arith", "int a0", "%s v = %s; %s w = v + 0; %s" % (T, K, T, U("w")))
    f("cast", "int a0", "long long big = %s; %s" % (K, U("(%s)big" % T)))
    if cpp:
        f("defaultarg", "int a0, %s v = %s" % (T, K), U("v"))
        f("ref_param_cond", "int a0, const %s &v" % T, "if (v == %s) {} %s" % (K, U("v")))
        f("constexpr", "int a0", "constexpr %s v = %s; %s" % (T, K, U("v")))
        f("lambda", "int a0", "auto get = []() -> %s { return %s; }; %s" % (T, K, U("get()")))
    return out


def _ptr_prov(fn, use, cpp):
    U = lambda v: use.replace("P", v)
    out = ["struct %s_T { int m; };\n" % fn]
    PT = "struct %s_T *" % fn

    def f(tag, params, body, pre=""):
        out.append("%slong %s_%s(%s) {\n    long r = 0;\n    %s\n    return r;\n}\n" % (pre, fn, tag, params, body))
    f("literal_local", "int a0", "%sq = 0; %s" % (PT, U("q")))
    f("null_macro", "int a0", "%sq = NULL; %s" % (PT, U("q")))
    f("cond_before", "int a0, %sq" % PT, "if (q == 0) {} %s" % U("q"))
    f("cond_before_not", "int a0, %sq" % PT, "if (!q) { r = 1; } %s" % U("q"))
    f("cond_after", "int a0, %sq" % PT, "%s if (q) { r++; }" % U("q"))
    f("cond_after_null", "int a0, %sq" % PT, "%s if (q == NULL) { r++; }" % U("q"))
    f("cond_branch", "int a0, %sq" % PT, "if (!q) { %s }" % U("q"))
    f("cond_and", "int a0, %sq" % PT, "if (q && a0) { r = 2; } %s" % U("q"))
    f("cond_or", "int a0, %sq" % PT, "if (q == 0 || a0) { %s }" % U("q"))
    f("ternary", "int a0, %sq0" % PT, "%sq = a0 ? 0 : q0; %s" % (PT, U("q")))
    f("reassigned", "int a0, %sq" % PT, "if (a0) q = 0; %s" % U("q"))
    f("malloc", "int a0", "%sq = (%s)malloc(sizeof(struct %s_T)); %s free(q);" % (PT, PT, fn, U("q")))
    f("calloc", "int a0", "%sq = (%s)calloc(1, sizeof(struct %s_T)); %s free(q);" % (PT, PT, fn, U("q")))
    f("realloc", "int a0, %sq0" % PT, "%sq = (%s)realloc(q0, 64); %s free(q);" % (PT, PT, U("q")))
    f("fopen", "int a0", "FILE *fp = fopen(\"x\", \"r\"); r = fgetc(fp); fclose(fp);")
    f("callee_ret", "int a0", "%sq = %s_getnull(); %s" % (PT, fn, U("q")),
      pre="static %s%s_getnull(void) { return 0; }\n" % (PT, fn))
    f("callee_ret_cond", "int a0", "%sq = %s_maybe(a0); %s" % (PT, fn, U("q")),
      pre="static struct %s_T %s_obj;\nstatic %s%s_maybe(int c) { if (c) return 0; return &%s_obj; }\n" % (fn, fn, PT, fn, fn))
    out.append("static long %s_callee(int a0, %sq) {\n    long r = 0;\n    %s\n    return r;\n}\n"
               "long %s_caller(int a0) { return %s_callee(a0, 0); }\n" % (fn, PT, U("q"), fn, fn))
    out.append("static long %s_callee2(int a0, %sq) {\n    long r = 0;\n    %s\n    return r;\n}\n"
               "long %s_caller2(int a0, %sw) { if (!w) {} return %s_callee2(a0, w); }\n" % (fn, PT, U("q"), fn, PT, fn))
    out.append("static long %s_callee3(int a0, %sq) {\n    long r = 0;\n    %s\n    return r;\n}\n"
               "long %s_caller3(int a0) { %sw = (%s)malloc(8); return %s_callee3(a0, w); }\n" % (fn, PT, U("q"), fn, PT, PT, fn))
    f("uninit", "int a0", "%sq; %s" % (PT, U("q")))
    f("uninit_cond", "int a0", "%sq; if (a0) q = 0; %s" % (PT, U("q")))
    f("dangling", "int a0", "%sq; { struct %s_T loc; loc.m = a0; q = &loc; } %s" % (PT, fn, U("q")))
    f("freed", "int a0", "%sq = (%s)malloc(8); if (!q) return 0; free(q); %s" % (PT, PT, U("q")))
    if cpp:
        f("defaultarg", "int a0, %sq = 0" % PT, U("q"))
        f("nullptr", "int a0", "%sq = nullptr; %s" % (PT, U("q")))
        f("new_nothrow", "int a0", "%sq = new (std::nothrow) %s_T; %s delete q;" % (PT, fn, U("q")))
        f("deleted", "int a0", "%sq = new %s_T; delete q; %s" % (PT, fn, U("q")))
        f("smart", "int a0", "std::unique_ptr<%s_T> q; r = q->m;" % fn)
        f("dyncast", "int a0, %sq0" % PT, "%sq = dynamic_cast<%s>(q0); %s" % (PT, PT, U("q")))
    return out


def provenance_files(lang="cpp", types=None):
    """types: restrict the operand types (default: all of TYPES)."""
    files = {}
    cpp = lang == "cpp"
    inc = (INC_CPP + "#include <memory>\n#include <new>\n#include <cstdio>\n") if cpp else (INC_C + "#include <stdio.h>\n")
    for name, ks, use, decl, cpponly in TRIGGERS:
        if cpponly and not cpp:
            continue
        out = [inc]
        for T in TYPES:
            if T not in ks or (types and T not in types):
                continue
            fn = "pv_%s_%s" % (name, T)
            out.extend(_prov(fn, T, ks[T], use, decl, cpp))
        files["pv_%s.%s" % (name, lang)] = "".join(out)
    for name, use in PTR_TRIGGERS:
        files["pv_ptr_%s.%s" % (name, lang)] = inc + "".join(_ptr_prov("pv_ptr_%s" % name, use, cpp))
    return files
