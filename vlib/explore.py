"""Stateless, deviation-bounded exploration of the real cppcheck binary under native/vsched.c (engine S),
and a generic breadth-first explicit-state search over operation histories (engine H)."""
import os, subprocess, threading, time, itertools, collections
from concurrent.futures import ThreadPoolExecutor, wait, FIRST_COMPLETED
from . import build, run as vrun
from .core import NCPU, ROOT

SHIM_SRC = os.path.join(ROOT, "native", "vsched.c")
_shim_lock = threading.Lock()


def shim():
    """Build native/vsched.c -> build/libvsched.so (once per process, rebuilt when the source is newer)."""
    out = os.path.join(build.BUILD, "libvsched.so")
    with _shim_lock:
        if not os.path.exists(out) or os.path.getmtime(out) < os.path.getmtime(SHIM_SRC):
            os.makedirs(build.BUILD, exist_ok=True)
            tmp = out + ".%d" % os.getpid()
            subprocess.check_call(["gcc", "-O2", "-fPIC", "-shared", "-o", tmp, SHIM_SRC, "-ldl", "-lpthread"])
            os.replace(tmp, out)
    return out


Point = collections.namedtuple("Point", "kind nalts chosen free info")


class Exec:
    """One complete execution under the scheduler."""
    __slots__ = ("prefix", "points", "res", "flag", "workers", "faults")

    def choices(self):
        return [(p.chosen, p.nalts) for p in self.points]

    def cost(self):
        return sum(0 if (p.chosen == 0 or p.free) else 1 for p in self.points)

    def prefix_str(self):
        return ",".join("%d/%d" % (p.chosen, p.nalts) for p in self.points)


_tctr = itertools.count()


def run_sched(args, cwd, mode, prefix=(), variant="plain", fault=None, env=None, timeout=120, horizon=None):
    """Run the real binary once under the scheduler with the given choice prefix [(alt, nalts), ...]."""
    tracef = os.path.join(vrun.scratch_base(), "trace.%d.%d" % (os.getpid(), next(_tctr)))
    e = {"LD_PRELOAD": shim(), "VSCHED_MODE": mode, "VSCHED_TRACE": tracef,
         "VSCHED_PREFIX": ",".join("%d/%d" % (a, n) for a, n in prefix)}
    if fault:
        e["VSCHED_FAULT"] = fault
    if horizon:
        e["VSCHED_HORIZON"] = str(horizon)
    if env:
        e.update(env)
    x = Exec()
    x.prefix = list(prefix)
    x.res = vrun.cppcheck(args, cwd, variant=variant, env=e, timeout=timeout)
    x.points, x.flag, x.workers, x.faults = [], None, {}, []
    try:
        with open(tracef) as f:
            for line in f:
                w = line.split()
                if not w:
                    continue
                if w[0] == "P":
                    x.points.append(Point(w[1], int(w[2]), int(w[3]), int(w[4]), w[5] if len(w) > 5 else ""))
                elif w[0] == "W":
                    x.workers[int(w[1])] = (int(w[2]), int(w[3]))
                elif w[0] == "F":
                    x.faults.append((int(w[1]), int(w[2]), w[3]))
                elif w[0] in ("DIVERGE", "DEADLOCK", "HORIZON", "TOO-MANY-MUTEXES", "TOO-MANY-THREADS"):
                    x.flag = x.flag or line.strip()
        os.unlink(tracef)
    except FileNotFoundError:
        x.flag = "NO-TRACE"
    if x.res.timed_out:
        x.flag = x.flag or "TIMEOUT"
    return x


def _parse_trace(x, tracef):
    x.points, x.flag, x.workers, x.faults = [], None, {}, []
    try:
        with open(tracef) as f:
            for line in f:
                w = line.split()
                if not w:
                    continue
                if w[0] == "P":
                    x.points.append(Point(w[1], int(w[2]), int(w[3]), int(w[4]), w[5] if len(w) > 5 else ""))
                elif w[0] == "W":
                    x.workers[int(w[1])] = (int(w[2]), int(w[3]))
                elif w[0] == "F":
                    x.faults.append((int(w[1]), int(w[2]), w[3]))
                elif w[0] in ("DIVERGE", "DEADLOCK", "HORIZON", "TOO-MANY-MUTEXES", "TOO-MANY-THREADS"):
                    x.flag = x.flag or line.strip()
        os.unlink(tracef)
    except FileNotFoundError:
        x.flag = "NO-TRACE"


class Server:
    """Fork server inside the real binary (see native/vsched.c): command line parsed and libraries loaded once,
    then one fork per schedule at the moment the real executor starts."""

    def __init__(self, args, cwd, mode, variant="plain", env=None, binary=None, ready_timeout=120):
        import select
        self.args, self.cwd, self.mode, self.variant, self.env, self.binary = list(args), cwd, mode, variant, env, binary
        self.base = os.path.join(vrun.scratch_base(), "srv.%d.%d" % (os.getpid(), next(_tctr)))
        r1, w1 = os.pipe()
        r2, w2 = os.pipe()
        e = dict(os.environ)
        e.pop("CPPCHECK_HOME", None)
        e.update({"LC_ALL": "C", "LD_PRELOAD": shim(), "VSCHED_MODE": mode, "VSCHED_SERVER": "%d,%d" % (r1, w2)})
        if env:
            e.update(env)
        self.hout, self.herr = self.base + ".hout", self.base + ".herr"
        with open(self.hout, "wb") as ho, open(self.herr, "wb") as he:
            self.proc = subprocess.Popen([binary or build.cppcheck(variant)] + self.args, cwd=cwd, env=e, stdout=ho,
                                         stderr=he, pass_fds=(r1, w2), start_new_session=True)
        os.close(r1)
        os.close(w2)
        self.w, self.r = w1, r2
        self.buf = b""
        self.alive = True
        self.unserved = None
        line = self._readline(ready_timeout)
        if line != b"READY":
            # the run never reached a parallel executor: it simply ran to completion
            try:
                self.proc.wait(timeout=ready_timeout)
            except subprocess.TimeoutExpired:
                self._kill()
            self.alive = False
            self.unserved = vrun.Res(self.proc.returncode, open(self.hout, "rb").read(), open(self.herr, "rb").read())
        self.head_out = open(self.hout, "rb").read()
        self.head_err = open(self.herr, "rb").read()

    def _readline(self, timeout):
        import select
        end = time.time() + timeout
        while b"\n" not in self.buf:
            left = end - time.time()
            if left <= 0:
                return None
            po = select.poll()
            po.register(self.r, select.POLLIN | select.POLLHUP)
            if not po.poll(left * 1000):
                return None
            d = os.read(self.r, 4096)
            if not d:
                return b"EOF"
            self.buf += d
        line, self.buf = self.buf.split(b"\n", 1)
        return line

    def _kill(self):
        import signal
        try:
            os.killpg(self.proc.pid, signal.SIGKILL)
        except ProcessLookupError:
            pass
        try:
            self.proc.wait(timeout=10)
        except Exception:
            pass
        self.alive = False

    def run(self, prefix=(), fault=None, timeout=120):
        x = Exec()
        x.prefix = list(prefix)
        if getattr(self, "pre_run", None):
            self.pre_run()
        if self.unserved is not None:
            x.res = self.unserved
            x.points, x.flag, x.workers, x.faults = [], None, {}, []
            return x
        n = next(_tctr)
        fo, fe, ft = "%s.%d.out" % (self.base, n), "%s.%d.err" % (self.base, n), "%s.%d.tr" % (self.base, n)
        cmd = "RUN\t%s\t%s\t%s\t%s\t%s\n" % (fo, fe, ft, fault or "", ",".join("%d/%d" % (a, k) for a, k in prefix))
        os.write(self.w, cmd.encode())
        line = self._readline(timeout)
        timed_out = False
        rc = -998
        if line is None:
            timed_out = True
            self._kill()
        elif line.startswith(b"DONE"):
            rc = os.waitstatus_to_exitcode(int(line.split()[1]))
        else:
            self.alive = False

        def rd(f):
            try:
                with open(f, "rb") as fh:
                    d = fh.read()
                os.unlink(f)
                return d
            except FileNotFoundError:
                return b""
        x.res = vrun.Res(rc, self.head_out + rd(fo), self.head_err + rd(fe), timed_out=timed_out)
        _parse_trace(x, ft)
        if timed_out:
            x.flag = x.flag or "TIMEOUT"
        elif not self.alive:
            x.flag = x.flag or "SERVER-DIED"
        return x

    def close(self):
        if getattr(self, "closed", False):
            return
        self.closed = True
        if self.alive:
            try:
                os.write(self.w, b"QUIT\n")
                self.proc.wait(timeout=10)
            except Exception:
                self._kill()
        for fd in (self.w, self.r):
            try:
                os.close(fd)
            except OSError:
                pass
        for f in (self.hout, self.herr):
            try:
                os.unlink(f)
            except OSError:
                pass


class ServerPool:
    """A free-list of Servers for one fixed command line (each server is sequential, the pool is parallel)."""

    def __init__(self, factory):
        self.factory = factory
        self.free = []
        self.all = []
        self.lock = threading.Lock()

    def run(self, prefix=(), fault=None, timeout=120):
        with self.lock:
            s = self.free.pop() if self.free else None
        if s is None:
            s = self.factory()
            with self.lock:
                self.all.append(s)
        try:
            return s.run(prefix, fault, timeout)
        finally:
            if s.alive or s.unserved is not None:
                with self.lock:
                    self.free.append(s)
            else:
                s.close()

    def close(self):
        for s in self.all:
            s.close()
        self.all, self.free = [], []


class Stats:
    def __init__(self):
        self.execs = 0
        self.points = 0
        self.by_cost = collections.Counter()
        self.outcomes = collections.Counter()
        self.max_points = 0
        self.harness_errors = []
        self.capped = False
        self.lock = threading.Lock()


def explore(runfn, bound, visit, stats=None, jobs=None, deadline=None, max_execs=None):
    """Iterative-context-bounding style enumeration: every schedule whose number of (non-free) non-default
    choices is <= bound is executed exactly once.  runfn(prefix)->Exec, visit(Exec)->outcome key (hashable).
    Returns Stats.  A DIVERGE/NO-TRACE/TIMEOUT flag is a harness error (recorded, never a verdict) except that
    visit() sees the flag and may judge DEADLOCK / TIMEOUT itself."""
    stats = stats or Stats()
    jobs = jobs or NCPU
    pending = set()
    ex = ThreadPoolExecutor(max_workers=jobs)

    def task(prefix):
        x = runfn(prefix)
        key = visit(x)
        children = []
        if x.flag and x.flag.startswith("DIVERGE"):
            with stats.lock:
                stats.harness_errors.append(("DIVERGE", x.prefix_str(), x.flag))
            return children
        base = x.cost_prefix if hasattr(x, "cost_prefix") else None
        pts = x.points
        L = len(prefix)
        cost0 = sum(0 if (p.chosen == 0 or p.free) else 1 for p in pts[:L])
        for i in range(L, len(pts)):
            p = pts[i]
            c = cost0 + (0 if p.free else 1)
            if c > bound:
                continue
            head = [(q.chosen, q.nalts) for q in pts[:i]]
            for alt in range(1, p.nalts):
                children.append(head + [(alt, p.nalts)])
        with stats.lock:
            stats.execs += 1
            stats.points += len(pts)
            stats.max_points = max(stats.max_points, len(pts))
            stats.by_cost[x.cost()] += 1
            stats.outcomes[key] += 1
        return children

    pending.add(ex.submit(task, []))
    try:
        while pending:
            done, pending = wait(pending, return_when=FIRST_COMPLETED)
            for d in done:
                for child in d.result():
                    if (deadline and time.time() > deadline) or (max_execs and stats.execs + len(pending) >= max_execs):
                        stats.capped = True
                        continue
                    pending.add(ex.submit(task, child))
    finally:
        ex.shutdown(wait=True)
    return stats


def bfs(initial, transitions, apply_fn, key_fn, check_fn, max_depth, deadline=None, jobs=None):
    """Explicit-state BFS where a state is the operation history that reaches it (objects on disk do not
    copy).  apply_fn(history)->state object, key_fn(state)->canonical key, check_fn(history, state).
    Returns dict(states, transitions, depth_completed, capped)."""
    jobs = jobs or NCPU
    seen = set()
    s0 = apply_fn(list(initial))
    seen.add(key_fn(s0))
    frontier = [list(initial)]
    ntrans = 0
    depth_done = 0
    capped = False
    with ThreadPoolExecutor(max_workers=jobs) as ex:
        for depth in range(1, max_depth + 1):
            cand = [h + [t] for h in frontier for t in transitions(h)]
            nxt = []

            def one(h):
                st = apply_fn(h)
                check_fn(h, st)
                return h, key_fn(st)
            for h, k in ex.map(one, cand):
                ntrans += 1
                if k not in seen:
                    seen.add(k)
                    nxt.append(h)
                if deadline and time.time() > deadline:
                    capped = True
                    break
            if capped:
                break
            depth_done = depth
            frontier = nxt
            if not frontier:
                break
    return {"states": len(seen), "transitions": ntrans, "depth_completed": depth_done, "capped": capped}
