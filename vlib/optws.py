"""Workspace for C19 (and reused by others): small files in which every analysis option changes a finding."""

def files():
    f = {}
    f["plat.c"] = "void fp(void){ char a[5]; a[sizeof(long)] = 0; }\n"
    f["def.c"] = ("#ifdef X\nvoid g1(void){int a[2];a[2]=0;}\n#endif\n"
                  "#ifdef Y\nvoid g2(void){int a[2];a[3]=0;}\n#endif\n"
                  "void g3(void){int a[2];\n// cppcheck-suppress arrayIndexOutOfBounds\na[4]=0;}\n")
    f["inc.c"] = "#include \"h.h\"\nvoid fi(void){ int a[2]; a[IDX]=0; }\n"
    f["inc1/h.h"] = "#define IDX 2\n"
    f["inc2/h.h"] = "#define IDX 1\nstatic void hh(int *p){ if (p) {} *p = 0; }\n"
    f["std.cpp"] = "void fs(){ int *p = nullptr; *p = 1; }\nclass C { int x; public: C():x(0){} int get() { return 0; } };\n"
    f["lang.c"] = "void fl(void *p){ int *q = (int*)p; (void)q; }\nint fl2(int x){ int y; y = x; y = 2; return 1; }\n"
    f["lib.c"] = "void fu(void){ usleep(1000000); }\nvoid fw(int *p){ if (p) {} *p = 1; }\n"
    f["port.c"] = ("int fq(int *p){ int a = p; return a + 4; }\n"
                   "void fa(void){ char *p = alloca(10); (void)p; }\n"
                   "void fsemi(int x){ if (x == 1); { x = 2; } }\n")
    f["perf.cpp"] = "void fpv(const std::string s) { (void)s; }\n"
    cf = []
    for i in range(13):
        cf.append("#ifdef M%02d\nvoid c%d(void){int a[2];a[%d]=0;}\n#endif\n" % (i, i, 10 + i))
    f["cfgs.c"] = "".join(cf)
    body = "".join("  if (x == %d) y++;\n" % i for i in range(130))
    f["deep.c"] = "int fd(int x){ int y = 0; int *p = 0;\n" + body + "  if (y == 200) { *p = 0; }\n  return y; }\n"
    return f

SOURCES = ["plat.c", "def.c", "inc.c", "std.cpp", "lang.c", "lib.c", "port.c", "perf.cpp", "cfgs.c", "deep.c"]
SEV = ["warning", "style", "performance", "portability", "information"]


def base():
    return {"enable": list(SEV), "I": "inc1", "extra": []}


def optsets():
    """name -> option vector (complete command-line options except files / build dir)."""
    def mk(enable=SEV, inc="inc1", extra=()):
        return ["--enable=" + ",".join(enable), "-I" + inc, "--inline-suppr", "--error-exitcode=7"] + list(extra)
    o = {"base": mk()}
    o["platform=unix32"] = mk(extra=["--platform=unix32"])
    o["-DX"] = mk(extra=["-DX"])
    o["-UX"] = mk(extra=["-UX"])
    o["-Iinc2"] = mk(inc="inc2")
    o["std=c89"] = mk(extra=["--std=c89"])
    o["language=c++"] = mk(extra=["--language=c++"])
    o["library=posix"] = mk(extra=["--library=posix"])
    o["inconclusive"] = mk(extra=["--inconclusive"])
    o["sev=warning+info"] = mk(enable=["warning", "information"])
    o["sev=performance+info"] = mk(enable=["performance", "information"])
    o["sev=portability+info"] = mk(enable=["portability", "information"])
    o["sev=style"] = mk(enable=["style"])
    o["sev=info"] = mk(enable=["information"])
    o["max-configs=1"] = mk(extra=["--max-configs=1"])
    o["force"] = mk(extra=["--force"])
    o["check-level=exhaustive"] = mk(extra=["--check-level=exhaustive"])
    o["suppress"] = mk(extra=["--suppress=arrayIndexOutOfBounds:def.c"])
    o["unusedFunction"] = mk(enable=SEV + ["unusedFunction"])
    o["no-inline-suppr"] = [x for x in mk() if x != "--inline-suppr"]
    return o
