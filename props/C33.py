"""C33 -- compiled token-pattern matching equals the pattern language.

Three implementations are called on every enumerated token list, in one process (native/match_enum.cpp):
  compiled    -- the match<N>/findmatch<N> functions tools/matchcompiler.py generates (its own extractor and code generator are
                 imported, one function per distinct pattern literal of lib/*.cpp plus all generated patterns),
  interpreted -- Token::Match / simpleMatch / findmatch / findsimplematch of the USE_MATCHCOMPILER=Off build,
  documented  -- the language of the doc comment of Token::Match / simpleMatch, written down in the harness.
Enumerated: for a pattern with k items all token lists of length 0..k+1 whose position i ranges over the distinguishing set
of item i (full product while the tree has <= cap nodes, otherwise an accepted list, its prefixes and all <= 2-position
deviations), in 4 token-list modes (C++ latest, C latest, C89, C++03).  Tokens are real Token objects of a real TokenList.
Second, coarse binding: the plain (match compiler on) and mcoff (off) command line clients report the same findings on
samples/ and some test/cfg files.
"""
import json, os, subprocess, time
from vlib import build, run, c33_gen
from vlib.core import Ctx, pmap, sha

ROOT = os.path.dirname(os.path.dirname(os.path.abspath(__file__)))
REPO = build.REPO
NCHUNK = 16
FLAGS = ["-std=c++11", "-DDANMAR_CPPCHECK_VERIF", "-DNDEBUG", "-w", "-O1", "-I" + os.path.join(ROOT, "native"),
         "-I" + os.path.join(build.BUILD, "mcoff", "lib"), "-I" + REPO + "/lib", "-I" + REPO + "/externals/simplecpp",
         "-I" + REPO + "/externals/tinyxml2", "-I" + REPO + "/externals/picojson"]
CFG_FILES = [("std.c", []), ("posix.c", ["--library=posix"]), ("gnu.c", ["--library=posix,gnu"]), ("std.cpp", []),
             ("boost.cpp", ["--library=boost"]), ("sqlite3.c", ["--library=sqlite3"])]


def _uptodate(obj, src):
    """make-like: object newer than its source and every header recorded by -MMD."""
    try:
        mt = os.path.getmtime(obj)
        if os.path.getmtime(src) > mt:
            return False
        deps = open(obj[:-2] + ".d").read().replace("\\\n", " ").split(":", 1)[1].split()
        return all(os.path.getmtime(d) <= mt for d in deps)
    except (OSError, IndexError):
        return False


def build_harness(tier):
    """Extract, generate, compile (cached per chunk) and link; returns (binary, table summary)."""
    gdir = os.path.join(build.BUILD, "harness", "c33", tier)
    os.makedirs(gdir, exist_ok=True)
    lib, ncalls = c33_gen.extract_lib_patterns(REPO, gdir)
    gen = c33_gen.generated_patterns(tier)
    libkeys = set((p["kind"], p["pattern"], p["varid"], p["end"]) for p in lib)
    gen = [p for p in gen if (p["kind"], p["pattern"], p["varid"], p["end"]) not in libkeys]
    srcs = c33_gen.write_sources(REPO, lib + gen, gdir, NCHUNK)
    srcs.append(os.path.join(ROOT, "native", "match_enum.cpp"))
    jobs = []
    objs = []
    for s in srcs:
        o = os.path.join(gdir, os.path.basename(s)[:-4] + ".o")
        objs.append(o)
        if not _uptodate(o, s):
            jobs.append(["g++"] + FLAGS + ["-MMD", "-MF", o[:-2] + ".d", "-c", s, "-o", o])
    log = os.path.join(gdir, "build.log")

    def cc(cmd):
        p = subprocess.run(cmd, stdout=subprocess.PIPE, stderr=subprocess.STDOUT)
        return p.returncode, p.stdout.decode("utf-8", "replace")
    with open(log, "a") as lf:
        for rc, out in pmap(cc, jobs):
            lf.write(out)
            if rc != 0:
                raise SystemExit("BUILD-ERROR: C33 harness does not compile, see %s\n%s" % (log, out[-2000:]))
        exe = os.path.join(build.BUILD, "harness", "match_enum.%s" % tier)
        core = os.path.join(build.BUILD, "mcoff", "lib", "CMakeFiles", "cppcheck-core.dir")
        cobjs = sorted(os.path.join(core, f) for f in os.listdir(core) if f.endswith(".o"))
        cmd = ["g++"] + objs + cobjs + [os.path.join(build.BUILD, "mcoff", "lib", "libsimplecpp.a"),
                                        os.path.join(build.BUILD, "mcoff", "lib", "libtinyxml2.a"), "-o", exe]
        rc, out = cc(cmd)
        lf.write(out)
        if rc != 0:
            raise SystemExit("BUILD-ERROR: C33 harness does not link, see %s\n%s" % (log, out[-2000:]))
    return exe, {"lib_call_sites": ncalls, "lib_distinct": len(lib), "generated": len(gen), "recompiled_units": len(jobs)}


# ---------------------------------------------------------------------------------------------------------------- judging
def _neg(kind, v):
    """result means 'no match (here)'"""
    return v in ("false", "null")


def classify(d):
    """Keys for one disagreement record.  A hint of the harness explains a disagreement only in the direction the known
    defect works; everything else gets a key of its own (-> VIOLATION)."""
    hints = d["hints"]
    opt = "optional-item-after-last-token" in hints
    typed = sorted(set(h.split(":")[1] for h in hints if h.startswith("typed-literal:")))
    c, i, doc = d["compiled"], d["interpreted"], d["documented"]
    find = d["kind"].startswith("find")

    def weaker(x, ref):     # x says "no match" / a later match where ref says match
        if x == ref:
            return False
        if x in ("false", "null"):
            return True
        return find and ref.startswith("token[") and x.startswith("token[") and int(x[6:-1]) > int(ref[6:-1])
    keys = []
    if doc != "silent":
        c_ok = c == doc or (typed and weaker(c, doc))
        i_ok = i == doc or (opt and weaker(i, doc))
        if c_ok and i_ok:
            if c != doc:
                keys += ["compiled-typed-literal:" + w for w in typed]
            if i != doc:
                keys.append("interpreted-optional-item-after-last-token")
    else:
        # the doc comment does not decide the case: only compiled vs interpreted
        if opt and not typed and weaker(i, c):
            keys.append("interpreted-optional-item-after-last-token")
        elif typed and not opt and weaker(c, i):
            keys += ["compiled-typed-literal:" + w for w in typed]
    if not keys:
        keys = ["other:%s:%s:%s" % (d["cat"], d["kind"], d["pattern"])]
    return keys


def run_harness(ctx, exe, tier):
    cap = 200000 if tier == "quick" else 3000000
    cmd = [exe, "--jobs", str(min(16, os.cpu_count() or 4)), "--modes", "cpp,c,c89,cpp03", "--cap", str(cap),
           "--deadline", str(max(30, int(ctx.time_left() - 120)))]
    p = subprocess.run(cmd, stdout=subprocess.PIPE, stderr=subprocess.PIPE)
    stats = None
    diffs, sums = [], []
    for line in p.stdout.decode("utf-8", "replace").splitlines():
        try:
            r = json.loads(line)
        except ValueError:
            continue
        if r["type"] == "stats":
            stats = r
        elif r["type"] == "diff":
            diffs.append(r)
        elif r["type"] == "patsum":
            sums.append(r)
        elif r["type"] == "worker-died":
            ctx.violation("harness:worker-died", "a worker of the match harness died (status %s)" % r["status"], r)
    if p.returncode != 0 or stats is None:
        ctx.violation("harness:failed", "match harness failed rc=%s: %s" % (p.returncode, p.stderr.decode("utf-8", "replace")[-800:]),
                      {"cmd": cmd})
        return None
    if stats["selfcheck_bad"]:
        ctx.violation("harness:token-types", "addtoken() and the lexer path give different token types (%d cases): %s" % (
            stats["selfcheck_bad"], p.stderr.decode("utf-8", "replace")[-600:]), {"cmd": cmd})
    # every pattern with a disagreement has at least one written-out witness per category; classify the witnesses
    explained = set()
    for d in diffs:
        keys = classify(d)
        for k in keys:
            ctx.violation(k, "%s(tok, \"%s\") on %s [%s]: compiled=%s interpreted=%s documented=%s" % (
                d["kind"], d["pattern"], d["tokens"], d["mode"], d["compiled"], d["interpreted"], d["documented"]),
                {"harness": d, "tier": tier})
        ctx.bump("disagreeing_witnesses_classified")
    ctx.bump("patterns_with_disagreement", len(set((s["kind"], s["pattern"], s["has_end"]) for s in sums)))
    return stats


# ---------------------------------------------------------------------------------------------------------------- CLI binding
def cli_cases():
    cases = []
    sdir = os.path.join(REPO, "samples")
    for sub in sorted(os.listdir(sdir)):
        for f in sorted(os.listdir(os.path.join(sdir, sub))):
            if f.endswith((".c", ".cpp")):
                cases.append((os.path.join(sdir, sub, f), []))
    for f, opts in CFG_FILES:
        cases.append((os.path.join(REPO, "test", "cfg", f), opts))
    return cases


def cli_run(case, variant):
    path, opts = case
    with run.WS() as ws:
        name = os.path.basename(path)
        ws.write(name, open(path, "rb").read())
        r = run.cppcheck(["-q", "--enable=all", "--inconclusive", "--template={file}:{line}:{column}:{severity}:{id}:{message}"] + opts + [name],
                         ws.dir, variant=variant, timeout=600)
    lines = sorted(l for l in r.text_err().splitlines() if l.strip())
    return r.rc, lines, r.timed_out


def cli_binding(ctx):
    cases = cli_cases()
    work = [(c, v) for c in cases for v in ("plain", "mcoff")]
    res = {}
    for (c, v), out in zip(work, pmap(lambda w: cli_run(*w), work)):
        res[(c[0], v)] = out
    for c in cases:
        a, b = res[(c[0], "plain")], res[(c[0], "mcoff")]
        ctx.count()
        ctx.bump("cli_files_compared")
        ctx.bump("cli_findings_compared", len(a[1]))
        if a[2] or b[2]:
            ctx.bump("cli_timeouts")
            continue
        if a[0] != b[0] or a[1] != b[1]:
            only_a = [l for l in a[1] if l not in b[1]]
            only_b = [l for l in b[1] if l not in a[1]]
            rel = os.path.relpath(c[0], REPO)
            ctx.violation("cli:" + rel, "plain and mcoff clients differ on %s: only compiled %s, only interpreted %s" % (
                rel, only_a[:3], only_b[:3]), {"cli_file": c[0], "options": c[1], "only_plain": only_a, "only_mcoff": only_b})
        elif a[1]:
            ctx.distinct("cli:" + c[0])


def main(tier, replay=None):
    ctx = Ctx("C33", tier, "model_checking", 240 if tier == "quick" else 1800, replay)
    build.build("mcoff")
    build.build("plain")
    if replay:
        a = replay["artefact"]
        if "cli_file" in a:
            for v in ("plain", "mcoff"):
                print("==", v, cli_run((a["cli_file"], a["options"]), v))
            return 0
        exe, _ = build_harness(a.get("tier", "quick"))
        d = a["harness"]
        print("expected: compiled == interpreted == documented; recorded: compiled=%s interpreted=%s documented=%s" % (
            d["compiled"], d["interpreted"], d["documented"]))
        cmd = [exe, "--replay", "--kind", d["kind"], "--pattern", d["pattern"], "--mode", d["mode"], "--tokens", " ".join(d["tokens"])]
        if d["has_end"]:
            cmd += ["--hasend", "--endpos", str(d["endpos"])]
        print("observed:")
        return subprocess.call(cmd)
    t0 = time.time()
    exe, table = build_harness(tier)
    tbuild = time.time() - t0
    stats = run_harness(ctx, exe, tier)
    cli_binding(ctx)
    if stats:
        ctx.count(stats["calls"])
        for k in ("compiled", "interpreted", "documented"):
            for kk, v in stats[k].items():
                ctx.cov["%s_%s" % (k, kk)] = v
        ctx.cov.update({"patterns": stats["patterns"], "pattern_runs": stats["pattern_runs"], "token_lists": stats["lists"],
                        "match_calls": stats["calls"], "calls_by_kind": dict(zip(c33_gen.KINDS, stats["calls_by_kind"])),
                        "full_product_runs": stats["full_product_runs"], "two_deviation_runs": stats["deviation_runs"],
                        "raw_disagreements_compiled_vs_interpreted": stats["diff_compiled_interpreted"],
                        "raw_disagreements_doc_vs_both": stats["diff_doc_impl"], "doc_silent_calls": stats["documented"]["silent"],
                        "patterns_skipped_by_deadline": stats["skipped_by_deadline"], "harness_wall_s": stats["wall_s"],
                        "harness_build_s": round(tbuild, 1), "states": stats["lists"], "transitions": stats["calls"],
                        "traces_validated_against_impl": stats["calls"]})
        ctx.cov.update(table)
        # distinct non-trivial cases: patterns for which both outcomes occurred is not tracked per pattern; count patterns
        ctx._distinct.update("pattern-%d" % i for i in range(stats["patterns"]))
        if stats["skipped_by_deadline"]:
            ctx.capped = True
    ctx.samples = [{"pattern": "%name% (|", "tokens": ["x#1", "("], "meaning": "variable x (varid 1) followed by '('; all three matchers are called"},
                   {"pattern": "::|.|const|volatile|restrict", "tokens": ["restrict"], "mode": "cpp",
                    "meaning": "lib pattern against a name token 'restrict' (not a keyword in C++)"}]
    ctx.assumptions = ["token lists are made with TokenList::addtoken + Token::varId/link, a self-check compares the token types with "
                       "the lexer path (createTokensFromBuffer) for 46 texts in every mode",
                       "variables (varid) are only given to names that are not keywords of the mode; varid argument is always non-zero",
                       "where the doc comment is silent (true/false as %name%, prefixed literals, '|' as a word, sets containing "
                       "'|' or brackets) only compiled vs interpreted is compared"]
    return ctx.finish(
        rule="every distinct (kind, pattern, varid, end) literal matchcompiler.py extracts from lib/*.cpp + all generated patterns of "
             "<= 2 items over a %d-item vocabulary of the documented grammar + all 3-item patterns over a reduced vocabulary; per "
             "pattern all token lists of length 0..k+1 over the per-position distinguishing sets (full product up to the node cap, "
             "else <= 2 deviations from an accepted list), 4 token-list modes; findmatch with every end position; plus the plain vs "
             "mcoff command line clients on samples/ and %d test/cfg files" % (len(c33_gen.VOCAB), len(CFG_FILES)))
