"""C18 -- incremental analysis is transparent across edit histories.

Engine H: breadth-first explicit-state search; a state is the edit history that reaches it (replayed on a fresh
workspace + empty build dir), canonicalised by a hash of (workspace files, command line order, build-dir contents).
Every transition is one edit followed by one run of the real binary with --cppcheck-build-dir; after every
transition the run must report exactly what a run without build dir reports on the current workspace."""
import os, shutil, collections, threading, itertools
from concurrent.futures import ThreadPoolExecutor
from vlib import build, run
from vlib.core import Ctx, sha, NCPU, canon

OPTS = ["-q", "--enable=all", "--inline-suppr", "--error-exitcode=7", "--suppress=missingIncludeSystem"]

H = "#include \"h2.h\"\nstatic int hv(int *p) { if (p) {} return *p; }\n"
H2 = "#define HIDX 2\n"          # second-level header
EH = "#define EH_UNUSED 1\n"       # a header that can become token-less (comment only)
A = ("#include \"e.h\"\n#include \"h.h\"\n"
     "void fa(void) { int a[2];\n a[HIDX] = 0; }\n"
     "int ua(void) { return 1; }\n"
     "void fa2(int *p) { if (!p) { g(); }\n *p = 0; }\n")
B = ("#include \"h.h\"\n"
     "void g(void) { }\n"
     "void fb(int x) { int b[3];\n b[3] = x; }\n")
C = "int ua(void);\nvoid fc(void) { int c[1]; c[1] = ua(); }\n"
DA = "void fda(void) { int d[4]; d[4] = 0; }\n"


def initial():
    return {"files": {"h.h": H, "h2.h": H2, "e.h": EH, "a.c": A, "b.c": B}, "order": ["a.c", "b.c"], "touch": 0}


def rep(s, name, old, new):
    f = dict(s["files"])
    if name not in f or old not in f[name]:
        return None
    f[name] = f[name].replace(old, new, 1)
    return dict(s, files=f)


def toggle(s, name, x, y):
    return rep(s, name, x, y) or rep(s, name, y, x)


def e_token(s): return toggle(s, "a.c", "a[HIDX] = 0", "a[1] = 0")
def e_line1(s): return rep(s, "a.c", "void fa(void)", "\nvoid fa(void)")
def e_line256(s): return rep(s, "a.c", "void fa(void)", "\n" * 256 + "void fa(void)")
def e_col1(s): return rep(s, "a.c", " a[", "  a[")
def e_col256(s): return rep(s, "a.c", " a[", " " * 257 + "a[")
def e_comment(s): return toggle(s, "a.c", "a[2];\n", "a[2]; // note\n")
def e_htoken(s): return toggle(s, "h2.h", "HIDX 2", "HIDX 1")
def e_hempty(s): return toggle(s, "e.h", "#define EH_UNUSED 1\n", "// nothing left here\n")
def e_hline256(s): return toggle(s, "h.h", "static int hv", "\n" * 256 + "static int hv")
def e_hline1(s): return toggle(s, "h2.h", "#define HIDX", "\n#define HIDX")
def e_binclude(s): return toggle(s, "b.c", "#include \"h.h\"\n", "/* no include */\n")


def e_addc(s):
    f = dict(s["files"]); o = list(s["order"])
    if "c.c" in f:
        del f["c.c"]; o.remove("c.c")
    else:
        f["c.c"] = C; o.append("c.c")
    return dict(s, files=f, order=o)


def e_add_da(s):
    f = dict(s["files"]); o = list(s["order"])
    if "d/a.c" in f:
        del f["d/a.c"]; o.remove("d/a.c")
    else:
        f["d/a.c"] = DA; o.insert(0, "d/a.c")
    return dict(s, files=f, order=o)


def e_rename(s):
    f = dict(s["files"]); o = list(s["order"])
    src, dst = ("a.c", "z.c") if "a.c" in f else ("z.c", "a.c")
    if src not in f:
        return None
    f[dst] = f.pop(src)
    o[o.index(src)] = dst
    return dict(s, files=f, order=o)


def e_touch(s): return dict(s, touch=s["touch"] + 1)


def e_swap(s):
    f = dict(s["files"])
    an = "a.c" if "a.c" in f else "z.c"
    f[an], f["b.c"] = f["b.c"], f[an]
    return dict(s, files=f)


def e_suppress(s): return toggle(s, "b.c", "int b[3];\n", "int b[3];\n// cppcheck-suppress arrayIndexOutOfBounds\n")
def e_noreturn(s): return toggle(s, "b.c", "void g(void) { }", "void g(void) { exit(1); }")
def e_reorder(s): return dict(s, order=list(reversed(s["order"])))


EDITS = collections.OrderedDict([
    ("token", e_token), ("line+1", e_line1), ("line+256", e_line256), ("col+1", e_col1), ("col+256", e_col256),
    ("comment", e_comment), ("hdr-token", e_htoken), ("hdr-empty", e_hempty), ("hdr-line+256", e_hline256), ("hdr-line+1", e_hline1),
    ("b-include", e_binclude), ("add-c", e_addc), ("add-d/a.c", e_add_da), ("rename-a", e_rename), ("touch", e_touch),
    ("swap-a-b", e_swap), ("suppress", e_suppress), ("noreturn-g", e_noreturn), ("reorder", e_reorder),
])


def observe(args, cwd):
    fs, r = run.findings_xml(args, cwd)
    if fs is None:
        return ("XML-BROKEN", r.rc)
    return (tuple(sorted(run.fkey(f) for f in fs)), r.rc)


def wskey(s):
    return sha([sorted(s["files"].items()), s["order"]])


class World:
    def __init__(self):
        self.fresh = {}
        self.lock = threading.Lock()
        self.ctr = itertools.count()

    def materialise(self, s, d):
        for n, c in s["files"].items():
            p = os.path.join(d, n)
            os.makedirs(os.path.dirname(p), exist_ok=True)
            old = None
            if os.path.exists(p):
                with open(p) as fh:
                    old = fh.read()
            if old != c or s["touch"]:
                with open(p, "w") as fh:
                    fh.write(c)
        for root, _, fs in os.walk(d):
            if root.startswith(os.path.join(d, "bd")):
                continue
            for f in fs:
                rel = os.path.relpath(os.path.join(root, f), d)
                if rel not in s["files"]:
                    os.unlink(os.path.join(root, f))

    def fresh_result(self, s):
        k = wskey(s)
        with self.lock:
            if k in self.fresh:
                return self.fresh[k]
        with run.WS(s["files"]) as w:
            r = observe(OPTS + s["order"], w.dir)
        with self.lock:
            self.fresh[k] = r
        return r

    def replay(self, hist, jobs):
        """Replay a whole history on a fresh workspace; returns (state, last cached result, bd-key)."""
        s = initial()
        w = run.WS(s["files"])
        os.makedirs(w.path("bd"))
        res = observe(OPTS + ["-j%d" % jobs[0], "--cppcheck-build-dir=bd"] + s["order"], w.dir)
        for i, e in enumerate(hist):
            s2 = EDITS[e](s)
            if s2 is None:
                w.close()
                return None, None, None
            s = s2
            self.materialise(s, w.dir)
            res = observe(OPTS + ["-j%d" % jobs[i + 1], "--cppcheck-build-dir=bd"] + s["order"], w.dir)
        items = []
        for root, _, fs in os.walk(w.path("bd")):
            for f in sorted(fs):
                with open(os.path.join(root, f), "rb") as fh:
                    items.append((f, sha(fh.read())))
        w.close()
        return s, res, sha([wskey(s), sorted(items)])


def diff(a, b):
    if a[0] == "XML-BROKEN" or b[0] == "XML-BROKEN":
        return {"xml": "broken", "rc_fresh": a[1], "rc_cached": b[1]}
    ca, cb = collections.Counter(a[0]), collections.Counter(b[0])
    sh = lambda c: sorted("%s@%s:%s:%s" % (k[0], k[5][-1][0] if k[5] else "", k[5][-1][1] if k[5] else "", k[5][-1][2] if k[5] else "") for k in c.elements())
    return {"missing_in_cached": sh(ca - cb), "extra_in_cached": sh(cb - ca), "rc_fresh": a[1], "rc_cached": b[1]}


def main(tier, replay=None):
    ctx = Ctx("C18", tier, "model_checking", 1500 if tier == "quick" else 5400, replay)
    build.build("plain")
    W = World()
    depth = 2 if tier == "quick" else 3
    if replay:
        a = replay["artefact"]
        s, res, _ = W.replay(a["history"], a["jobs"])
        fr = W.fresh_result(s)
        print(diff(fr, res))
        return 0 if fr == res else 1

    def fails(hist, jobs):
        s, res, k = W.replay(hist, jobs)
        if s is None:
            return None
        return W.fresh_result(s) != res

    def minimise(hist, jobs):
        hist, jobs = list(hist), list(jobs)
        i = 0
        while i < len(hist) and len(hist) > 1:
            h2, j2 = hist[:i] + hist[i + 1:], jobs[:i + 1] + jobs[i + 2:]
            if fails(h2, j2):
                hist, jobs = h2, j2
            else:
                i += 1
        return hist, jobs

    seen = set()
    ntrans = 0
    frontier = [([], [1])]
    s0, r0, k0 = W.replay([], [1])
    seen.add(k0)
    if W.fresh_result(s0) != r0:
        ctx.violation("initial", "first run with empty build dir differs from fresh run", {"history": [], "jobs": [1],
                      "diff": diff(W.fresh_result(s0), r0)})
    names = list(EDITS)
    jobalts = [1] if tier == "quick" else [1, 2]
    depth_done = 0
    with ThreadPoolExecutor(NCPU) as ex:
        for d in range(1, depth + 1):
            cand = [(h + [e], j + [jj]) for (h, j) in frontier for e in names for jj in jobalts]
            if tier == "quick" and d == 1:
                cand += [(h + [e], j + [2]) for (h, j) in frontier for e in names]
            nxt = []

            def one(hj):
                if ctx.expired():
                    return hj, None, None, None
                h, j = hj
                s, res, k = W.replay(h, j)
                return hj, s, res, k
            for hj, s, res, k in ex.map(one, cand):
                if s is None:
                    continue
                ntrans += 1
                ctx.count()
                fr = W.fresh_result(s)
                if fr != res:
                    mh, mj = minimise(hj[0], hj[1])
                    dd = diff(fr, res)
                    only_cr = all(x.startswith("checkersReport") for x in dd.get("missing_in_cached", []) + dd.get("extra_in_cached", [])) \
                        and dd.get("rc_fresh") == dd.get("rc_cached") and "xml" not in dd
                    key = "hist:" + ">".join(mh) + ("|j" + "".join(map(str, mj)) if any(x != 1 for x in mj) else "")
                    if only_cr:
                        key = "checkersReport-only:" + key
                    ctx.violation(key, "history %s jobs %s (minimal %s): cached run differs from fresh run: %s" % (hj[0], hj[1], mh, str(dd)[:300]),
                                  {"history": hj[0], "jobs": hj[1], "minimal_history": mh, "minimal_jobs": mj, "diff": dd})
                if k not in seen:
                    seen.add(k)
                    nxt.append(hj)
            if ctx.capped:
                break
            depth_done = d
            frontier = nxt
    ctx.cov.update({"states": len(seen), "transitions": max(1, ntrans), "traces_validated_against_impl": ntrans,
                    "depth_completed": depth_done, "edit_alphabet": names, "evaluations": ntrans,
                    "distinct_nontrivial": len(seen), "distinct_workspaces": len(W.fresh)})
    ctx.samples = [{"history": ["line+256", "token"], "meaning": "insert 256 blank lines in a.c, run, change a token, run"},
                   {"initial_workspace": initial()["files"]}]
    ctx.assumptions = ["every transition is an edit followed by a run of the real binary on the same build directory",
                       "state key = hash(workspace, command-line order, build-dir contents); states reached by different histories "
                       "with equal keys are expanded once", "fresh reference memoised per workspace"]
    return ctx.finish(rule="BFS over edit histories up to depth %d (completed %d) over %d edits x job counts %s; states = distinct "
                           "(workspace, build dir) keys" % (depth, depth_done, len(names), jobalts))
