"""C10 -- literal and constant values match the compiler on each platform.

Style I, reference = compiler.  Every literal spelling (bases, digit separators, suffixes, escapes, multi-character
constants, prefixes) and every constant expression of the list (sizeof, casts of boundary values, unsigned wrap-around,
shifts, division of negatives) is written as `void fN(void){ (void)(EXPR); }`, thousands per file, one
`cppcheck --dump --platform=P` per file (built-in platforms and generated platform XML files whose sizes are those of a
clang target).  The Known value cppcheck puts on the root token of EXPR must satisfy a static assertion compiled for the
matching target: sign and 64-bit magnitude are compared separately.  Failing assertions are probed bit by bit to learn the
compiler's value (for the report and the class key).  Floating values: the dump prints 12 significant digits, so only a
relative difference above 1e-11 is decidable; it is judged with g++ (IEEE double/float are the same on all targets).
"""
import os, re, subprocess, struct
from vlib import build, run, dumpx
from vlib.core import Ctx, NCPU
from props import C09 as T

BOUND = [0, 1, 7, 8, 9, 10, 127, 128, 255, 256, 32767, 32768, 65535, 65536, 2 ** 31 - 1, 2 ** 31, 2 ** 32 - 1, 2 ** 32,
         2 ** 63 - 1, 2 ** 63, 2 ** 64 - 1]
SUFFIX = ["", "u", "U", "l", "L", "ul", "lu", "ll", "LL", "ull", "llu", "uLL", "z", "uz"]
CTYPES = ["_Bool", "char", "signed char", "unsigned char", "short", "unsigned short", "int", "unsigned int", "long",
          "unsigned long", "long long", "unsigned long long"]
FBOUND = ["0.0", "1.0", "0.1", "0.5", "1.1", "3.14159265358979", "1e10", "1e-10", "123456.789", "16777217.0", "1e38", "1e-38", "2.5e-3"]
FSUF = ["", "f", "F", "l", "L"]


def spell(v, base, sep):
    if base == "dec":
        s = "%d" % v
        pre = ""
    elif base in ("0x", "0X"):
        s = "%x" % v if base == "0x" else "%X" % v
        pre = base
    elif base == "oct":
        s = "%o" % v
        pre = "0"
    else:
        s = "{0:b}".format(v)
        pre = "0b"
    if sep:
        if len(s) < 2:
            return None
        s = s[:-1] + "'" + s[-1:] if len(s) < 4 else s[:-3] + "'" + s[-3:]
    if base == "oct" and v == 0 and not sep:
        return "00"
    return pre + s


def expressions(lang):
    """-> list of (kind key, text, root str | None)"""
    ex = []
    for v in BOUND:
        for base in ("dec", "0x", "0X", "oct", "0b"):
            for suf in SUFFIX:
                for sep in (False, True):
                    if (sep or suf in ("z", "uz")) and lang == "c":
                        continue            # C11 has neither digit separators nor the z suffix
                    if base == "dec" and "u" not in suf.lower() and v > 2 ** 63 - 1:
                        continue            # "the integer constant has no type"
                    t = spell(v, base, sep)
                    if t is not None:
                        ex.append(("intlit:%s:%s:%s:%d" % (base, suf, "sep" if sep else "plain", v), t + suf, None))
    chars = [chr(c) for c in range(32, 127) if chr(c) not in "'\\"]
    escs = ["\\'", "\\\"", "\\?", "\\\\", "\\a", "\\b", "\\f", "\\n", "\\r", "\\t", "\\v", "\\0", "\\7", "\\101", "\\377",
            "\\x0", "\\x41", "\\xff", "\\x7f", "\\200"]
    for pre in ("", "L", "u", "U") + (("u8",) if lang == "cpp" else ()):
        for c in chars + escs:
            ex.append(("charlit:%s:%s" % (pre, c), "%s'%s'" % (pre, c), None))
    for c in ("ab", "abcd", "a\\n", "\\377a", "\\0\\0", "\\x41\\x42"):
        ex.append(("multichar:%s" % c, "'%s'" % c, None))
    if lang == "cpp":
        ex.append(("boollit:true", "true", None))
        ex.append(("boollit:false", "false", None))
    for f in FBOUND:
        for suf in FSUF:
            ex.append(("floatlit:%s:%s" % (f, suf), f + suf, None))
    for f in ("1.", ".5", "1e3", "1E3", "1e+3", "1.5e-3", "0x1p3", "0x1.8p1", "0X1P-2", "0x.8p1", "1.e2", "1e0f", "0x1p3f"):
        ex.append(("floatlit:%s:" % f, f, None))
    tn = dict(zip(CTYPES, CTYPES))
    if lang == "cpp":
        tn["_Bool"] = "bool"
    for t in CTYPES + ["float", "double", "long double", "void *", "int *", "char *", "wchar_t" if lang == "cpp" else "__WCHAR_TYPE__",
                       "struct S1", "struct S2", "struct S3", "enum E"]:
        ex.append(("sizeof:%s" % t, "sizeof(%s)" % tn.get(t, t), "("))
    for t in ("char", "short", "int", "long", "long long", "double", "int *"):
        ex.append(("sizeofarr:%s" % t, "sizeof(%s[3])" % t, "("))
    for v in ("a_c", "a_i", "a_l", "a_p", "a_arr", "a_s2"):
        ex.append(("sizeofvar:%s" % v, "sizeof %s" % v, "("))
    for t in CTYPES:
        for k in BOUND + [-1, -128, -129, -32768, -32769, -2 ** 31]:
            if k > 2 ** 63 - 1:
                lit = "%dull" % k
            elif k > 2 ** 31 - 1:
                lit = "%dll" % k
            elif k < 0:
                lit = "(%d)" % k if k > -2 ** 31 else "(-2147483647-1)"
            else:
                lit = "%d" % k
            ex.append(("cast:%s:%d" % (t, k), "(%s)%s" % (tn[t], lit), "("))
    cexprs = ["0u-1", "1u<<31", "~0u", "-1/2", "-1%2", "-1>>1", "(unsigned char)256", "'a'+1", "sizeof(int)*2", "0ul-1", "0ull-1",
              "4294967295u+1", "4294967295u*2u", "65535u*65537u", "~0", "~0ul", "~0ull", "1ull<<63", "1ul<<31", "-1u", "-1ul",
              "-(unsigned char)1", "-(unsigned short)1", "(unsigned char)255+1", "(unsigned short)65535+1", "7/-2", "7%-2", "-7/2",
              "-7%2", "1<<30", "255>>1", "-8>>1", "0u-1>0", "-1<0u", "-1<0", "(short)65535<0", "(long)-1", "2147483647u+1u",
              "0x7fffffff+0x7fffffffu", "(unsigned)-1/2", "-1/2u", "5u-10u", "(char)255+(char)1", "(unsigned char)200+(unsigned char)100",
              "sizeof(char)-2>0", "sizeof(int)+sizeof(long)", "!0", "!5", "1&&0", "1||0", "3==3", "2>3", "1?2:3", "0?2u:-1", "(1,2)",
              "'\\377'+0", "L'\\xff'+0", "'a'-'A'", "10u%3u", "10/3*3", "~(unsigned char)0", "~(unsigned short)0", "(-2147483647-1)/1u"]
    for c in cexprs:
        ex.append(("cexpr:" + c, c, None))
    return ex


DECLS = ("struct S1 { char c; }; struct S2 { char c; int i; }; struct S3 { short s; char c; };\n"
         "enum E { EN = -1, E0, E1 };\n"
         "char a_c; int a_i; long a_l; int *a_p; int a_arr[5]; struct S2 a_s2;\n")


def observe(plat_args, lang, exprs, extra_files=None):
    """one cppcheck run -> per expression (claim | None, status, valuetype)
    claim = ('int', python int) | ('float', text) ; status ok / noroot / noknown / rejected:<id>"""
    fn = "t.c" if lang == "c" else "t.cpp"
    hl = DECLS.count("\n")
    lines = ["void f%d(void){ (void)(%s); }" % (j, e[1]) for j, e in enumerate(exprs)]
    res = [None] * len(exprs)
    flaky = 0
    with run.WS(extra_files or {}) as ws:
        for attempt in range(300):
            ws.write(fn, DECLS + "\n".join(lines) + "\n")
            ws.remove(fn + ".dump")
            r = dumpx.cppcheck_retry(["-q", "--dump", "--std=" + T.STD[lang]] + plat_args + [fn], ws.dir, timeout=900)
            d = dumpx.parse(ws.path(fn + ".dump"), min_line=hl + 1, want_values=True) if os.path.exists(ws.path(fn + ".dump")) else None
            if d is not None and d.tokens:
                break
            prog = False
            for (_f, ln, _c, sev, msg, did) in dumpx.diagnostics(r.text_err()):
                j = ln - hl - 1
                if sev == "error" and 0 <= j < len(exprs) and res[j] is None:
                    res[j] = (None, "rejected:" + did, None)
                    lines[j] = ""
                    prog = True
            if not prog:
                flaky += 1
                if flaky <= 10 and "error" not in r.text_err():   # no dump, no diagnostic: the binary is being relinked by another check
                    import time
                    time.sleep(3)
                    continue
                raise RuntimeError("no dump: " + r.text_err()[:400])
        bl = d.lines()
        for j, e in enumerate(exprs):
            if res[j] is not None:
                continue
            lt = bl.get(hl + 1 + j, [])
            cast = None
            for t in lt:
                if t["str"] == "(" and t.get("isCast") == "true" and not t.get("astParent"):
                    cast = t
                    break
            root = d.by_id.get(cast.get("astOperand1")) if cast is not None else None
            if root is None or (e[2] is not None and root["str"] != e[2]):
                res[j] = (None, "noroot", None)
                continue
            vt = (root.get("valueType-type"), root.get("valueType-sign"), root.get("valueType-pointer"))
            known = [v for v in d.values.get(root.get("values"), []) if v.get("known") == "true"]
            iv = [v for v in known if "intvalue" in v]
            fv = [v for v in known if "floatvalue" in v]
            if len(iv) == 1 and not fv:
                res[j] = (("int", int(iv[0]["intvalue"])), "ok", vt)
            elif len(fv) == 1 and not iv:
                res[j] = (("float", fv[0]["floatvalue"]), "ok", vt)
            else:
                res[j] = (None, "noknown", vt)
        platform = d.platform
    return res, platform


def sa(lang):
    return "_Static_assert" if lang == "c" else "static_assert"


def int_assert(lang, text, val):
    neg = 1 if val < 0 else 0
    mag = abs(val)
    return "%s((((%s) < 0) == %d) && ((%d ? 0ULL - (unsigned long long)(%s) : (unsigned long long)(%s)) == %dULL), \"x\");" % (
        sa(lang), text, neg, neg, text, text, mag)


def float_assert(text, ftxt):
    a = "((%s) < 0 ? -(%s) : (%s))" % (text, text, text)
    return "static_assert(((%s) - (%s)) <= 1e-11 * %s && ((%s) - (%s)) <= 1e-11 * %s, \"x\");" % (text, ftxt, a, ftxt, text, a)


def oracle(argv, lang, lines, ws, name):
    pre = DECLS
    pl = pre.count("\n")
    ctl = ["%s(1 == 1, \"x\");" % sa(lang), "%s(1 == 2, \"x\");" % sa(lang)]
    errs, p = T.compile_lines(argv, pre + "\n".join(lines + ctl) + "\n", ws.dir, name)
    n = len(lines)
    if any(l <= pl for l in errs) or (pl + n + 1) in errs or not T.is_assert_failure(errs.get(pl + n + 2, [])):
        raise RuntimeError("oracle compiler run is unusable: %s\n%s" % (argv, p.stderr.decode("utf-8", "replace")[:1500]))
    return {l - pl - 1: m for l, m in errs.items() if l <= pl + n}


# ---- generated platform files ----------------------------------------------------------------------------
GEN = {   # name: clang target arguments ; the XML is written from what the compiler says about that target
    "gen-avr": ["--target=avr"],
    "gen-msp430": ["--target=msp430"],
    "gen-armv7-uchar": ["--target=arm-linux-gnueabi"],
    "gen-x86_64-uchar": ["--target=x86_64-linux-gnu", "-funsigned-char"],
    "gen-mips64": ["--target=mips64-linux-gnuabi64"],
}
XML_FIELDS = [("bool", "_Bool"), ("short", "short"), ("int", "int"), ("long", "long"), ("long-long", "long long"),
              ("float", "float"), ("double", "double"), ("long-double", "long double"), ("pointer", "void *"),
              ("size_t", "__SIZE_TYPE__"), ("wchar_t", "__WCHAR_TYPE__")]


def gen_platform_xml(targs):
    """ask clang for sizeof of every field and the sign of plain char -> platform XML text"""
    cands = [1, 2, 4, 8, 12, 16]
    lines = []
    for f, t in XML_FIELDS:
        for c in cands:
            lines.append("_Static_assert(sizeof(%s) != %d, \"x\");" % (t, c))
    lines.append("_Static_assert((char)-1 > 0, \"x\");")
    with run.WS() as ws:
        errs, p = T.compile_lines(["clang"] + targs + ["-x", "c", "-std=c11", "-fsyntax-only", "-w", "-ferror-limit=0"],
                                  "\n".join(lines) + "\n", ws.dir, "g.c")
    sizes = {}
    for i, (f, t) in enumerate(XML_FIELDS):
        hit = [c for k, c in enumerate(cands) if (i * len(cands) + k + 1) in errs]
        if len(hit) != 1:
            raise RuntimeError("cannot size %s for %s: %s" % (t, targs, p.stderr.decode()[:300]))
        sizes[f] = hit[0]
    char_signed = (len(XML_FIELDS) * len(cands) + 1) in errs
    xml = "<?xml version=\"1.0\"?>\n<platform>\n  <char_bit>8</char_bit>\n  <default-sign>%s</default-sign>\n  <sizeof>\n" % (
        "signed" if char_signed else "unsigned")
    for f, _ in XML_FIELDS:
        xml += "    <%s>%d</%s>\n" % (f, sizes[f], f)
    xml += "  </sizeof>\n</platform>\n"
    return xml


STRICT = ("native", "unix32", "unix64", "win32A", "win32W", "win64")


def target(pname):
    """-> (cppcheck platform args, extra files, compiler argv function)"""
    if pname in GEN:
        xml = gen_platform_xml(GEN[pname])
        return ["--platform=" + pname + ".xml"], {pname + ".xml": xml}, \
            (lambda lang: T.cc(lang, "clang", *(GEN[pname] + ["-ferror-limit=0"])))
    plat_arg, argv_fn, _ = T.PLATFORMS[pname]
    return (["--platform=" + plat_arg] if plat_arg else []), {}, argv_fn


def job(a):
    import time
    pname, lang, lo, hi, deadline = a
    if time.time() > deadline:
        return None
    plat_args, files, argv_fn = target(pname)
    exprs = expressions(lang)[lo:hi]
    res, platform = observe(plat_args, lang, exprs, files)
    probs, char_signed = T.platform_facts(argv_fn, platform)
    out = {"platform": pname, "lang": lang, "lo": lo, "size_problems": probs, "verdicts": []}
    if probs:
        return out
    ext = "c" if lang == "c" else "cpp"
    lines = []
    flines = []
    fidx = []
    for j, (e, (claim, st, vt)) in enumerate(zip(exprs, res)):
        if claim and claim[0] == "int":
            lines.append(int_assert(lang, e[1], claim[1]))
        else:
            lines.append("%s(sizeof((%s), 0) >= 0, \"x\");" % (sa(lang), e[1]))
            if claim and claim[0] == "float":
                fidx.append(j)
                flines.append(float_assert(e[1], claim[1]))
    szbits = int(platform.get("size_t_bit", "64"))
    with run.WS() as ws:
        errs = oracle(argv_fn(lang), lang, lines, ws, "o1." + ext)
        # undefined behaviour (shift count >= width, signed overflow) is no value a conforming compiler "computes":
        # constant evaluation in C++ rejects it, so every computed expression is screened with the C++ front end of the target
        scr = [j for j, e in enumerate(exprs) if e[0].startswith(("cexpr", "cast"))]
        if scr:
            serr = oracle(argv_fn("cpp"), "cpp", ["static_assert(((void)(%s), true), \"x\");" % exprs[j][1].replace("_Bool", "bool") for j in scr],
                          ws, "ub.cpp")
            for k, j in enumerate(scr):
                if k in serr:
                    errs[j] = ["not a constant expression for the C++ front end (undefined behaviour)"]
        for j, e in enumerate(exprs):           # a z / uz literal outside ssize_t / size_t: ill-formed or typed differently by gcc 12 and clang 14 (C++23 feature)
            k = e[0].split(":")
            if k[0] == "intlit" and k[2] in ("z", "uz") and int(k[4]) >= (1 << (szbits - (1 if k[2] == "z" else 0))):
                errs[j] = ["z-suffixed literal does not fit size_t"]
        ferrs = oracle(T.cc("cpp", "g++", "-fmax-errors=0"), "cpp", flines, ws, "of.cpp") if flines else {}
        fbad = {fidx[k]: m for k, m in ferrs.items()}
        failing = []
        for j, e in enumerate(exprs):
            claim, st, vt = res[j]
            msgs = errs.get(j)
            if msgs and not T.is_assert_failure(msgs):
                out["verdicts"].append((e[0], "invalid", claim, None, vt))
            elif st != "ok":
                out["verdicts"].append((e[0], st.split(":")[0], None, None, vt))
            elif claim[0] == "float":
                fm = fbad.get(j)
                if fm and not T.is_assert_failure(fm):
                    out["verdicts"].append((e[0], "invalid", claim, None, vt))
                elif fm:
                    out["verdicts"].append((e[0], "MISMATCH", claim, "differs by more than 1e-11 (relative)", vt))
                else:
                    out["verdicts"].append((e[0], "match", claim, None, vt))
            elif msgs:
                failing.append(j)
                out["verdicts"].append([e[0], "MISMATCH", claim, None, vt])
            else:
                out["verdicts"].append((e[0], "match", claim, None, vt))
        if failing:          # probe the compiler's value bit by bit: assertion k fails <=> bit k is 0 ; last one: sign
            lines2 = []
            for j in failing:
                t = exprs[j][1]
                for k in range(64):
                    lines2.append("%s((((unsigned long long)(%s) >> %d) & 1) == 1, \"x\");" % (sa(lang), t, k))
                lines2.append("%s((%s) < 0, \"x\");" % (sa(lang), t))
            errs2 = oracle(argv_fn(lang), lang, lines2, ws, "o2." + ext)
            for n, j in enumerate(failing):
                pat = sum(1 << k for k in range(64) if (n * 65 + k) not in errs2)
                neg = (n * 65 + 64) not in errs2
                out["verdicts"][j][3] = pat - (1 << 64) if neg else pat
    return out


def float32(x):
    return struct.unpack("f", struct.pack("f", x))[0]


def class_key(kind, claim, actual, vt, sizes):
    """canonical class of a value mismatch"""
    k = kind.split(":")
    if claim[0] == "float":
        suf = k[2].lower() if len(k) > 2 else ""
        return "floatlit|suffix=%s|not the value of the literal's type" % (suf or ("f" if k[1].lower().endswith("f") and not k[1].lower().startswith("0x") else ""))
    got, want = claim[1], actual

    def rel():
        for bits in (64, 32, 16, 8):
            if (got - want) % (1 << bits) == 0:
                return "equal modulo 2^%d" % bits
        return "unrelated"
    if k[0] == "cast":
        return "cast|to=%s|value not converted to the target type (%s)" % (k[1], rel())
    if k[0] == "intlit":
        return "intlit|%s|suffix=%s|%s|%s" % (k[1], k[2].lower(), k[3], rel())
    if k[0] == "charlit":
        c = k[2] if len(k) > 2 else ""
        cls = "escape" if c.startswith("\\") else "plain"
        return "charlit|prefix=%s|%s|%s" % (k[1], cls, rel())
    if k[0] == "multichar":
        return "multichar|%s" % rel()
    if k[0] in ("sizeof", "sizeofvar") and ("struct" in kind or "a_s2" in kind):
        return "sizeof-struct|%s" % rel()
    if k[0] == "cexpr":
        for bits in (16, 32):
            if 0 <= want < (1 << bits) and not (0 <= got < (1 << bits)) and (got - want) % (1 << bits) == 0:
                return "arithmetic-result-not-reduced-modulo-2^width-of-the-unsigned-type"
    return "%s|%s" % (kind, rel())


def main(tier, replay=None):
    ctx = Ctx("C10", tier, "model_checking", 170 if tier == "quick" else 1700, replay)
    build.build("plain")
    if replay:
        a = replay["artefact"]
        plat_args, files, argv_fn = target(a["platform"])
        e = (a["kind"], a["text"], None)
        res, platform = observe(plat_args, a["lang"], [e], files)
        claim, st, vt = res[0]
        print("expression `%s`  platform %s  language %s" % (a["text"], a["platform"], a["lang"]))
        print("  observed (cppcheck Known value):", claim, st, vt)
        print("  expected (compiler %s): %s" % (" ".join(argv_fn(a["lang"])[:3]), a.get("compiler")))
        if claim and claim[0] == "int":
            with run.WS() as ws:
                errs = oracle(argv_fn(a["lang"]), a["lang"], [int_assert(a["lang"], a["text"], claim[1])], ws, "r." + ("c" if a["lang"] == "c" else "cpp"))
            print("  static assertion on the claim:", "fails" if 0 in errs else "holds", errs.get(0, ""))
        return 0

    from concurrent.futures import ProcessPoolExecutor
    plats = [p for p, v in T.PLATFORMS.items() if v[2] == "quick" or tier != "quick"]
    plats += list(GEN) if tier != "quick" else ["gen-avr", "gen-x86_64-uchar"]
    SL = 1250
    jobs = []
    for pn in plats:
        for lang in ("c", "cpp"):
            n = len(expressions(lang))
            for lo in range(0, n, SL):
                jobs.append((pn, lang, lo, lo + SL, ctx.deadline))
    skipped = {}
    with ProcessPoolExecutor(max_workers=min(NCPU, 16)) as ex:
        for jb, out in zip(jobs, ex.map(job, jobs)):
            if out is None:
                ctx.capped = True
                continue
            pn, lang = out["platform"], out["lang"]
            if out["size_problems"]:
                if pn not in skipped and (pn in STRICT or pn in GEN):
                    # the built-in platform names denote these targets, and a generated file was written from the target:
                    # a size that differs is itself a wrong constant (sizeof) for the selected platform
                    ctx.violation("platform-sizes|%s|%s" % (pn, ",".join(out["size_problems"])),
                                  "platform %s: cppcheck's sizes differ from the reference target in %s" % (pn, out["size_problems"]),
                                  {"platform": pn, "lang": lang, "kind": "sizeof:long", "text": "sizeof(long)", "fields": out["size_problems"]})
                skipped[pn] = out["size_problems"]
                continue
            exprs = expressions(lang)[jb[2]:jb[3]]
            for e, v in zip(exprs, out["verdicts"]):
                kind, verdict, claim, actual, vt = v
                ctx.count()
                if verdict in ("match", "MISMATCH"):
                    ctx.bump("judged_known_value_and_compiler_accepts")
                    ctx.distinct("%s|%s|%s" % (pn, lang, kind))
                    if verdict == "match":
                        if kind.startswith("cexpr") and claim[0] == "int" and claim[1] not in (0, 1, 2, 3):
                            ctx.sample({"platform": pn, "lang": lang, "expr": e[1], "cppcheck": claim[1], "compiler": "agrees"}, maxn=5)
                        continue
                    key = class_key(kind, claim, actual, vt, None)
                    ctx.bump("mismatch")
                    ctx.violation(key, "%s %s: `%s` -- cppcheck Known value %s, the compiler computes %s" % (pn, lang, e[1], claim[1], actual),
                                  {"platform": pn, "lang": lang, "kind": kind, "text": e[1], "claim": claim, "compiler": actual, "valueType": vt})
                else:
                    ctx.bump("not_judged_" + verdict)
    ctx.cov["platforms"] = [p for p in plats if p not in skipped]
    ctx.cov["platforms_without_matching_compiler_target"] = skipped
    ctx.cov["expressions_per_platform_and_language"] = {l: len(expressions(l)) for l in ("c", "cpp")}
    ctx.cov.update({"states": len(ctx._distinct), "transitions": ctx.evaluations})
    ctx.assumptions = [
        "judged value = the single Known intvalue/floatvalue on the root token of the expression; tokens without a Known value are counted, not judged",
        "integer values: sign and 64-bit magnitude are asserted separately, so -1 and 2^32-1 (or 2^64-1) are not confused",
        "floating values: the dump prints 12 significant digits, so only relative differences above 1e-11 are decidable; IEEE float/double are "
        "target independent, the assertion is compiled by g++; long double is judged at double precision only",
        "generated platform files copy sizeof/char sign from a clang target, which is then the oracle",
        "cppcheck and the compiler get the same language standard (--std=c11 / c++17); spellings that are not in that standard "
        "(z suffix, digit separators and u8 character literals in C) are rejected by the compiler and not judged"]
    return ctx.finish(rule="integer literals: 21 boundary values x {dec,0x,0X,octal,0b} x 14 suffixes x {plain, one digit separator}; character "
                           "literals: printable ASCII + 20 escapes x prefixes {none,L,u,U,u8}; multi-character constants; true/false; "
                           "floating literals x {none,f,F,l,L} + exponent/hex forms; sizeof of types/arrays/structs/variables; (T)K for 12 "
                           "integer types x 27 boundary values; 63 constant expressions; x platforms (built-in and generated XML) x {C, C++}; "
                           "distinct = (platform, language, expression) with a Known value and a compiler-accepted expression")
