"""C22 -- whole-program results do not depend on how summaries are stored.

Style I, 3-way differential over ALL programs of a small multi-file grammar: call chains top -> f1 -> .. -> sink of
length 1..3 with every placement of the functions into <= 3 files, x argument kind x sink kind x pass-through form,
plus unused / cross-file-used functions and conflicting class definitions.  Modes: (a) -j1 in memory, (b) -j1 with
--cppcheck-build-dir, (c) -j2 with build dir.  The finding multisets (all ids, whole-program ones included) and the exit
status must be equal."""
import os, itertools, collections
from vlib import build, run
from vlib.core import Ctx, sha, pmap

OPTS = ["-q", "--enable=style,unusedFunction", "--error-exitcode=7"]
ARGS = {
    "null": ("int *p = 0;", "p"),
    "uninit": ("int x;", "&x"),
    "array": ("int a[3]; a[0] = 0;", "a"),
}
SINKS = {
    "write": "void sink(int *p) { *p = 1; }",
    "read": "int gsum; void sink(int *p) { gsum += *p; }",
    "index": "void sink(int *p) { p[5] = 0; }",
}
PASS = {
    "direct": "void %s(int *p) { %s; }",
    "cond": "int gflag; void %s(int *p) { if (gflag) { %s; } }",
    # the pass-through function receives the pointer as its SECOND parameter and forwards it as the callee's argument
    "shift": "void %s(int u, int *p) { (void)u; %s; }",
    # two pointer parameters, only the second is forwarded (the first is a valid object at every call site)
    "second": "int gobj; void %s(int *o, int *p) { (void)o; %s; }",
}


def placements(n, maxfiles=3):
    """restricted growth strings of length n with <= maxfiles blocks"""
    def rec(prefix, m):
        if len(prefix) == n:
            yield tuple(prefix)
            return
        for v in range(min(m + 1, maxfiles - 1) + 1):
            yield from rec(prefix + [v], max(m, v))
    yield from rec([0], 0)


def programs(tier):
    maxlen = 2 if tier == "quick" else 3
    for L in range(1, maxlen + 1):            # number of pass-through functions = L-1
        names = ["top"] + ["f%d" % i for i in range(1, L)] + ["sink"]
        for pl in placements(len(names)):
            for a in ARGS:
                for s in SINKS:
                    for pf in (PASS if L > 1 else ["direct"]):
                        for lang in ("c", "cpp"):
                            yield {"L": L, "placement": pl, "arg": a, "sink": s, "pass": pf, "lang": lang}


def render(pr):
    L, pl = pr["L"], pr["placement"]
    names = ["top"] + ["f%d" % i for i in range(1, L)] + ["sink"]
    ext = pr["lang"]
    passf = pr["pass"]
    nparam = {n: 1 for n in names}
    for n in names[1:-1]:
        nparam[n] = 2 if passf in ("shift", "second") else 1

    def call(n, arg):
        if nparam[n] == 1:
            return "%s(%s)" % (n, arg)
        return "%s(%s, %s)" % (n, "1" if passf == "shift" else "&gobj", arg)

    def sig(n):
        if nparam[n] == 1:
            return "void %s(int *p);\n" % n
        return ("void %s(int u, int *p);\n" if passf == "shift" else "extern int gobj;\nvoid %s(int *o, int *p);\n") % n
    proto = "".join(sig(n) for n in names[1:])
    bodies = []
    decl, argexpr = ARGS[pr["arg"]]
    bodies.append("void top(void) { %s %s; }" % (decl, call(names[1], argexpr)))
    for i in range(1, L):
        bodies.append(PASS[passf] % (names[i], call(names[i + 1], "p")))
    bodies.append(SINKS[pr["sink"]])
    nfiles = max(pl) + 1
    files = {"proto.h": proto}
    for f in range(nfiles):
        src = "#include \"proto.h\"\n" + "\n".join(b for b, p in zip(bodies, pl) if p == f) + "\n"
        src += "void unused%d(void) { }\n" % f
        if ext == "cpp":
            src += "struct S { %s m; };\nint use%d(S *s) { return (int)s->m; }\n" % ("int" if f == 0 else "long", f)
        files["t%d.%s" % (f, ext)] = src
    order = ["t%d.%s" % (f, ext) for f in range(nfiles)]
    return files, order


def observe(files, order, mode):
    with run.WS(files) as ws:
        extra = []
        if mode != "mem":
            os.makedirs(ws.path("bd"))
            extra = ["--cppcheck-build-dir=bd"]
        extra += ["-j2"] if mode == "bd-j2" else ["-j1"]
        fs, r = run.findings_xml(OPTS + extra + order, ws.dir)
    if fs is None:
        return None, r.rc
    return tuple(sorted(run.fkey(f) for f in fs if f["id"] != "checkersReport")), r.rc


def main(tier, replay=None):
    ctx = Ctx("C22", tier, "exploration", 900 if tier == "quick" else 3600, replay)
    build.build("plain")
    if replay:
        pr = replay["artefact"]["program"]
        files, order = render(pr)
        for n in sorted(files):
            print("==", n)
            print(files[n])
        for m in ("mem", "bd-j1", "bd-j2"):
            r = observe(files, order, m)
            print(m, r[1], [k[0] + "@" + str(k[5][-1][:2] if k[5] else "") for k in (r[0] or [])])
        return 0
    progs = list(programs(tier))

    def work(pr):
        if ctx.expired():
            return pr, None
        files, order = render(pr)
        return pr, {m: observe(files, order, m) for m in ("mem", "bd-j1", "bd-j2")}
    nwhole = 0
    for pr, res in pmap(work, progs):
        if res is None:
            continue
        ctx.count(3)
        base = res["mem"]
        ids = collections.Counter(k[0] for k in (base[0] or []))
        if any(i.startswith("ctu") for i in ids):
            ctx.distinct(sha(pr))
            nwhole += 1
        else:
            ctx.bump("programs_without_ctu_finding_in_memory_mode")
        for m in ("bd-j1", "bd-j2"):
            if res[m] != base:
                a, b = collections.Counter(base[0] or []), collections.Counter(res[m][0] or [])
                miss = sorted(set(k[0] for k in (a - b).elements()))
                extra = sorted(set(k[0] for k in (b - a).elements()))
                probs = [("missing", i) for i in miss if i not in extra] + [("extra", i) for i in extra if i not in miss] + \
                        [("altered", i) for i in miss if i in extra]
                if base[1] != res[m][1]:
                    probs.append(("exit", "%s->%s" % (base[1], res[m][1])))
                for kind, i in probs:
                    key = "%s:%s:%s%s" % (m, kind, i, ":chain>=2" if pr["L"] >= 2 and i.startswith("ctu") else "")
                    ctx.violation(key, "program %s: mode %s vs in-memory: %s %s" % (pr, m, kind, i),
                                  {"program": pr, "mode": m, "kind": kind, "id": i})
        ctx.sample({"program": pr, "in_memory_ids": dict(ids)}, maxn=4)
    ctx.cov["programs"] = len(progs)
    ctx.cov["programs_with_ctu_finding"] = nwhole
    ctx.assumptions = ["reference = the same binary's in-memory whole-program analysis (-j1, no build dir)"]
    return ctx.finish(rule="all call chains of length <= %d x all placements into <= 3 files x 3 argument kinds x 3 sink kinds x "
                           "pass-through forms x {C, C++ (+conflicting struct definitions)}; each program analysed in 3 storage modes; "
                           "nontrivial = programs with a ctu* finding in memory mode" % (2 if tier == "quick" else 3))
