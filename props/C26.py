"""C26 -- reports are faithful in every output format.

Style I.  Findings are injected through a scripted addon (addon JSON with "executable" = a stub that prints the
scripted JSON lines), several hundred findings per cppcheck run, plus real findings in files with hostile names.
Every run goes through the real StdLogger path (text with --template / --template-location, --xml,
--output-format=sarif, --output-file).

Enumerated (bounded-exhaustive, simplest first):
  texts  : every string of <= K tokens over TOK = 14 characters {a, space, < > & " ' \\ { } TAB 0x01 0x7f e-acute} + the
           12 template field names as atoms, placed as message / location info / verbose text; file names and symbol
           names over the same characters (without \\ which is a path separator to cppcheck) + the field atoms
  shapes : 0..3 locations, line/column 0, cwe, symbol, short != verbose, empty message, the six severities
  templates : default, the 7 predefined names, every single documented field, every ordered pair of documented fields
           x separator ':' (thorough: x 4 separators, + all ordered triples of distinct fields x 2 separators), + template-location sets
  formats: text, --xml, --output-format=sarif, each also through --output-file; with and without --emit-duplicates, -v
  real   : files named <string>.c over the characters + 0xFF with an out-of-bounds write; a file with a 3-location
           warning, a REMARK comment and an inconclusive finding

Oracles: text = single-pass reference renderer written from man/manual.md + --help; XML = strict parse (expat),
RelaxNG-subset interpreter over /repo/cppcheck-errors.rng, field-wise decoding; SARIF = strict JSON, one result per
finding with ruleId, level(severity), message text, locations.
"""
import collections, itertools, json, os, re, shutil, sys, time, urllib.parse
import xml.etree.ElementTree as ET
from vlib import build, run
from vlib.core import Ctx, sha, pmap

ENABLE = "--enable=warning,style,performance,portability"
ENABLE_INFO = ENABLE + ",information"
RNG = os.path.join(build.REPO, "cppcheck-errors.rng")
LEVEL = {"error": "error", "warning": "error", "style": "warning", "performance": "warning", "portability": "warning",
         "information": "note"}

# ------------------------------------------------------------------------------------------------ alphabet
CHARS = ["a", " ", "<", ">", "&", '"', "'", "\\", "{", "}", "\t", "\x01", "\x7f", "é"]
ATOMS = ["{file}", "{line}", "{column}", "{callstack}", "{severity}", "{message}", "{id}", "{cwe}", "{remark}",
         "{code}", "{info}", "{inconclusive:x}"]
TOK = CHARS + ATOMS
FILE_CHARS = [c for c in CHARS if c != "\\"] + ["\n"]
FILE_TOK = FILE_CHARS + ["{file}", "{line}", "{column}", "{code}", "{message}", "{info}"]
FIELDS = ["{file}", "{line}", "{column}", "{callstack}", "{inconclusive:x}", "{severity}", "{message}", "{id}", "{cwe}",
          "{remark}", "{code}"]
PREDEF = {
    None: ("{bold}{file}:{line}:{column}: {red}{inconclusive:{magenta}}{severity}:{inconclusive: inconclusive:}{default} "
           "{message} [{id}]{reset}\\n{code}", "{bold}{file}:{line}:{column}: {dim}note:{reset} {info}\\n{code}"),
    "gcc": ("{bold}{file}:{line}:{column}: {magenta}warning:{default} {message} [{id}]{reset}\\n{code}",
            "{bold}{file}:{line}:{column}: {dim}note:{reset} {info}\\n{code}"),
    "vs": ("{file}({line}): {severity}: {message}", ""),
    "edit": ("{file} +{line}: {severity}: {message}", ""),
    "cppcheck1": ("{callstack}: ({severity}{inconclusive:, inconclusive}) {message}", ""),
    "simple": ("{file}:{line}:{column}: {severity}:{inconclusive:inconclusive:} {message} [{id}]", ""),
    "daca2": ("{file}:{line}:{column}: {severity}:{inconclusive:inconclusive:} {message} [{id}]",
              "{file}:{line}:{column}: note: {info}"),
    "selfcheck": ("{file}:{line}:{column}: {severity}:{inconclusive:inconclusive:} {message} [{id}]\\n{code}",
                  "{file}:{line}:{column}: note: {info}\\n{code}"),
}
COLORS = [b"{reset}", b"{bold}", b"{dim}", b"{red}", b"{green}", b"{blue}", b"{magenta}", b"{default}"]
SRC_LINES = ["int v1;", "int v2;", "int v3;"]
SRC = "\n".join(SRC_LINES) + "\n"


def B(s):
    return s.encode("utf-8", "surrogateescape") if isinstance(s, str) else s


def strings(tokens, k):
    yield ""
    for n in range(1, k + 1):
        for t in itertools.product(tokens, repeat=n):
            yield "".join(t)


# ------------------------------------------------------------------------------------------------ finding model
def FD(short="base msg", locs=(("t1", 2, 3, ""),), severity="style", eid="e", verbose=None, symbol=None, cwe=0,
       inconclusive=False, remark="", var=""):
    """locs in call-stack order (primary LAST), each (file, line, column, info)."""
    return {"id": "inj-" + eid, "severity": severity, "short": short, "verbose": short if verbose is None else verbose,
            "symbol": symbol, "cwe": cwe, "locs": [list(l) for l in locs], "inconclusive": inconclusive,
            "remark": remark, "var": var}


def to_json_line(f):
    assert "\n" not in f["short"]
    msg = f["short"] if f["verbose"] == f["short"] else f["short"] + "\n" + f["verbose"]
    if f["symbol"] is not None:
        assert f["verbose"] == f["short"]
        msg = "$symbol:" + f["symbol"] + "\n" + f["template_msg"]
    o = {"severity": f["severity"], "message": msg, "addon": "inj", "errorId": f["id"][4:], "extra": ""}
    if len(f["locs"]) == 1:
        l = f["locs"][0]
        o.update(file=l[0], linenr=l[1], column=l[2])
        assert l[3] == ""
    elif f["locs"]:
        o["loc"] = [{"file": l[0], "linenr": l[1], "column": l[2], "info": l[3]} for l in f["locs"]]
    if f["cwe"]:
        o["cwe"] = f["cwe"]
    return json.dumps(o, ensure_ascii=True)


def with_symbol(sym, **kw):
    f = FD(short="uses " + sym + " here", symbol=sym, **kw)
    f["template_msg"] = "uses $symbol here"
    return f


# ------------------------------------------------------------------------------------------------ reference renderer
def static_part(t):
    """Backslash escapes documented for templates, then the (undocumented, predefined-only) colour fields erased."""
    t = B(t)
    out, i = bytearray(), 0
    esc = {ord("n"): 10, ord("t"): 9, ord("r"): 13}
    while i < len(t):
        if t[i] == 0x5c and i + 1 < len(t) and t[i + 1] in esc:
            out.append(esc[t[i + 1]])
            i += 2
        else:
            out.append(t[i])
            i += 1
    out = bytes(out)
    for c in COLORS:
        out = out.replace(c, b"")
    return out


def read_code(cwd, fname, line, column):
    text = b""
    try:
        with open(os.path.join(B(cwd), B(fname)), "rb") as fh:
            lines = fh.read().split(b"\n")
        if 1 <= line <= len(lines):
            text = lines[line - 1]
    except OSError:
        pass
    return text + b"\n" + b" " * (column - 1 if column > 0 else 0) + b"^"


def field_values(f, verbose, cwd):
    locs = f["locs"]
    v = {b"{id}": B(f["id"]), b"{severity}": B(f["severity"]), b"{cwe}": B(str(f["cwe"])),
         b"{message}": B(f["verbose"] if verbose else f["short"]), b"{remark}": B(f["remark"])}
    if locs:
        p = locs[-1]
        v[b"{callstack}"] = b" -> ".join(b"[" + B(l[0]) + b":" + B(str(l[1])) + b"]" for l in locs)
        v[b"{file}"], v[b"{line}"], v[b"{column}"] = B(p[0]), B(str(p[1])), B(str(p[2]))
        v[b"{code}"] = lambda: read_code(cwd, p[0], p[1], p[2])
    else:   # not specified by the manual: cppcheck's choice adopted
        v.update({b"{callstack}": b"", b"{file}": b"nofile", b"{line}": b"0", b"{column}": b"0", b"{code}": b""})
    return v


def single_pass(t, vals, inconclusive):
    out, i = bytearray(), 0
    while i < len(t):
        if t[i] == 0x7b:
            if inconclusive is not None and t.startswith(b"{inconclusive:", i):
                j = t.find(b"}", i)
                if j >= 0:
                    if inconclusive:
                        out += t[i + 14:j]
                    i = j + 1
                    continue
            for k, v in vals.items():
                if t.startswith(k, i):
                    out += v() if callable(v) else v
                    i += len(k)
                    break
            else:
                out.append(t[i])
                i += 1
        else:
            out.append(t[i])
            i += 1
    return bytes(out)


def loc_values(f, l, cwd):
    return {b"{file}": B(l[0]), b"{line}": B(str(l[1])), b"{column}": B(str(l[2])),
            b"{info}": B(l[3] if l[3] else f["short"]),        # empty info: not specified, cppcheck's choice adopted
            b"{code}": (lambda: read_code(cwd, l[0], l[1], l[2]))}


def render(f, tmpl, tloc, verbose, cwd):
    """Reference: each field of the template is replaced once by the finding's value; values are never rescanned."""
    r = single_pass(tmpl, field_values(f, verbose, cwd), f["inconclusive"])
    if tloc and len(f["locs"]) >= 2:
        for l in f["locs"]:
            r += b"\n" + single_pass(tloc, loc_values(f, l, cwd), None)
    return r


def render_sequential(f, tmpl, tloc, verbose, cwd):
    """Model of the KNOWN defect only (used to classify a mismatch, never as oracle): fields substituted one after
    another on the growing result, so a value containing a later field's name is expanded again."""
    v = field_values(f, verbose, cwd)
    r = tmpl.replace(b"{id}", v[b"{id}"])
    pos = r.find(b"{inconclusive:")
    while pos >= 0:
        pos2 = r.find(b"}", pos + 1)
        if pos2 < 0:
            break
        frm = r[pos:pos2 + 1]
        r = r.replace(frm, r[pos + 14:pos2] if f["inconclusive"] else b"")
        pos = r.find(b"{inconclusive:", pos)
    for k in (b"{severity}", b"{cwe}", b"{message}", b"{remark}"):
        r = r.replace(k, v[k])
    if f["locs"]:
        for k in (b"{callstack}", b"{file}", b"{line}", b"{column}"):
            r = r.replace(k, v[k])
        if b"{code}" in r:
            r = r.replace(b"{code}", v[b"{code}"]())
    else:
        r = single_pass(r, {k: v[k] for k in (b"{callstack}", b"{file}", b"{line}", b"{column}", b"{code}")}, None)
    if tloc and len(f["locs"]) >= 2:
        for l in f["locs"]:
            lv = loc_values(f, l, cwd)
            t = tloc
            for k in (b"{file}", b"{line}", b"{column}", b"{info}"):
                t = t.replace(k, lv[k])
            if b"{code}" in t:
                t = t.replace(b"{code}", lv[b"{code}"]())
            r += b"\n" + t
    return r


# ------------------------------------------------------------------------------------------------ RelaxNG subset
RNS = "{http://relaxng.org/ns/structure/1.0}"
NCNAME = re.compile(r"^[A-Za-z_À-￿][-A-Za-z0-9._·À-￿]*$")


class Rng:
    """Interpreter for the subset used by cppcheck-errors.rng: element, attribute, optional, zeroOrMore, choice, value,
    data (string, NCName, boolean, integer + pattern / min* params), text."""

    def __init__(self, path):
        g = ET.parse(path).getroot()
        self.start = [c for c in g.find(RNS + "start")]

    @staticmethod
    def tag(p):
        return p.tag[len(RNS):]

    def datum(self, p, s):
        t = self.tag(p)
        if t == "text":
            return True
        if t == "value":
            return s == (p.text or "")
        if t == "choice":
            return any(self.datum(c, s) for c in p)
        if t == "data":
            ty = p.get("type")
            params = {c.get("name"): c.text for c in p if self.tag(c) == "param"}
            if ty == "string":
                ok = True
            elif ty == "NCName":
                ok = bool(NCNAME.match(s.strip()))
            elif ty == "boolean":
                ok = s.strip() in ("true", "false", "1", "0")
            elif ty == "integer":
                ok = bool(re.match(r"^[-+]?[0-9]+$", s.strip()))
            else:
                raise ValueError("unsupported datatype " + ty)
            if ok and "pattern" in params:
                ok = re.fullmatch(params["pattern"], s) is not None
            if ok and ty == "integer":
                n = int(s)
                if "minExclusive" in params:
                    ok = ok and n > int(params["minExclusive"])
                if "minInclusive" in params:
                    ok = ok and n >= int(params["minInclusive"])
            return ok
        raise ValueError("unsupported data pattern " + t)

    def split(self, pats):
        """-> (attribute patterns [(pat, required)], content patterns)"""
        attrs, content = [], []
        for p in pats:
            t = self.tag(p)
            if t == "attribute":
                attrs.append((p, True))
            elif t == "optional" and all(self.tag(c) == "attribute" for c in p):
                attrs += [(c, False) for c in p]
            else:
                content.append(p)
        return attrs, content

    def element(self, pat, el, path, errs):
        attrs, content = self.split(list(pat))
        seen = set()
        for ap, req in attrs:
            name = ap.get("name")
            if name in el.attrib:
                seen.add(name)
                sub = list(ap)
                if sub and not self.datum(sub[0], el.attrib[name]):
                    errs.append(("attribute-value:%s@%s" % (path, name), "%s/@%s=%r not allowed" % (path, name, el.attrib[name])))
            elif req:
                errs.append(("attribute-missing:%s@%s" % (path, name), "%s lacks required attribute %s" % (path, name)))
        for name in el.attrib:
            if name not in seen:
                errs.append(("attribute-not-allowed:%s@%s" % (path, name), "%s has attribute %s which the schema does not allow" % (path, name)))
        kids = list(el)
        datap = [p for p in content if self.tag(p) in ("data", "text", "value")]
        if datap:
            if kids:
                errs.append(("element-in-data:" + path, "%s must not have child elements" % path))
            elif not self.datum(datap[0], el.text or ""):
                errs.append(("text-value:" + path, "%s text %r not allowed" % (path, el.text)))
            return
        if (el.text or "").strip() or any((k.tail or "").strip() for k in kids):
            errs.append(("text-not-allowed:" + path, "%s contains text" % path))
        ends = self.seq(content, kids, 0, path, errs)
        if len(kids) not in ends:
            bad = kids[max(ends)] if ends and max(ends) < len(kids) else None
            errs.append(("children:%s" % path, "%s: unexpected child %s" % (path, bad.tag if bad is not None else "(missing child)")))

    def seq(self, pats, kids, i, path, errs):
        ends = {i}
        for p in pats:
            nxt = set()
            for e in ends:
                nxt |= self.one(p, kids, e, path, errs)
            ends = nxt
            if not ends:
                return set()
        return ends

    def one(self, p, kids, i, path, errs):
        t = self.tag(p)
        if t == "element":
            if i < len(kids) and kids[i].tag == p.get("name"):
                self.element(p, kids[i], path + "/" + kids[i].tag, errs)
                return {i + 1}
            return set()
        if t == "optional":
            return {i} | self.seq(list(p), kids, i, path, errs)
        if t == "zeroOrMore":
            ends, frontier = {i}, {i}
            while frontier:
                new = set()
                for e in frontier:
                    new |= self.seq(list(p), kids, e, path, errs)
                frontier = new - ends
                ends |= new
            return ends
        if t == "choice":
            r = set()
            for c in p:
                r |= self.one(c, kids, i, path, errs)
            return r
        raise ValueError("unsupported pattern " + t)

    def validate(self, root):
        errs = []
        top = self.start[0]
        if root.tag != top.get("name"):
            return [("root", "root element %s" % root.tag)]
        self.element(top, root, root.tag, errs)
        seen, out = set(), []
        for k, w in errs:
            if k not in seen:
                seen.add(k)
                out.append((k, w))
        return out


# ------------------------------------------------------------------------------------------------ running
def fix_invalid(bs):
    out = bytearray()
    for c in bs:
        if 0x20 <= c <= 0x7e:
            out.append(c)
        else:
            out += b"\\%03o" % c
    return bytes(out)


SPECIAL = re.compile(r"[^\x20-\x7e]")


def special_sig(f):
    """Characters outside printable ASCII in the fields the XML writer does not escape (file names, symbol)."""
    s = set()
    for l in f["locs"]:
        s |= set(SPECIAL.findall(l[0]))
    if f["symbol"]:
        s |= set(SPECIAL.findall(f["symbol"]))
    return "".join(sorted(s))


class Batch:
    """A set of findings injected into one run: shared directory = cwd of the runs, holds the files the findings name."""

    def __init__(self, name, findings, real_files=None, opts=()):
        self.name, self.findings, self.real, self.opts = name, findings, real_files, list(opts)
        self.ws = run.WS(name="c26-%s-%d" % (re.sub(r"\W", "_", name), next(_ctr)))
        self.dir = self.ws.dir
        self.nrun = itertools.count()
        if real_files is None:
            names = set()
            for f in findings:
                for l in f["locs"]:
                    names.add(l[0])
            for n in names:
                if n and "/" not in n and n not in (".", ".."):
                    with open(os.path.join(B(self.dir), B(n)), "wb") as fh:
                        fh.write(B(SRC))
            with open(os.path.join(self.dir, ".f.jsonl"), "w") as fh:
                fh.write("".join(to_json_line(f) + "\n" for f in findings))
            stub = os.path.join(self.dir, ".stub.sh")
            with open(stub, "w") as fh:
                fh.write("#!/bin/sh\nexec /bin/cat '%s'\n" % os.path.join(self.dir, ".f.jsonl"))
            os.chmod(stub, 0o755)
            with open(os.path.join(self.dir, ".inj.json"), "w") as fh:
                json.dump({"script": "x.py", "executable": stub}, fh)
        else:
            for n, c in real_files.items():
                with open(os.path.join(B(self.dir), B(n)), "wb") as fh:
                    fh.write(B(c))

    def sub(self, findings, tag):
        return Batch(self.name + "." + tag, findings, None if self.real is None else self.real, self.opts)

    def run(self, opts, outfile=False):
        """-> (Res, bytes of the report)"""
        rd = os.path.join(self.dir, ".r%d" % next(self.nrun))
        os.makedirs(rd)
        args = ["-q"] + self.opts + list(opts)
        if self.real is None:
            with open(os.path.join(rd, "t.c"), "w") as fh:
                fh.write("int t;\n")
            args += ["--addon=" + os.path.join(self.dir, ".inj.json")]
            tail = [os.path.join(rd, "t.c")]
        else:
            tail = [os.fsdecode(B(n)) for n in self.real if n.endswith(".c")]
        of = os.path.join(rd, "out.txt")
        if outfile:
            args.append("--output-file=" + of)
        for attempt in range(6):
            try:
                r = run.cppcheck(args + tail, self.dir)
                break
            except OSError:                 # binary is being relinked by a concurrent build of another check
                if attempt == 5:
                    raise
                time.sleep(2)
        data = r.err
        if outfile:
            try:
                with open(of, "rb") as fh:
                    data = fh.read()
            except OSError:
                data = None
        shutil.rmtree(rd, ignore_errors=True)
        return r, data

    def close(self):
        self.ws.close()


_ctr = itertools.count()


# ------------------------------------------------------------------------------------------------ checks per format
def tmpl_opts(name_or_text, tloc):
    o = []
    if name_or_text is not None:
        o.append("--template=" + name_or_text)
    if tloc is not None:
        o.append("--template-location=" + tloc)
    return o


def resolve_templates(t, tloc):
    if t in PREDEF:
        a, b = PREDEF[t]
        if tloc is not None:
            b = tloc
    else:
        a, b = t, (tloc or "")
    return static_part(a), static_part(b)


def describe(f):
    d = {k: f[k] for k in ("id", "severity", "short", "verbose", "symbol", "cwe", "locs", "inconclusive", "remark")}
    if "symbols" in f:
        d["symbols"] = f["symbols"]
    return d


CR_PLACEHOLDER = "\x00CHECKERSREPORT\x00"
CR_PATTERN = rb"Active checkers: (\d+/\d+|There was critical errors) \(use --checkers-report=<filename> to see details\)"


def checkers_report_trailer(ta, tb, verbose, cwd):
    """Regex for the run-level checkersReport finding that follows the findings when 'information' is enabled; its
    text depends on the options and it is not a finding of the analysed code, so only its shape is checked."""
    cr = {"id": "checkersReport", "severity": "information", "short": CR_PLACEHOLDER, "verbose": CR_PLACEHOLDER,
          "cwe": 0, "locs": [], "inconclusive": False, "remark": ""}
    ref = render(cr, ta, tb, verbose, cwd)
    return re.compile(re.escape(ref).replace(re.escape(B(CR_PLACEHOLDER)), CR_PATTERN) + rb"\n", re.S)


def check_text(batch, findings, data, t, tloc, verbose, dedup, trailer=False):
    """Walk the report; -> (list of (key, what, finding), n_ok)"""
    ta, tb = resolve_templates(t, tloc)
    fails, ok = [], 0
    exp = []
    shown = set()
    vac = [0]
    for f in findings:
        ref, seq = render(f, ta, tb, verbose, batch.dir), render_sequential(f, ta, tb, verbose, batch.dir)
        if ref == b"":
            vac[0] += 1
            continue                      # an empty rendering is not distinguishable from no rendering
        if dedup:
            if seq in shown:
                continue
            shown.add(seq)
        alts = [(ref, seq)]
        if batch.real is not None and not tb and not verbose and len(f["locs"]) >= 2:
            # Check::getErrorPath builds the location list of a value-flow finding only partly unless -v, --xml or a
            # location template is active: that is analysis, not rendering -> any sub-path ending in the primary location
            inner = f["locs"][:-1]
            for n in range(len(inner) - 1, -1, -1):
                for sub in itertools.combinations(inner, n):
                    g = dict(f, locs=list(sub) + [f["locs"][-1]])
                    alts.append((render(g, ta, tb, verbose, batch.dir), render_sequential(g, ta, tb, verbose, batch.dir)))
        exp.append((f, alts))
    p = 0
    for n, (f, alts) in enumerate(exp):
        ref, seq = alts[0]
        hit = [r for r, _ in alts if data.startswith(r + b"\n", p)]
        if hit:
            p += len(max(hit, key=len)) + 1
            ok += 1
            continue
        hit = [(r, q) for r, q in alts if q != r and (q == b"" or data.startswith(q + b"\n", p))]
        if hit:
            ref, seq = max(hit, key=lambda x: len(x[1]))
            p += len(seq) + 1 if seq else 0           # an empty rendering is not printed at all
            fails.append(("text:value-reexpanded", "template %r: finding rendered as %r, each field substituted once gives %r "
                          "(a value containing a field name was expanded again)" % (t, seq[:200], ref[:200]), f))
            continue
        # unknown mismatch: resynchronise at the next finding's rendering
        q = len(data)
        if n + 1 < len(exp):
            cands = [data.find(x + b"\n", p) for pair in exp[n + 1][1] for x in pair]
            cands = [c for c in cands if c >= 0]
            q = min(cands) if cands else len(data)
        fails.append(("text:wrong-rendering", "template %r: expected %r, report has %r" % (t, ref[:200], data[p:q][:200]), f))
        p = q
    if trailer and checkers_report_trailer(ta, tb, verbose, batch.dir).fullmatch(data, p):
        p = len(data)
    if p != len(data) and not [x for x in fails if x[0] == "text:wrong-rendering"]:
        fails.append(("text:surplus-output", "template %r: %d unexpected bytes after the last finding: %r"
                      % (t, len(data) - p, data[p:p + 200]), None))
    return fails, ok, vac[0]


def char_class(s):
    cl = set()
    for c in s:
        o = ord(c)
        if c in "\t\n\r":
            cl.add("whitespace-control")
        elif o < 0x20:
            cl.add("control")
        elif o == 0x7f:
            cl.add("del")
        elif 0xdc80 <= o <= 0xdcff:
            cl.add("invalid-utf8")
        elif o >= 0x80:
            cl.add("non-ascii")
    return "+".join(sorted(cl)) or "printable"


def culprit_class(s, culprits):
    """Class key restricted to the character classes known to be the cause; all classes if none of them occurs."""
    cl = char_class(s).split("+")
    for c in culprits:                  # priority order: each of them is sufficient on its own
        if c in cl:
            return c
    return "+".join(cl)


def xml_decode(root):
    out = []
    errs = root.find("errors")
    for e in (errs.findall("error") if errs is not None else []):
        locs = [[l.get("file"), int(l.get("line")), int(l.get("column")), l.get("info") or ""] for l in e.findall("location")]
        out.append({"id": e.get("id"), "severity": e.get("severity"), "short": e.get("msg"), "verbose": e.get("verbose"),
                    "cwe": int(e.get("cwe") or 0), "inconclusive": e.get("inconclusive") == "true",
                    "locs": locs[::-1], "symbols": [s.text or "" for s in e.findall("symbol")],
                    "remark": e.get("remark") or ""})
    return out


def esc_text(s):
    return fix_invalid(B(s)).decode("ascii")


def cmp_xml_finding(f, o):
    """-> list of (key, what)"""
    d = []
    for k in ("id", "severity", "cwe", "inconclusive"):
        if f[k] != o[k]:
            d.append(("xml:field-differs:" + k, "%s: %r in XML, finding has %r" % (k, o[k], f[k])))
    for k in ("short", "verbose", "remark"):
        if o[k] != esc_text(f[k]):
            d.append(("xml:field-differs:" + k, "%s: %r in XML, finding has %r" % (k, o[k], f[k])))
    if len(o["locs"]) != len(f["locs"]):
        d.append(("xml:field-differs:location-count", "%d locations in XML, finding has %d" % (len(o["locs"]), len(f["locs"]))))
    else:
        for lo, lf in zip(o["locs"], f["locs"]):
            if lo[0] != lf[0]:
                d.append(("xml:file-name-altered:" + culprit_class(lf[0], ("whitespace-control",)), "file %r in XML, finding has %r" % (lo[0], lf[0])))
            if lo[1] != max(lf[1], 0) or lo[2] != lf[2]:
                d.append(("xml:field-differs:line-column", "%s:%s in XML, finding has %s:%s" % (lo[1], lo[2], lf[1], lf[2])))
            if lo[3] != esc_text(lf[3]):
                d.append(("xml:field-differs:info", "info %r in XML, finding has %r" % (lo[3], lf[3])))
    want = [f["symbol"]] if f.get("symbol") is not None else []
    if "symbols" in f:
        want = f["symbols"]
    if o["symbols"] != want:
        cc = culprit_class("".join(want), ("whitespace-control",))
        d.append(("xml:symbol-altered:" + cc, "symbols %r in XML, finding has %r" % (o["symbols"], want)))
    return d


def f_symbols(f):
    return [f["symbol"]] if f.get("symbol") is not None else list(f.get("symbols", []))


def xml_identity(f):
    """Everything an <error> element carries (file0 and hash are not varied)."""
    return (f["id"], f["severity"], f["short"], f["verbose"], f["cwe"], f["inconclusive"], f.get("remark", ""),
            tuple((l[0], max(l[1], 0), l[2], l[3]) for l in f["locs"]), tuple(f_symbols(f)))


def sarif_identity(f):
    """Everything a SARIF result carries: ruleId, level, message text, physical locations."""
    return (f["id"], LEVEL[f["severity"]], f["short"], tuple(sorted((l[0], max(1, l[1]), max(1, l[2])) for l in f["locs"])))


def diff_fields(a, b):
    d = []
    for k, n in (("id", "id"), ("severity", "severity"), ("short", "message"), ("verbose", "verbose"), ("cwe", "cwe"),
                 ("inconclusive", "inconclusive")):
        if a[k] != b[k]:
            d.append(n)
    if f_symbols(a) != f_symbols(b):
        d.append("symbol")
    if len(a["locs"]) != len(b["locs"]):
        d.append("location-count")
    else:
        for la, lb in zip(a["locs"], b["locs"]):
            for i, n in enumerate(("file", "line", "column", "info")):
                if la[i] != lb[i] and n not in d:
                    d.append(n)
    return d


def align_collapsing(fmt, exp, obs, same, ident, no_location_key=None):
    """Report written with the duplicate filter active.  Every finding must be in the report unless an earlier finding
    that IS in the report is identical to it in everything this format carries.  -> (fails, ok, collapsed)"""
    fails, ok, i, emitted, collapsed = [], 0, 0, [], 0
    for f in exp:
        if i < len(obs) and same(f, obs[i]):
            i += 1
            ok += 1
            emitted.append(f)
            continue
        k = ident(f)
        if any(ident(e) == k for e in emitted):
            collapsed += 1
            continue
        if no_location_key and not f["locs"]:
            fails.append((no_location_key, "finding %s (%r) has no location and is not in the report" % (f["id"], f["short"]), f))
            continue
        near = min(emitted, key=lambda e: len(diff_fields(e, f))) if emitted else None
        if near is not None and 1 <= len(diff_fields(near, f)) <= 2:
            df = diff_fields(near, f)
            fails.append(("%s:distinct-finding-collapsed:%s" % (fmt, "+".join(df)),
                          "duplicate filter active: finding %s is missing from the %s report although it differs from the "
                          "reported finding %s in %s, which this format carries (%r vs %r)"
                          % (f["id"], fmt, near["id"], "/".join(df), describe(f), describe(near)), dict(f, _near=near)))
        else:
            fails.append(("%s:finding-missing" % fmt, "finding %s (%r) is missing from the %s report" % (f["id"], f["short"], fmt), f))
    if i < len(obs):
        fails.append(("%s:surplus-findings" % fmt, "%d records beyond the reported findings, first %r" % (len(obs) - i, obs[i]), None))
    return fails, ok, collapsed


def check_xml(rng, findings, data, collapse=False):
    """-> (fails [(key, what, finding)], ok, parsed?)"""
    try:
        root = ET.fromstring(data)
    except ET.ParseError as e:
        return [("xml:not-well-formed", "XML report is not well-formed: %s" % e, None)], 0, False
    fails = [("xml:rng:" + k, w, None) for k, w in rng.validate(root)]
    obs = [o for o in xml_decode(root) if o["id"] != "checkersReport"]     # run-level summary, not a finding
    exp = findings
    if collapse:
        f2, ok, _ = align_collapsing("xml", exp, obs, lambda f, o: not cmp_xml_finding(f, o), xml_identity)
        return fails + f2, ok, True
    ok = 0
    if len(obs) != len(exp):
        ids_o, ids_e = collections.Counter(o["id"] for o in obs), collections.Counter(f["id"] for f in exp)
        fails.append(("xml:finding-count", "XML has %d findings, %d were reported (missing ids %s, surplus ids %s)"
                      % (len(obs), len(exp), list((ids_e - ids_o))[:5], list((ids_o - ids_e))[:5]), None))
    for f, o in zip(exp, obs):
        d = cmp_xml_finding(f, o)
        if d:
            fails += [(k, w, f) for k, w in d]
        else:
            ok += 1
    return fails, ok, True


def check_sarif(findings, data, collapse=False):
    try:
        doc = json.loads(data.decode("utf-8"))
    except UnicodeDecodeError as e:
        return [("sarif:not-utf8", "SARIF report is not valid UTF-8 (so not valid JSON): %s" % e, None)], 0, False
    except ValueError as e:
        return [("sarif:not-json", "SARIF report is not valid JSON: %s" % e, None)], 0, False
    fails, ok = [], 0
    try:
        results = doc["runs"][0]["results"]
        assert doc["version"] == "2.1.0"
    except (KeyError, IndexError, AssertionError, TypeError) as e:
        return [("sarif:structure", "no runs[0].results / version: %r" % e, None)], 0, True
    exp = findings

    def matches(f, r):
        d = []
        try:
            if r["ruleId"] != f["id"]:
                d.append("ruleId %r != id %r" % (r["ruleId"], f["id"]))
            if r["level"] != LEVEL[f["severity"]]:
                d.append("level %r for severity %s" % (r["level"], f["severity"]))
            if r["message"]["text"] != f["short"]:
                d.append("message %r != %r" % (r["message"]["text"], f["short"]))
            lo = []
            for l in r["locations"]:
                pl = l["physicalLocation"]
                lo.append((pl["artifactLocation"]["uri"], pl["region"]["startLine"], pl["region"]["startColumn"]))
            le = [(l[0], max(1, l[1]), max(1, l[2])) for l in f["locs"]]
            if sorted(lo) != sorted(le) and sorted((urllib.parse.unquote(u), a, b) for u, a, b in lo) != sorted(le):
                d.append("locations %r != %r" % (lo, le))
        except (KeyError, TypeError) as e:
            d.append("result lacks %r" % e)
        return d
    if collapse:
        f2, ok, _ = align_collapsing("sarif", exp, results, lambda f, r: not matches(f, r), sarif_identity,
                                     "sarif:finding-without-location-omitted")
        return f2, ok, True
    i = 0
    for f in exp:
        d = matches(f, results[i]) if i < len(results) else ["no more results"]
        if not d:
            i += 1
            ok += 1
        elif not f["locs"]:
            fails.append(("sarif:finding-without-location-omitted", "finding %s (%r) has no location and is not in the SARIF "
                          "results" % (f["id"], f["short"]), f))
        else:
            fails.append(("sarif:result-differs", "finding %s: %s" % (f["id"], "; ".join(d)), f))
            if i < len(results) and results[i].get("ruleId") == f["id"]:
                i += 1
    if i < len(results):
        fails.append(("sarif:surplus-results", "%d results beyond the reported findings, first %r" % (len(results) - i, results[i]), None))
    return fails, ok, True


# ------------------------------------------------------------------------------------------------ batches
def core_findings(info):
    fs = []
    n = itertools.count()
    sev = ["error", "warning", "style", "performance", "portability"] + (["information"] if info else [])
    for s in sev:
        fs.append(FD("severity " + s, severity=s, eid="s%d" % next(n)))
    for t in TOK:
        fs.append(FD(t, eid="m%d" % next(n), var="message"))
    for t in FILE_TOK:
        fs.append(FD("in file", locs=[(t, 1, 1, "")], eid="f%d" % next(n), var="file"))
    for t in TOK:
        fs.append(FD("two locations", locs=[("t2", 3, 1, t), ("t1", 1, 2, "")], eid="i%d" % next(n), var="info"))
    fs.append(FD("no location", locs=[], eid="n%d" % next(n)))
    fs.append(FD("line zero", locs=[("t1", 0, 0, "")], eid="z%d" % next(n)))
    fs.append(FD("past end", locs=[("t1", 9, 40, "")], eid="z%d" % next(n)))
    fs.append(FD("with cwe", cwe=398, eid="c%d" % next(n)))
    fs.append(FD("", eid="e%d" % next(n)))
    fs.append(FD("short text", verbose="verbose text\nsecond line {line} <&>", eid="v%d" % next(n), var="verbose"))
    fs.append(FD("three", locs=[("{file}", 1, 1, "one"), ("t a", 2, 2, "{code}"), ("t1", 3, 3, "three & <3>")],
                 eid="l%d" % next(n), var="info"))
    fs.append(with_symbol("sym<&>é", eid="y%d" % next(n)))
    fs.append(FD("base msg", eid="d0"))
    fs.append(FD("base msg", eid="d0"))                       # an exact duplicate
    return fs


def templates(tier):
    ts = [(None, None)] + [(k, None) for k in PREDEF if k]
    ts += [(f, None) for f in FIELDS]
    if tier == "quick":            # pairs: every field before and after {message}
        for a in FIELDS:
            ts.append((a + ":{message}", None))
            if a != "{message}":
                ts.append(("{message}:" + a, None))
        tl = ["{file}:{line}:{column}: note: {info}", "{info}|{code}", ""]
        for t in ("gcc", "{message}"):
            for l in tl:
                ts.append((t, l))
        return ts
    for a, b in itertools.product(FIELDS, repeat=2):
        for sep in (":", " ", "\\n", "\\t"):
            ts.append((a + sep + b, None))
    tl = ["{file}:{line}:{column}: note: {info}", "{info}", "{info}|{code}", "{line}\\t{file}", "{column}{info}{file}", ""]
    for t in (None, "gcc", "vs", "{file}:{line}: {severity}: {message}\\n{code}", "{message}"):
        for l in tl:
            ts.append((t, l))
    return ts


REAL_BODY = "void f(void){int a[2];a[2]=0;}\n"


def calibrate_real():
    """Findings of the out-of-bounds one-liner in a file with a harmless name (from its XML report)."""
    b = Batch("calib-real", [], collections.OrderedDict([("plain.c", REAL_BODY)]))
    try:
        r, data = b.run([ENABLE, "--xml", "--emit-duplicates"])
    finally:
        b.close()
    fs = xml_decode(ET.fromstring(data))
    assert fs and all(l[0] == "plain.c" for f in fs for l in f["locs"]), fs
    return fs


def near_duplicates():
    """For two base findings (one location / two locations): the exact duplicate and every variant differing from the base
    in exactly ONE field.  (The certainty cannot be set through the addon interface; see the real near-duplicates.)"""
    n = itertools.count()
    out = []

    def add(label, **kw):
        f = FD(eid=kw.pop("eid", "nd"), var="neardup:" + label, **kw)
        out.append(f)
        return f
    b1 = dict(short="near duplicate", locs=[("t1", 2, 3, "")], severity="style", cwe=398)
    add("base1", **b1)
    add("exact", **b1)
    add("column", **dict(b1, locs=[("t1", 2, 9, "")]))
    add("line", **dict(b1, locs=[("t1", 3, 3, "")]))
    add("file", **dict(b1, locs=[("t2", 2, 3, "")]))
    add("message", **dict(b1, short="near duplicate!"))
    add("verbose", **dict(b1, verbose="near duplicate, told at length"))
    add("severity", **dict(b1, severity="warning"))
    add("id", eid="nx", **b1)
    add("cwe", **dict(b1, cwe=399))
    add("cwe0", **dict(b1, cwe=0))
    add("location-count", **dict(b1, locs=[("t2", 1, 1, "came from here"), ("t1", 2, 3, "")]))
    f = add("symbol", **b1)
    f["symbol"], f["template_msg"] = "sym", "near duplicate"
    b2 = dict(short="near duplicate path", locs=[("t2", 1, 4, "first step"), ("t1", 2, 3, "arrives here")], severity="warning")
    add("base2", eid="np", **b2)
    add("exact", eid="np", **b2)
    for label, loc in (("column", ("t2", 1, 7, "first step")), ("line", ("t2", 2, 4, "first step")),
                       ("file", ("t3", 1, 4, "first step")), ("info", ("t2", 1, 4, "another step"))):
        add("2nd-" + label, eid="np", **dict(b2, locs=[loc, b2["locs"][1]]))
    add("primary-column", eid="np", **dict(b2, locs=[b2["locs"][0], ("t1", 2, 8, "arrives here")]))
    add("primary-info", eid="np", **dict(b2, locs=[b2["locs"][0], ("t1", 2, 3, "ends here")]))
    add("location-count", eid="np", **dict(b2, locs=[("t3", 3, 1, "zeroth step")] + b2["locs"]))
    return out


REAL_DUP_C = "int f(void)\n{\n    return 1 / 0 + 2 / 0;\n}\nint g(int x)\n{\n    return x / 0 + (x + 1) / 0;\n}\n"


def triple_templates():
    """thorough, last phase: all ordered triples of distinct documented fields x 2 separators"""
    return [(a + sep + b + sep + c, None) for a, b, c in itertools.permutations(FIELDS, 3) for sep in (":", "\\n")]


def real_name_batches(tier, model):
    # '"' excluded: the command line parser strips quotation marks from path arguments (not this property's business)
    chars = [c for c in FILE_CHARS if c not in "\n\""] + ["\n", "\udcff"]
    k = 1 if tier == "quick" else 2
    names = [s for s in strings(chars, k) if s]
    groups = collections.OrderedDict()
    for s in names:
        groups.setdefault("".join(sorted(set(SPECIAL.findall(s)))), []).append(s)
    for sig, ns in groups.items():
        files = collections.OrderedDict((n + ".c", REAL_BODY) for n in ns)
        fs = []
        for n in ns:
            for m in model:
                f = json.loads(json.dumps(m))
                for l in f["locs"]:
                    l[0] = n + ".c"
                f["short"], f["verbose"] = m["short"], m["verbose"]
                f.update(symbol=None, var="file")
                fs.append(f)
        yield sig, files, fs


REAL_C = """void f(int *p)
{
    *p = 3;
}
int main(void)
{
    int *p = 0;
    f(p);
    // REMARK keep <x> & "y"
    int x = 0;
    return 0;
}
struct S { int a; };
void g(struct S *s, int n)
{
    char buf[10];
    if (n == 10) {}
    buf[n] = 0;
}
"""


# ------------------------------------------------------------------------------------------------ driver
class Driver:
    def __init__(self, ctx, tier):
        self.ctx, self.tier = ctx, tier
        self.rng = Rng(RNG)
        self.outcomes = collections.Counter()
        self.runs = 0

    def report(self, batch, fmt, opts, fails, extra=None):
        seen = set()
        for key, what, f in fails:
            self.outcomes[key] += 1
            if key in seen:
                continue
            seen.add(key)
            art = {"batch": batch.name, "format": fmt, "options": list(batch.opts) + list(opts),
                   "real_files": batch.real, "findings": [describe(f)] if f else [describe(x) for x in batch.findings][:40]}
            if f is not None and batch.real is not None and f["locs"]:
                # a real run reports every finding of the file: record them all so that the replay is exact
                name = f["locs"][-1][0]
                art["findings"] = [describe(x) for x in batch.findings if x["locs"] and x["locs"][-1][0] == name]
                art["real_files"] = {n: c for n, c in batch.real.items() if n == name}
            if f is not None and f.get("_near") is not None and batch.real is None:
                art["findings"] = [describe(f["_near"]), describe(f)]      # the pair: reported finding, dropped finding
                for a_, f_ in zip(art["findings"], (f["_near"], f)):
                    if f_.get("template_msg"):
                        a_["template_msg"] = f_["template_msg"]
            elif f is not None and f.get("template_msg"):
                art["findings"][0]["template_msg"] = f["template_msg"]
            if extra:
                art.update(extra)
            self.ctx.violation(key, what, art)

    def text_run(self, batch, t, tloc, verbose=False, dedup=False, outfile=False, enable=ENABLE):
        opts = [enable] + tmpl_opts(t, tloc) + ([] if dedup else ["--emit-duplicates"]) + (["-v"] if verbose else [])
        r, data = batch.run(opts, outfile)
        return opts, r, data

    def judge_text(self, batch, findings, t, tloc, verbose, dedup, opts, r, data, trailer=False):
        self.runs += 1
        self.ctx.count(len(findings))
        if data is None or r.rc != 0 or r.timed_out:
            self.report(batch, "text", opts, [("text:run-failed", "exit %s, no report (%s)" % (r.rc, r.text_err()[-200:]), None)])
            return
        fails, ok, vac = check_text(batch, findings, data, t, tloc, verbose, dedup, trailer)
        self.ctx.bump("vacuous_empty_rendering", vac)
        self.ctx.distinct("%s|text|%s" % (batch.name, opts))
        self.ctx.bump("text_renderings_checked", ok + len(fails))
        self.outcomes["text:ok"] += ok
        self.report(batch, "text", opts, fails, {"template": t, "template_location": tloc})

    def sub_batch(self, batch, part, tag):
        if batch.real is None:
            return batch.sub(part, tag)
        names = set(l[0] for f in part for l in f["locs"])
        return Batch(batch.name + "." + tag, part, collections.OrderedDict((n, c) for n, c in batch.real.items() if n in names), batch.opts)

    def xml_run(self, batch, findings, outfile=False, dedup=False, enable=ENABLE, depth=0):
        opts = [enable, "--xml"] + ([] if dedup else ["--emit-duplicates"])
        r, data = batch.run(opts, outfile)
        self.runs += 1
        self.ctx.count(len(findings))
        if data is None or r.rc != 0:
            self.report(batch, "xml", opts, [("xml:run-failed", "exit %s (%s)" % (r.rc, r.text_err()[-200:]), None)])
            return
        fails, ok, parsed = check_xml(self.rng, findings, data, dedup)
        self.ctx.distinct("%s|xml|%s|%s" % (batch.name, opts, outfile))
        if not parsed:
            if len(findings) > 1:
                # all findings of a group share the same special characters: isolate ONE witness (the first finding that
                # is ill-formed on its own; halving search), the other members cannot be checked in this report
                part = findings
                while len(part) > 1:
                    h = part[:max(1, len(part) // 2)]
                    sb = self.sub_batch(batch, h, "w%d" % depth)
                    try:
                        rr, dd = sb.run(opts, outfile)
                    finally:
                        sb.close()
                    self.runs += 1
                    try:
                        ET.fromstring(dd)
                        part = part[len(h):]
                    except ET.ParseError:
                        part = h
                    depth += 1
                sb = self.sub_batch(batch, part, "w")
                try:
                    self.ctx.bump("xml_unchecked_in_ill_formed_report", len(findings) - 1)
                    self.xml_run(sb, part, outfile, dedup, enable, depth + 1)
                finally:
                    sb.close()
                return
            f = findings[0]
            cc = culprit_class("".join(l[0] for l in f["locs"]) + (f.get("symbol") or ""), ("control", "invalid-utf8"))
            fails = [("xml:not-well-formed:" + (f.get("var") or "?") + ":" + cc, fails[0][1] + " -- finding %r" % describe(f), f)]
        self.ctx.bump("xml_findings_checked", ok + len([x for x in fails if x[2] is not None]))
        self.outcomes["xml:ok"] += ok
        self.report(batch, "xml", opts, fails)

    def sarif_run(self, batch, findings, outfile=False, dedup=False, enable=ENABLE):
        opts = [enable, "--output-format=sarif"] + ([] if dedup else ["--emit-duplicates"])
        r, data = batch.run(opts, outfile)
        self.runs += 1
        self.ctx.count(len(findings))
        if data is None or r.rc != 0:
            self.report(batch, "sarif", opts, [("sarif:run-failed", "exit %s (%s)" % (r.rc, r.text_err()[-200:]), None)])
            return
        fails, ok, parsed = check_sarif(findings, data, dedup)
        self.ctx.distinct("%s|sarif|%s|%s" % (batch.name, opts, outfile))
        files = collections.OrderedDict()
        for f in findings:
            files.setdefault(f["locs"][-1][0] if f["locs"] else "", []).append(f)
        if not parsed and len(files) > 1 and batch.real is not None:
            for name, part in files.items():        # real-name groups are small: one run per file
                sb = self.sub_batch(batch, part, "s")
                try:
                    self.sarif_run(sb, part, outfile, dedup, enable)
                finally:
                    sb.close()
            return
        if not parsed and len(files) == 1:
            f = findings[0]
            fails = [(fails[0][0] + ":" + (f.get("var") or "?") + ":" + culprit_class("".join(l[0] for l in f["locs"]), ("invalid-utf8",)), fails[0][1], f)]
        self.ctx.bump("sarif_findings_checked", ok + len([x for x in fails if x[2] is not None]))
        self.outcomes["sarif:ok"] += ok
        self.report(batch, "sarif", opts, fails)

    def text_many(self, batch, findings, tpl, trailer=False, **kw):
        def work(tt):
            if self.ctx.expired():
                return None
            return tt, self.text_run(batch, tt[0], tt[1], **kw)
        for x in pmap(work, tpl):
            if x is None:
                continue
            (t, tloc), (opts, r, data) = x
            self.judge_text(batch, findings, t, tloc, kw.get("verbose", False), kw.get("dedup", False), opts, r, data, trailer)

    def xml_groups(self, batch, findings, max_special=None, **kw):
        """One report per set of non-printable characters occurring in file / symbol names, so that an ill-formed report
        only hides findings of its own class.  max_special: skip groups with more special characters (quick tier)."""
        groups = collections.OrderedDict()
        for f in findings:
            groups.setdefault(special_sig(f), []).append(f)
        if len(groups) == 1:
            self.xml_run(batch, findings, **kw)
            return
        for n, (sig, fs) in enumerate(groups.items()):
            if self.ctx.expired():
                return
            if max_special is not None and len(sig) > max_special:
                self.ctx.bump("xml_groups_left_to_thorough", 1)
                continue
            sb = batch.sub(fs, "g%d" % n)
            try:
                self.xml_run(sb, fs, **kw)
            finally:
                sb.close()


def main(tier, replay=None):
    ctx = Ctx("C26", tier, "model_checking", 170 if tier == "quick" else 1700, replay)
    build.build("plain")
    d = Driver(ctx, tier)
    if replay:
        return do_replay(d, replay)
    quick = tier == "quick"
    k = 2 if quick else 3
    ms = 1 if quick else None            # quick: XML groups with at most one kind of non-printable character
    predef = [(None, None)] + [(x, None) for x in PREDEF if x]
    predef_single = predef + [(f, None) for f in FIELDS]
    samples = []

    # 1. core findings x every template
    core = core_findings(False)
    b = Batch("core", core)
    try:
        tpl = templates(tier)
        d.text_many(b, core, tpl)
        ctx.cov["templates"] = len(tpl)
        d.text_many(b, core, [(None, None), ("{severity}", None)] + ([] if quick else [("simple", None), ("{id}", None)]), dedup=True)
        d.text_many(b, core, [(None, None), ("{file}:{line} {message}", "{info}")] + ([] if quick else [("{message}", None)]), verbose=True)
        d.text_many(b, core, [(None, None), ("{file}:{line}:{column} {message} [{id}]", "{file}:{line} {info}")]
                    + ([] if quick else [("gcc", None)]), outfile=True)
        d.xml_groups(b, core, max_special=ms)
        d.sarif_run(b, core)
        plain = [f for f in core if not special_sig(f)]
        sb = b.sub(plain, "plain")
        try:
            for kw in ({"outfile": True}, {"dedup": True}):
                d.xml_run(sb, plain, **kw)
                d.sarif_run(sb, plain, **kw)
        finally:
            sb.close()
    finally:
        b.close()

    # 1b. near-duplicates with the duplicate filter ACTIVE (no --emit-duplicates): a finding may only be dropped from a
    #     report if an identical one (in everything that format carries) is in it
    nd = near_duplicates()
    b = Batch("near-duplicates", nd)
    try:
        d.text_many(b, nd, [(None, None), ("{file}:{line}: {severity}: {message} [{id}]", None), ("{message}", "{info}"),
                            ("{file}:{line}:{column}:{cwe}:{message}", "{file}:{line}:{column}: {info}")], dedup=True)
        d.text_many(b, nd, [(None, None)], dedup=True, verbose=True)
        for kw in ({"dedup": True}, {"dedup": True, "outfile": True}):
            d.xml_run(b, nd, **kw)
            d.sarif_run(b, nd, **kw)
        d.xml_run(b, nd)
        d.sarif_run(b, nd)
        d.text_many(b, nd, [(None, None)])
        ctx.bump("near_duplicate_findings", len(nd))
    finally:
        b.close()
    b = Batch("real-near-duplicates", [], collections.OrderedDict([("dup.c", REAL_DUP_C)]))
    try:
        r, data = b.run([ENABLE, "--xml", "--emit-duplicates"])
        d.runs += 1
        try:
            rf = [f for f in xml_decode(ET.fromstring(data))]
            for f in rf:
                f["symbol"], f["var"] = None, "real-neardup"
            b.findings = rf
            ctx.cov["real_near_duplicates"] = ["%s@%s" % (f["id"], ":".join(str(x) for x in f["locs"][-1][:3])) for f in rf]
            for kw in ({"dedup": True}, {"dedup": True, "outfile": True}):
                d.xml_run(b, rf, **kw)
                d.sarif_run(b, rf, **kw)
            d.text_many(b, rf, [(None, None), ("{file}:{line}: {message}", None)], dedup=True)
        except ET.ParseError as e:
            d.report(b, "xml", [ENABLE, "--xml"], [("xml:not-well-formed:real", str(e), None)])
    finally:
        b.close()

    # 2. information severity enabled: the run-level checkersReport finding follows the injected ones (shape only)
    corei = core_findings(True)
    b = Batch("core-info", corei)
    try:
        d.text_many(b, corei, [(None, None), ("{severity}:{message}", None), ("{callstack}", None)] if quick else predef_single,
                    trailer=True, enable=ENABLE_INFO)
        plain = [f for f in corei if not special_sig(f)]
        sb = b.sub(plain, "plain")
        try:
            d.xml_run(sb, plain, enable=ENABLE_INFO)
        finally:
            sb.close()
        d.sarif_run(b, corei, enable=ENABLE_INFO)
    finally:
        b.close()

    # 3. string sweeps, one field at a time
    n = itertools.count()
    sweeps = [
        ("message", [FD(s, eid="m%d" % next(n), var="message") for s in strings(TOK, k)],
         [(None, None), ("cppcheck1", None), ("{message}", None), ("{id}:{message}", None)] if quick else predef_single, {}),
        ("file", [FD("in file", locs=[(s, 2, 3, "")], eid="f%d" % next(n), var="file") for s in strings(FILE_TOK, k)
                  if s and s not in (".", "..")],
         [(None, None), ("{file}", None), ("{callstack}", None), ("{file}:{line}", None)] if quick else predef_single, {}),
        ("info", [FD("two locations", locs=[("t2", 3, 1, s), ("t1", 1, 2, "")], eid="i%d" % next(n), var="info")
                  for s in strings(TOK, k)],
         [(None, None), ("{message}", "{info}"), ("{callstack}", "{info}|{code}")] +
         ([] if quick else [("gcc", None), ("daca2", None), ("selfcheck", None), ("{file}:{line}", "{file}:{line}:{column}: note: {info}")]), {}),
        ("verbose", [FD("s", verbose=s, eid="v%d" % next(n), var="verbose") for s in strings(TOK + ["\n"], k)
                     if s and not s.endswith("\n")],
         [(None, None), ("{message}", None)] + ([] if quick else [("{id}:{message}", None)]), {"verbose": True}),
        ("symbol", [with_symbol(s, eid="y%d" % next(n), var="symbol") for s in strings([c for c in CHARS if c not in "\\"], k) if s],
         [("{message}", None)], {}),
    ]
    for name, fs, tpl, kw in sweeps:
        if ctx.expired():
            break
        b = Batch(name, fs)
        try:
            d.text_many(b, fs, tpl, **kw)
            d.xml_groups(b, fs, max_special=ms)
            d.sarif_run(b, fs)
            if name == "message" and not quick:
                d.xml_run(b, fs, outfile=True)
        finally:
            b.close()
        ctx.bump("sweep_findings:" + name, len(fs))
        samples.append({"sweep": name, "findings": len(fs), "example": describe(fs[min(len(fs) - 1, 40)])})

    # 4. real findings: hostile file names
    for sig, files, fs in real_name_batches(tier, calibrate_real()) if not ctx.expired() else []:
        if ctx.expired():
            break
        b = Batch("real-names", fs, files)
        try:
            d.text_many(b, fs, [(None, None)] if quick and sig else
                        [(None, None), ("gcc", None), ("{file}:{line}:{column}:{id}:{message}", None), ("{callstack}", None)])
            d.xml_run(b, fs)
            d.sarif_run(b, fs)
        finally:
            b.close()
        ctx.bump("real_name_findings", len(fs))
    # 5. real findings: multi-location, remark, inconclusive -- the XML run is the reference list, text/SARIF must agree
    b = Batch("real-shapes", [], collections.OrderedDict([("real.c", REAL_C)]), ["--inconclusive"])
    try:
        r, data = b.run([ENABLE, "--xml", "--emit-duplicates"])
        d.runs += 1
        try:
            root = ET.fromstring(data)
            rf = xml_decode(root)
            for f in rf:
                f["symbol"], f["var"] = None, "real"
            fails = [("xml:rng:" + kk, w, None) for kk, w in d.rng.validate(root)]
            d.report(b, "xml", [ENABLE, "--xml"], fails)
            ctx.count(len(rf))
            ctx.bump("real_shape_findings", len(rf))
            ctx.cov["real_shapes"] = sorted(set("%s/%s/%dloc%s%s" % (f["id"], f["severity"], len(f["locs"]),
                                            "/inconclusive" if f["inconclusive"] else "", "/remark" if f["remark"] else "") for f in rf))
            b.findings = rf
            d.text_many(b, rf, (predef if quick else predef_single) + [
                ("{file}:{line}: {message} [{id}]\\n{remark}", None),
                ("{file}:{line}: {severity}: {message}\\n{code}", "{file}:{line}: note: {info}\\n{code}")])
            d.sarif_run(b, rf)
        except ET.ParseError as e:
            d.report(b, "xml", [ENABLE, "--xml"], [("xml:not-well-formed:real", str(e), None)])
    finally:
        b.close()

    # 6. thorough: the triple templates on the core findings (largest block, last so that a deadline cuts only this)
    if not quick and not ctx.expired():
        b = Batch("core", core)
        try:
            tpl3 = triple_templates()
            d.text_many(b, core, tpl3)
            ctx.cov["templates"] = ctx.cov.get("templates", 0) + len(tpl3)
        finally:
            b.close()

    ctx.samples = samples[:5]
    for kk in ("text:ok", "xml:ok", "sarif:ok"):
        ctx.cov["ok_" + kk.split(":")[0]] = d.outcomes.get(kk, 0)
    ctx.cov.update({"cppcheck_runs": d.runs, "outcome_classes": {kk: v for kk, v in d.outcomes.items() if not kk.endswith(":ok")},
                    "states": max(1, ctx.evaluations), "transitions": max(1, d.runs),
                    "traces_validated_against_impl": d.runs, "max_tokens_per_text": k, "tokens": len(TOK)})
    ctx.assumptions = [
        "points the manual leaves open are taken from cppcheck: no location -> {file}=nofile {line}=0 {column}=0, no cwe -> 0, "
        "empty location info -> the short message, location lines only for findings with >= 2 locations, {code} of a "
        "missing line is empty, colour fields of the predefined templates are empty (no TTY)",
        "a finding whose whole rendering is empty produces no output line",
        "duplicates (same rendered text under the active template) are what the duplicate filter removes; exact runs use "
        "--emit-duplicates",
        "XML text fields are compared in the escaped domain (\\ooo for non-printable bytes); SARIF line/column < 1 are 1",
        "file-name alphabet excludes \\ / . (path normalisation is not part of this property)"]
    return ctx.finish(
        rule="findings injected through a scripted addon, many per run; per field all strings of <= %d tokens over a %d-token "
             "alphabet (14 characters + 12 template field names), the structural core set x all %d templates (default, "
             "predefined, every single field, every ordered pair of fields x 1 (thorough 4) separators%s, template-location sets), x text / "
             "XML / SARIF, x --output-file, x duplicate filter on/off, x -v; real findings in files named by every string of "
             "<= %d characters incl. 0xFF. One evaluation = one finding checked in one run's report; distinct = distinct "
             "(finding, options)" % (k, len(TOK), ctx.cov.get("templates", 0), ", triples" if tier == "thorough" else "",
                                     1 if tier == "quick" else 2))


def do_replay(d, replay):
    a = replay["artefact"]
    fs = []
    for x in a["findings"]:
        f = dict(x)
        f.setdefault("var", "")
        fs.append(f)
    if a.get("real_files"):
        b = Batch("replay", fs, collections.OrderedDict(a["real_files"]), [o for o in a["options"] if o == "--inconclusive"])
    else:
        b = Batch("replay", fs)
    opts = [o for o in a["options"] if o != "--inconclusive"]
    try:
        r, data = b.run(opts, False)
        print("options:", opts)
        for f in fs:
            print("finding:", json.dumps(describe(f)))
        if a["format"] == "text":
            t, tloc = a.get("template"), a.get("template_location")
            ta, tb = resolve_templates(t, tloc)
            for f in fs:
                print("expected:", render(f, ta, tb, "-v" in opts, b.dir))
            print("observed:", data)
            fails, _, _ = check_text(b, fs, data, t, tloc, "-v" in opts, "--emit-duplicates" not in opts)
        elif a["format"] == "xml":
            print("observed:", data.decode("utf-8", "replace"))
            fails, _, _ = check_xml(d.rng, fs, data, "--emit-duplicates" not in opts)
        else:
            print("observed:", data.decode("utf-8", "replace")[-1500:])
            fails, _, _ = check_sarif(fs, data, "--emit-duplicates" not in opts)
        for kk, w, _ in fails:
            print("FAIL %s: %s" % (kk, w))
        base = replay.get("key", "").split(":")[:2]
        print("recorded key: %s -> %s" % (replay.get("key"), "reproduced" if any(kk.split(":")[:2] == base for kk, _, _ in fails)
                                          else "NOT reproduced"))
    finally:
        b.close()
    return 0


if __name__ == "__main__":
    sys.exit(main(sys.argv[1] if len(sys.argv) > 1 else "quick"))
