"""C01 -- value-flow facts hold in every UB-free execution.

Bounded exhaustive enumeration of small C functions (grammar G1, several families, each a complete product), one
`cppcheck --dump` and one gcc compile+run per batch of functions (vlib/progsem.py).  Every Known / Impossible
integer fact and every Known / Impossible symbolic relation that the dump attaches to an r-value expression
occurrence is compared with the values that occurrence takes in every sanitizer-clean execution over the full
finite input domain.  The real compiler is the semantics.
"""
import itertools, os, sys, json, collections, time
from concurrent.futures import ProcessPoolExecutor
from vlib import build, run, progsem as P
from vlib.core import Ctx, sha, NCPU

V = lambda n: ("v", n)
N = lambda k: ("n", k)
B = lambda op, l, r: ("b", op, l, r)
ASG = lambda lv, e, op="=": ("=", op, lv, e)
A, Bp, X, Y, G = V("a"), V("b"), V("x"), V("y"), V("g@")

ALLT = ["sc", "uc", "ss", "us", "si", "ui", "sl", "ul", "b"]
CONSTS = [0, 1, 2, 3, 255, 256, -1]
BINOPS = ["+", "-", "*", "/", "%", "<<", ">>", "&", "|", "^", "<", "<=", "==", "!=", "&&", "||", ">", ">="]
BATCH = 300
GCC_NOASAN = [f for f in P.GCC_FLAGS if "address" not in f] + ["-fsanitize=undefined"]


def fn(body, params=(("si", "a"), ("si", "b")), pre=(), ret="si", **kw):
    d = dict(name="f@", ret=ret, params=[tuple(p) for p in params], body=list(body), pre=list(pre))
    d.update(kw)
    return d


# ---- families -----------------------------------------------------------------------------------------------------
def fam_fold(tier):
    """constant folding through typed locals: T1 x = K1; T2 y = <expr over x, K2>; return y;"""
    q = tier == "quick"
    t1s = ["uc", "sc", "ui", "b"] if q else ALLT
    t2s = ["si", "uc", "ui"] if q else ALLT
    k1s = [0, 1, 3, 255, 256, -1] if q else [0, 1, 2, 3, 255, 256, -1, 127, 128, 65535, 65536, -128, 2 ** 31 - 1, -2 ** 31]
    k2s = [0, 1, 31, -1] if q else [0, 1, 2, 3, 7, 8, 31, 32, 255, 256, -1]
    for t1 in t1s:
        for k1 in k1s:
            for t2 in t2s:
                for op in BINOPS:
                    for k2 in k2s:
                        yield fn([("decl", t1, "x", N(k1)), ("decl", t2, "y", B(op, X, N(k2))), ("ret", Y)], ret=t2)
                        if not q and op not in ("+", "*", "&", "|", "^", "==", "!=", "&&", "||"):
                            yield fn([("decl", t1, "x", N(k1)), ("decl", t2, "y", B(op, N(k2), X)), ("ret", Y)], ret=t2)
                if not q or t2 in ("si", "uc"):
                    for u in ("-", "~", "!"):
                        yield fn([("decl", t1, "x", N(k1)), ("decl", t2, "y", ("u", u, X)), ("ret", Y)], ret=t2)
                    for tc in (ALLT if not q else ["uc", "sc", "us", "ui", "b"]):
                        yield fn([("decl", t1, "x", N(k1)), ("decl", t2, "y", ("c", tc, X)), ("ret", Y)], ret=t2)


def fam_param(tier):
    """facts derived from the types and operators alone: T a parameter; y = a op K / (T2)a / a op b; return"""
    q = tier == "quick"
    for t1 in (["uc", "sc", "si", "ui", "b", "us"] if q else ALLT):
        for t2 in (["si", "uc"] if q else ["si", "uc", "ui", "sl", "b"]):
            for op in BINOPS:
                for k in ([0, 1, 3, 255, 256, -1] if q else CONSTS):
                    yield fn([("decl", t2, "y", B(op, A, N(k))), ("ret", Y)], params=[(t1, "a"), ("si", "b")], ret=t2)
                    if not q or (k in (0, 1) and t2 == "si"):
                        yield fn([("decl", t2, "y", B(op, N(k), A)), ("ret", Y)], params=[(t1, "a"), ("si", "b")], ret=t2)
                yield fn([("decl", t2, "y", B(op, A, Bp)), ("ret", Y)], params=[(t1, "a"), (t1, "b")], ret=t2)
            for tc in ALLT:
                yield fn([("decl", t2, "y", ("c", tc, A)), ("ret", Y)], params=[(t1, "a"), ("si", "b")], ret=t2)
            for u in ("-", "~", "!"):
                yield fn([("decl", t2, "y", ("u", u, A)), ("ret", Y)], params=[(t1, "a"), ("si", "b")], ret=t2)


CMPS = ["<", "<=", "==", "!=", ">", ">="]


def conds(tier, var=A):
    ks = [0, 1, 255] if tier == "quick" else [0, 1, 2, 255, -1]
    for op in CMPS:
        for k in ks:
            yield B(op, var, N(k))
    yield var
    yield ("u", "!", var)
    yield B("==", var, Bp)
    yield B("<", var, Bp)
    yield B("&", var, N(1))
    yield B("==", B("%", var, N(2)), N(0))
    if tier != "quick":
        yield B("&&", B(">", var, N(0)), B("<", var, N(3)))
        yield B("||", B("<", var, N(0)), B(">", var, N(3)))


def simple_stmts(tier):
    """assignment-like statements over x (int local), y (int local), a"""
    yield ("e", ASG(X, N(1)))
    yield ("e", ASG(X, A))
    yield ("e", ASG(X, B("+", A, N(1))))
    yield ("e", ASG(A, N(2)))
    yield ("e", ("post", "++", X))
    yield ("e", ("pre", "--", A))
    yield ("e", ASG(X, N(3), "+="))
    if tier != "quick":
        yield ("e", ASG(X, B("-", X, N(1))))
        yield ("e", ASG(A, X))
        yield ("e", ASG(X, N(2), "*="))
        yield ("e", ASG(A, N(1), "-="))


def uses():
    yield ("ret", B("^", X, A))


def fam_cond(tier):
    """condition-derived facts: int x = E0; <if / if-else / early return with a condition on a or x>; [stmt]; return x ^ a"""
    q = tier == "quick"
    inits = [A] if q else [N(0), N(1), A, B("+", A, N(1))]
    ss = list(simple_stmts(tier))
    for e0 in inits:
        d0 = ("decl", "si", "x", e0)
        for var in (A, X):
            for c in conds(tier, var):
                for s1 in ss:
                    yield fn([d0, ("if", c, [s1], None), ("ret", B("^", X, A))])
                    yield fn([d0, ("if", c, [("ret", X)], None), s1, ("ret", B("^", X, A))])
                    yield fn([d0, ("if", c, [("ret", A)], [s1]), ("ret", B("^", X, A))])
                    for s2 in (ss[:4] if q else ss):
                        yield fn([d0, ("if", c, [s1], [s2]), ("ret", B("^", X, A))])
                # uses inside the branch and after it
                yield fn([d0, ("decl", "si", "y", N(0)), ("if", c, [("e", ASG(Y, B("+", var, N(1))))], [("e", ASG(Y, B("-", var, N(1))))]),
                          ("ret", B("^", Y, var))])
                yield fn([d0, ("decl", "si", "y", ("?", c, var, N(0))), ("ret", B("^", Y, var))])
                yield fn([d0, ("decl", "si", "y", B("&&", c, B("==", var, N(1)))), ("ret", B("^", Y, var))])
                yield fn([d0, ("decl", "si", "y", B("||", c, B("==", var, N(1)))), ("ret", B("^", Y, var))])


def fam_narrow(tier):
    """typed local written by assignments / compound assignments / ++ / assignment expressions, then read"""
    q = tier == "quick"
    ts = ["uc", "sc", "us", "ui", "b", "si"] if q else ALLT
    ks = [0, 255, 256, 300, -1] if q else [0, 1, 2, 255, 256, 300, -1, 127, 128, 65535, 65536, 2 ** 31 - 1]
    for t in ts:
        for k in ks:
            d = ("decl", t, "x", N(k))
            z = ("decl", t, "x", N(0))
            yield fn([d, ("ret", X)])
            yield fn([z, ("e", ASG(X, N(k))), ("ret", X)])
            yield fn([z, ("decl", "si", "y", ASG(X, N(k))), ("ret", Y)])
            yield fn([z, ("decl", "si", "y", ASG(X, N(k))), ("ret", X)])
            yield fn([z, ("decl", "si", "y", N(0)), ("e", ASG(Y, ASG(X, N(k)))), ("ret", B("^", X, Y))])
            yield fn([z, ("decl", "si", "y", B("+", ASG(X, N(k)), N(1))), ("ret", B("^", X, Y))])
            yield fn([z, ("if", B("==", ASG(X, N(k)), N(k)), [("ret", N(1))], None), ("ret", X)])
            for op in (["+=", "-=", "*=", "<<=", ">>=", "|=", "&=", "^=", "/=", "%="]):
                for k2 in ([1, 2, 255] if q else [1, 2, 3, 255, 256, -1]):
                    yield fn([d, ("e", ASG(X, N(k2), op)), ("ret", X)])
                    if not q or k2 == 1:
                        yield fn([d, ("decl", "si", "y", ASG(X, N(k2), op)), ("ret", B("^", X, Y))])
            for kind, op in (("post", "++"), ("pre", "++"), ("post", "--"), ("pre", "--")):
                yield fn([d, ("e", (kind, op, X)), ("ret", X)])
                yield fn([d, ("decl", "si", "y", (kind, op, X)), ("ret", B("^", X, Y))])
            yield fn([z, ("e", ASG(X, A))], params=[("si", "a"), ("si", "b")]) if False else fn([z, ("e", ASG(X, A)), ("ret", X)])
            yield fn([("decl", t, "x", A), ("ret", X)])
            yield fn([("decl", t, "x", A), ("if", B("==", X, N(k)), [("ret", N(1))], None), ("ret", X)])
            yield fn([("decl", t, "x", A), ("if", B("<", X, N(k)), [("ret", X)], None), ("ret", X)])
            yield fn([("decl", t, "x", A), ("if", B(">", X, N(k)), [("ret", X)], None), ("ret", X)])


def fam_loop(tier):
    q = tier == "quick"
    bodies = [("e", ASG(X, V("i"), "+=")), ("e", ("post", "++", X)), ("e", ASG(X, V("i"))), ("e", ASG(X, N(2), "*=")),
              ("if", B("==", V("i"), N(1)), [("break",)], None), ("if", B("==", V("i"), N(1)), [("continue",)], None),
              ("if", B("==", A, V("i")), [("e", ASG(X, N(7)))], None)]
    for k in ([0, 1, 3] if q else [0, 1, 2, 3, 4]):
        for b in bodies:
            for cmp_ in ("<", "<=", "!="):
                yield fn([("decl", "si", "x", N(0)), ("for", ("decl", "si", "i", N(0)), B(cmp_, V("i"), N(k)), ("post", "++", V("i")), [b]),
                          ("ret", X)])
                yield fn([("decl", "si", "x", N(0)), ("decl", "si", "i", N(0)),
                          ("for", None, B(cmp_, V("i"), N(k)), ("pre", "++", V("i")), [b]), ("ret", B("^", X, V("i")))])
            yield fn([("decl", "si", "x", N(0)), ("for", ("decl", "si", "i", N(k)), B(">", V("i"), N(0)), ("post", "--", V("i")), [b]), ("ret", X)])
            yield fn([("decl", "si", "x", N(0)), ("decl", "si", "i", N(0)), ("while", B("<", V("i"), N(k)), [b, ("e", ("post", "++", V("i")))]),
                      ("ret", B("^", X, V("i")))])
            yield fn([("decl", "si", "x", N(0)), ("decl", "si", "i", N(0)), ("dowhile", [b, ("e", ("post", "++", V("i")))], B("<", V("i"), N(k))),
                      ("ret", B("^", X, V("i")))])
            yield fn([("decl", "si", "x", N(0)), ("for", ("decl", "si", "i", N(0)), B("<", V("i"), A), ("post", "++", V("i")), [b]), ("ret", X)],
                     domains={"a": [-1, 0, 1, 2, 3]})
        for t in (["uc", "si", "ui"] if q else ALLT):
            yield fn([("decl", t, "x", N(k)), ("while", B("<", X, N(3)), [("e", ("post", "++", X))]), ("ret", X)])
            yield fn([("decl", t, "x", N(k)), ("while", B(">", X, N(0)), [("e", ("post", "--", X))]), ("ret", X)])
            yield fn([("decl", t, "x", N(k)), ("while", B("!=", X, N(3)), [("e", ASG(X, N(1), "+="))]), ("ret", X)])
            yield fn([("decl", t, "x", A), ("while", B("<", X, N(k)), [("e", ("post", "++", X))]), ("ret", X)], domains={"a": [-2, 0, 1, 3, 255]})
            yield fn([("decl", t, "x", N(k)), ("while", X, [("e", ("post", "--", X))]), ("ret", X)])


def fam_switch(tier):
    q = tier == "quick"
    ss = list(simple_stmts("quick"))
    for var in (A, X):
        for e0 in (N(0), N(1), A):
            for s1 in ss:
                for s2 in ss[:3]:
                    for brk in (True, False):
                        yield fn([("decl", "si", "x", e0), ("switch", var, ((1, [s1], brk), (None, [s2], True))), ("ret", B("^", X, A))])
                yield fn([("decl", "si", "x", e0), ("switch", var, ((0, [s1], True), (1, [("e", ASG(X, var))], True))), ("ret", B("^", X, A))])


def fam_mem(tier):
    """alias, array, struct, global, callee"""
    q = tier == "quick"
    es = [N(1), N(300), A, B("+", A, N(1))] if q else [N(0), N(1), N(300), N(-1), A, B("+", A, N(1)), B("&", A, N(3))]
    for t in (["si", "uc"] if q else ["si", "uc", "sc", "ui", "us"]):
        for e in es:
            for e2 in es[:3]:
                # pointer alias
                yield fn([("decl", t, "x", e), ("declptr", t, "p", ("&", X)), ("e", ASG(("*", V("p")), e2)), ("ret", X)])
                yield fn([("decl", t, "x", e), ("declptr", t, "p", ("&", X)), ("e", ASG(X, e2)), ("ret", ("*", V("p")))])
                yield fn([("decl", t, "x", e), ("declptr", t, "p", ("&", X)), ("e", ("post", "++", ("*", V("p")))), ("ret", B("^", X, ("*", V("p"))))])
                yield fn([("decl", t, "x", e), ("declptr", t, "p", ("&", X)), ("if", B("==", A, N(1)), [("e", ASG(("*", V("p")), e2))], None), ("ret", X)])
                # arrays
                yield fn([("declarr", t, "r", 3, (e, N(2), N(3))), ("e", ASG(("[]", "r", N(1)), e2)), ("ret", B("^", ("[]", "r", N(0)), ("[]", "r", N(1))))])
                yield fn([("declarr", t, "r", 3, (N(1), N(2), N(3))), ("e", ASG(("[]", "r", A), e2)), ("ret", B("^", ("[]", "r", N(0)), ("[]", "r", N(2))))])
                yield fn([("declarr", t, "r", 3, (N(1), e, N(3))), ("decl", "si", "y", ("[]", "r", B("&", A, N(1)))), ("ret", Y)])
                # struct members
                st = ("raw", "struct S@ { %s m; int n; };" % P.ctype(t))
                yield fn([("declraw", "struct S@ s = {1, 2};", "s", "struct"), ("e", ASG((".", "s", "m"), e)), ("e", ASG((".", "s", "n"), e2)),
                          ("ret", B("^", (".", "s", "m"), (".", "s", "n")))], pre=[st])
                yield fn([("declraw", "struct S@ s = {1, 2};", "s", "struct"), ("declraw", "struct S@ u = s;", "u", "struct"), ("e", ASG((".", "s", "m"), e)),
                          ("ret", B("^", (".", "s", "m"), (".", "u", "m")))], pre=[st])
                # global + callee that modifies it
                hv = dict(name="h@", ret="void", params=[], body=[("e", ASG(G, e2 if e2[0] == "n" else N(5)))])
                gl = ("global", t, "g@", 0)
                yield fn([("e", ASG(G, e)), ("e", ("call", "h@", (), "void")), ("ret", G)], pre=[gl, ("func", hv)])
                yield fn([("e", ASG(G, e)), ("if", B("==", A, N(1)), [("e", ("call", "h@", (), "void"))], None), ("ret", G)], pre=[gl, ("func", hv)])
                yield fn([("e", ASG(G, e)), ("decl", "si", "y", G), ("e", ASG(G, e2)), ("ret", B("^", Y, G))], pre=[gl])
                # callee by value / by pointer
                for hop in ("+", "*", "&", "<"):
                    hi = dict(name="h@", ret=t, params=[(t, "v")], body=[("ret", B(hop, V("v"), N(2)))])
                    yield fn([("decl", "si", "y", ("call", "h@", (e,), "int")), ("ret", Y)], pre=[("func", hi)])
                hp = dict(name="h@", ret="void", params=[(P.ctype(t) + " *", "q")], vars={"q": "ptr"},
                          body=[("e", ASG(("*", V("q")), e2 if e2[0] == "n" else N(5)))])
                yield fn([("decl", t, "x", e), ("e", ("call", "h@", (("&", X),), "void")), ("ret", X)], pre=[("func", hp)])
                hc = dict(name="h@", ret="si", params=[("const " + P.ctype(t) + " *", "q")], vars={"q": "ptr"}, body=[("ret", ("*", V("q")))])
                yield fn([("decl", t, "x", e), ("decl", "si", "y", ("call", "h@", (("&", X),), "int")), ("ret", B("^", X, Y))], pre=[("func", hc)])


def fam_sym(tier):
    """symbolic relations: y defined from x, then x or y changes / is compared"""
    q = tier == "quick"
    for t in (["si", "uc", "ui"] if q else ["si", "uc", "ui", "sc", "sl", "us"]):
        for d in ([0, 1, -1] if q else [0, 1, 2, -1, 255]):
            for mod in ([None] + list(simple_stmts("quick"))):
                body = [("decl", t, "x", A), ("decl", t, "y", B("+", X, N(d)))]
                if mod:
                    body.append(mod)
                yield fn(body + [("ret", B("^", X, Y))])
                yield fn(body + [("if", B("<", X, Y), [("ret", N(1))], None), ("ret", B("-", Y, X))])
                yield fn(body + [("if", B("==", Y, N(3)), [("ret", X)], None), ("ret", Y)])
                yield fn(body + [("if", B(">", X, N(2)), [("ret", Y)], None), ("ret", X)])
            yield fn([("decl", t, "x", A), ("decl", t, "y", X), ("e", ("post", "++", X)), ("ret", B("-", X, Y))])
            yield fn([("decl", t, "x", A), ("decl", t, "y", Bp), ("if", B("==", X, Y), [("ret", B("-", X, Y))], None), ("ret", B("!=", X, Y))])
            yield fn([("decl", t, "x", A), ("decl", t, "y", Bp), ("if", B("<", X, Y), [("ret", B("-", Y, X))], None), ("ret", B(">=", X, Y))])
            yield fn([("decl", t, "x", A), ("decl", t, "y", Bp), ("if", B("<", X, B("+", Y, N(d))), [("ret", B("<", X, Y))], None), ("ret", B(">=", X, Y))])


def fam_ident(tier):
    """identity / absorbing / small constants on EITHER side of every binary operator: q = K op v and q = v op K, followed by
    uses that turn a (wrong) relation between q and v into judged integer or symbolic facts"""
    q = tier == "quick"
    Q = V("q")
    ks = [0, 1, -1, 2] if q else [0, 1, -1, 2, 3, 255]
    vts = ["si", "ui"] if q else ["si", "ui", "uc", "sc", "sl", "ss"]
    for vt in vts:
        for op in BINOPS:
            for k in ks:
                for left in (True, False):
                    for src in (("param",) if q else ("param", "local", "expr")):
                        if src == "param":
                            v, head, params = A, [], [(vt, "a"), ("si", "b")]
                        elif src == "local":
                            v, head, params = X, [("decl", vt, "x", A)], [("si", "a"), ("si", "b")]
                        else:
                            v, head, params = B("+", A, Bp), [], [(vt, "a"), (vt, "b")]
                        e = B(op, N(k), v) if left else B(op, v, N(k))
                        d = head + [("decl", vt if not q else "si", "q", e)]
                        if src == "expr":
                            yield fn(d + [("ret", B("-", Q, v))], params=params)
                            yield fn(d + [("if", B("==", Q, v), [("ret", N(1))], None), ("ret", Q)], params=params)
                            continue
                        yield fn(d + [("ret", B("-", Q, v))], params=params)
                        yield fn(d + [("ret", B("==", Q, v))], params=params)
                        yield fn(d + [("ret", B("+", Q, N(1)))], params=params)
                        yield fn(d + [("if", B("==", Q, v), [("ret", N(1))], None), ("ret", Q)], params=params)
                        if not q:
                            yield fn(d + [("ret", B("<", Q, v))], params=params)
                            yield fn(d + [("if", B("!=", Q, v), [("ret", B("-", v, Q))], None), ("ret", Q)], params=params)
                            yield fn(d + [("e", ("post", "++", v)) if v[0] == "v" else ("e", ASG(Bp, N(0))), ("ret", B("-", Q, v))], params=params)


def has_incdec_on(body, name):
    def walk(x):
        if isinstance(x, (tuple, list)):
            if len(x) == 3 and x[0] in ("pre", "post") and x[2] == V(name):
                return True
            return any(walk(y) for y in x)
        return False
    return walk(body)


def fam_cpp(tier):
    """second pass in C++: the narrow family compiled as C++ (bool instead of _Bool), references and a template callee"""
    q = tier == "quick"
    n = 0
    for f in fam_narrow(tier):
        t = f["body"][0][1]
        if t == "b" and has_incdec_on(f["body"], "x"):
            continue                    # ++/-- on bool is ill-formed in C++17
        n += 1
        if q and n % 4:
            continue
        yield f
    es = [N(1), N(300), A, B("+", A, N(1))]
    for t in (["si", "uc"] if q else ["si", "uc", "sc", "ui", "us", "b"]):
        T = P.ctype(t, "cpp")
        ref = ("declraw", "%s &r = x;" % T, "r", "int")
        for e in es:
            for e2 in es[:3]:
                yield fn([("decl", t, "x", e), ref, ("e", ASG(V("r"), e2)), ("ret", X)])
                yield fn([("decl", t, "x", e), ref, ("e", ASG(X, e2)), ("ret", V("r"))])
                yield fn([("decl", t, "x", e), ref, ("if", B("==", A, N(1)), [("e", ASG(V("r"), e2))], None), ("ret", B("^", X, V("r")))])
                yield fn([("decl", t, "x", e), ref, ("e", ASG(V("r"), e2, "+=")), ("ret", X)])
                hr = dict(name="h@", ret="void", params=[(T + " &", "q")], vars={"q": "int"}, body=[("e", ASG(V("q"), e2 if e2[0] == "n" else N(5)))])
                yield fn([("decl", t, "x", e), ("e", ("call", "h@", (("raw", "x", "int"),), "void")), ("ret", X)], pre=[("func", hr)])
            tpl = ("raw", "template <class T> static T h@(T v) { return v + 2; }")
            yield fn([("decl", t, "x", e), ("decl", "si", "y", ("call", "h@", (X,), "int")), ("ret", Y)], pre=[tpl])
            yield fn([("decl", "si", "y", ("call", "h@<%s>" % T, (e,), "int")), ("ret", Y)], pre=[tpl])


# smallest families first: a deadline cuts the tail of the largest one (fold)
FAMILIES = [("narrow", fam_narrow, "c"), ("param", fam_param, "c"), ("loop", fam_loop, "c"), ("switch", fam_switch, "c"), ("mem", fam_mem, "c"),
            ("sym", fam_sym, "c"), ("ident", fam_ident, "c"), ("cpp", fam_cpp, "cpp"), ("cond", fam_cond, "c"), ("fold", fam_fold, "c")]


# ---- classification of violations ---------------------------------------------------------------------------------
def tags_expr(e, out):
    k = e[0]
    if k == "b":
        out.add("op:" + e[1])
    elif k == "u":
        out.add("un:" + e[1])
    elif k == "c":
        out.add("cast:" + e[1])
    elif k == "=":
        out.add("asg" if e[1] == "=" else "cassign:" + e[1])
    elif k in ("pre", "post"):
        out.add("incdec")
    elif k == "?":
        out.add("ternary")
    elif k == "call":
        out.add("call")
    elif k == "*":
        out.add("deref")
    elif k == "[]":
        out.add("index")
    elif k == ".":
        out.add("member")
    for y in e[1:]:
        if isinstance(y, tuple) and y and isinstance(y[0], str):
            tags_expr(y, out)
        elif isinstance(y, tuple):
            for z in y:
                if isinstance(z, tuple):
                    tags_expr(z, out)


def conv(n, sz, sg):
    bits = 8 * sz
    n &= (1 << bits) - 1
    if sg and n >= 1 << (bits - 1):
        n -= 1 << bits
    return n


def s64(n):
    return n - 2 ** 64 if n >= 2 ** 63 else n


ARITH = ("+", "-", "*", "/", "%", "<<", ">>", "&", "|", "^")


def site_info(b, r, v):
    """Local, JSON-able description of the violating occurrence (input of classify)."""
    o = v["occ"]
    node = o.node
    T = r.types.get(o.id)
    info = {"node": node[0], "op": node[1] if node[0] in ("b", "u", "=", "pre", "post", "c") else None,
            "type": list(T[:2]) if T else None, "role": list(o.role) if o.role else None,
            "child_types": [list(r.types[c][:2]) if c in r.types else None for c in o.children],
            "kind": ("sym-" if v.get("sym") else "") + v["kind"], "n": v["n"], "observed": v["observed"]}
    if node[0] == "v":
        info["decl"] = r.vtypes.get(node[1])
        info["defs"] = sorted(set(d[1] for d in r.defs if d[0] == node[1]))
        # declared type vs type of the defining expressions
        dts = []
        for d in r.defs:
            if d[0] == node[1] and d[1] == "init" and d[2] is not None and d[2] in r.types:
                dts.append(list(r.types[d[2]][:2]))
        info["def_types"] = dts
        dct = []
        for d in r.defs:
            if d[0] == node[1] and d[2] is not None:
                for c_ in r.occs[d[2]].children:
                    if c_ in r.types:
                        dct.append(list(r.types[c_][:2]))
        info["def_child_types"] = dct
        srcs = set()
        for d in r.defs:
            if d[0] == node[1] and d[2] is not None:
                srcs |= set(r.occs[d[2]].vars) - {node[1]}
        info["def_sources_reassigned"] = any(d[0] in srcs and d[1] in ("asg", "cassign", "incdec") for d in r.defs)
        cur = o
        while cur.parent is not None:
            par = r.occs[cur.parent]
            if par.node is not None and par.node[0] == "?" and len(par.children) == 3 and par.children[1] == cur.id:
                cnode = r.occs[par.children[0]].node
                if cnode is not None and cnode[0] == "b" and cnode[1] == "||":
                    info["in_then_of_or_ternary"] = True
            cur = par
        info["def_nodes"] = sorted(set("%s:%s" % (r.occs[d[2]].node[0], r.occs[d[2]].node[1]) for d in r.defs
                                       if d[0] == node[1] and d[2] is not None and r.occs[d[2]].node is not None
                                       and r.occs[d[2]].node[0] in ("c", "b", "u")))
    if node[0] == "c":
        info["cast"] = node[1]
    if node[0] in ("=", "pre", "post") and node[2][0] == "v":
        info["decl"] = r.vtypes.get(node[2][1])
    if node[0] == "b" and node[3][0] == "n":
        info["rhs_const"] = node[3][1]
    if node[0] == "b" and node[2][0] == "n":
        info["lhs_const"] = node[2][1]
    if node[0] == "call":
        callee = [it[1] for it in (r.fn.get("pre") or []) if it[0] == "func" and it[1]["name"] == node[1]]
        if callee:
            info["callee_types"] = [callee[0]["ret"]] + [p_[0] for p_ in callee[0]["params"]]
        elif "<" in node[1]:            # explicit template argument
            spell = node[1][node[1].index("<") + 1:-1]
            info["callee_types"] = [k_ for k_, t_ in P.TYPES.items() if t_[0] == spell or (k_ == "b" and spell == "bool")][:1] or [spell]
        else:                            # template argument deduced from the argument types
            rev = {(t_[1] // 8 or 1, 1 if t_[2] else 0): k_ for k_, t_ in P.TYPES.items() if k_ not in ("c", "l", "b")}
            info["callee_types"] = [rev.get(tuple(ct), "?") for ct in info["child_types"] if ct]
    if o.role and o.role[0] == "init":
        info["dest"] = o.role[1]
    elif o.role and o.role[0] == "rhs" and o.parent is not None and o.parent in r.types:
        info["dest_type"] = list(r.types[o.parent][:2])
    if v.get("sym") is not None:
        info["symvalue"] = v.get("symvalue")
        info["sym_type"] = list(T[2:4]) if T else None
    if node[0] == "b":
        info["children_vars"] = node[2][0] == "v" and node[3][0] == "v"
    return info


def classify(info):
    """Class key of a root violation from its local description.  Every listed class has an explanation check that
    ties the reported and the observed value to the mechanism; anything unexplained is 'unclassified:...'."""
    k, n, obs, T, node, op = info["kind"], info["n"], info["observed"], info["type"], info["node"], info["op"]
    isbool = info.get("decl") in ("b", "ref:b") or info.get("cast") == "b" or "c:b" in info.get("def_nodes", ())
    if k == "eq" and isbool and obs in (0, 1) and n != obs:
        return "bool-conversion-not-normalised"
    if k == "eq" and node == "b" and op in ("||", "&&") and obs in (0, 1):
        c = info.get("rhs_const")
        dest = P.TYPES.get(info.get("dest") or "")
        if n not in (0, 1) or (dest and dest[1] < 32):
            return "logical-operator-yields-operand"
    if k == "eq" and node == "b" and op in CMPS and info.get("lhs_const", 0) < 0 and obs in (0, 1) and any(
            ct and ct[1] == 0 and ct[0] >= 4 for ct in info["child_types"]):
        return "comparison-negative-constant-on-left-of-unsigned-ignores-conversion"
    if k == "eq" and node == "b" and op in ("/", "%") and T and T[1] == 0 and T[0] >= 4 and (
            info.get("lhs_const", 0) < 0 or info.get("rhs_const", 0) < 0):
        return "negative-constant-operand-of-unsigned-division-not-converted"
    if k == "lt" and node == "b" and op == "%" and (info.get("rhs_const", 0) < 0 or n < 0):
        return "modulo-negative-divisor-range"
    if k == "eq" and T and conv(s64(n), T[0], T[1]) == obs:
        # the reported number is right before conversion to the expression's own type
        if node == "=" and op == "=":
            return "unreduced:assignment-expression-value"
        if node == "=":
            return "unreduced:compound-assignment-value"
        if node in ("pre", "post"):
            return "unreduced:incdec-expression-value"
        if node == "v" and ("cassign" in info.get("defs", ())):
            return "unreduced:variable-after-compound-assignment"
        if T == [4, 0] and ((node in ("b", "u") and op in ARITH + ("~",)) or node == "v"):
            return "unreduced:unsigned-int-arithmetic"
        if T == [4, 0] and node == "c":
            return "unreduced:cast-to-unsigned-int"
    if k == "eq" and T:
        dest = None
        if info.get("dest") in P.TYPES:      # (cppcheck converts to _Bool like to an 8-bit unsigned type)
            dest = [max(1, P.TYPES[info["dest"]][1] // 8), 1 if P.TYPES[info["dest"]][2] else 0]
        elif info.get("dest_type"):
            dest = info["dest_type"]
        if dest and dest != T and conv(obs, dest[0], dest[1]) == conv(s64(n), dest[0], dest[1]):
            return "operand-carries-value-converted-to-destination-type"
    if k in ("gt", "lt"):
        if node in ("b", "u") and op in ("+", "-", "*", "<<", "~") and T and T[1] == 0 and T[0] >= 4:
            return "range-ignores-unsigned-wraparound"
        if node == "v" and T and T[1] == 0 and T[0] >= 4 and set(info.get("defs", ())) & {"incdec", "cassign"}:
            return "range-ignores-unsigned-wraparound"
        if node == "u" and op == "~" and info["child_types"] and info["child_types"][0] and info["child_types"][0][0] < 4:
            return "range-bitnot-of-promoted-operand"
        if node == "v" and info.get("def_types") and any(dt != T for dt in info["def_types"]):
            return "range-ignores-conversion-on-store"
    if node == "v" and str(info.get("decl")).startswith("ref:") and k in ("eq", "sym-eq"):
        return "reference-alias-keeps-value-after-assignment-to-referent"
    if node == "call" and any(t not in ("si", "sl", "void") for t in info.get("callee_types", ())):
        return "call-ignores-parameter-or-return-conversion"
    if k == "sym-eq" and info.get("decl") == "b" and info.get("symvalue") is not None and obs == int(info["symvalue"] + n != 0):
        return "symbolic-relation-ignores-conversion-or-wraparound"
    if k.startswith("sym-") and T and info.get("symvalue") is not None:
        narrow_or_unsigned = T[1] == 0 or T[0] < 4
        st = info.get("sym_type")
        if k == "sym-eq" and (st != T or narrow_or_unsigned) and conv(info["symvalue"] + n, T[0], T[1]) == obs:
            return "symbolic-relation-ignores-conversion-or-wraparound"
        if k in ("sym-lt", "sym-gt") and narrow_or_unsigned:
            return "symbolic-relation-ignores-conversion-or-wraparound"
    u64 = [8, 0]
    if T == u64 or u64 in info["child_types"] or info.get("decl") == "ul" or info.get("sym_type") == u64 or u64 in info.get("def_types", ()) or u64 in info.get("def_child_types", ()):
        # values >= 2^63 do not fit cppcheck's signed 64-bit value type
        return "unsigned-long-long-evaluated-as-signed-64-bit"
    if k in ("eq", "ne", "gt", "lt") and node == "v" and T == [4, 1] and info.get("decl") == "si" and info.get("def_sources_reassigned"):
        return "symbolic-relation-survives-reassignment-of-its-source"
    if k in ("gt", "lt") and node == "v" and info.get("in_then_of_or_ternary"):
        return "ternary-then-branch-of-or-condition-assumes-both-operands"
    if k == "eq" and node == "b" and op in CMPS + ["-"] and len(info["child_types"]) == 2 and all(
            ct and (ct[1] == 0 or ct[0] < 4) for ct in info["child_types"]) and info.get("children_vars"):
        return "relation-between-variables-ignores-wraparound"
    return "unclassified:%s:%s:%s" % (k, node, op)


def subtree_has(r, root, oid):
    if root == oid:
        return True
    return any(subtree_has(r, c_, oid) for c_ in r.occs[root].children)


def work(args):
    """One batch in a worker process: returns (counters, violations (JSON-able), per-function summaries)."""
    fam, fns, lang = args
    b = P.Batch(fns, lang=lang, gcc_flags=(None if fam == "mem" else GCC_NOASAN))
    try:
        b.run_all(P.plan_symbolic)
    except (RuntimeError, OSError) as ex:
        return {"error": str(ex)[:2000], "fam": fam, "n": len(fns)}
    cnt = collections.Counter()
    viols, summ = [], []
    samples = []
    for r, _ in b.res:
        so = [] if len(samples) < 1 else None
        vs, c = P.judge_facts(b, r, sample_out=so)
        if so:
            samples += so
        cnt.update(c)
        cnt["executions"] += r.nvec
        cnt["clean_executions"] += r.clean
        cnt["functions"] += 1
        if r.crashed:
            cnt["functions_crashed"] += 1
        if r.clean == 0:
            cnt["functions_without_clean_execution"] += 1
        judged = c.get("judged", 0)
        if not judged:
            cnt["vacuous_functions"] += 1
        summ.append((judged, r.clean))
        if not vs:
            continue
        # root / derived: a violation is derived when an operand occurrence, or a definition of the variable it
        # reads, already carries a violated fact (transitively)
        vocc = set(v["occ"].id for v in vs)
        memo = {}

        def tainted(oid, depth=0):
            if oid in memo:
                return memo[oid]
            memo[oid] = False
            o = r.occs[oid]
            t = oid in vocc or any(tainted(c_) for c_ in o.children)
            if not t and o.node is not None and o.node[0] == "v" and o.kind == "rv":
                t = any(d[2] is not None and d[2] != oid and tainted(d[2]) for d in r.defs if d[0] == o.node[1])
            memo[oid] = t
            return t
        for v in vs:
            o = v["occ"]
            derived = any(tainted(c_) for c_ in o.children)
            if not derived and o.node[0] == "v":
                derived = any(d[2] is not None and tainted(d[2]) for d in r.defs if d[0] == o.node[1])
            if not derived and o.node[0] == "v":
                # facts inferred from a controlling condition: derived when an earlier condition (if / while / for / switch,
                # condition of ?:, left operand of && / ||) that mentions this variable contains an occurrence with a violated fact
                conds = list(r.cond_tops)
                for o2 in r.occs:
                    if o2.parent is not None and o2.kind == "rv":
                        par = r.occs[o2.parent]
                        if par.node is not None and (par.node[0] == "?" or (par.node[0] == "b" and par.node[1] in ("&&", "||"))) \
                                and par.children and par.children[0] == o2.id:
                            conds.append(o2.id)
                for cid in conds:
                    c_ = r.occs[cid]
                    if cid < o.id and o.node[1] in c_.vars and cid != o.id and tainted(cid) and not subtree_has(r, cid, o.id):
                        derived = True
                        break
            info = site_info(b, r, v)
            v.pop("occ")
            v.update({"expr": o.text, "fn": P.untup(r.fn), "plain": r.plain, "family": fam, "lang": lang,
                      "clean": r.clean, "nvec": r.nvec, "site": info, "derived": derived})
            if derived:
                cnt["violations_derived_from_another_violation"] += 1
                v["key"] = "derived"
            else:
                v["key"] = classify(info)
            viols.append(v)
    return {"cnt": dict(cnt), "viols": viols, "summ": summ, "t": b.t, "fam": fam, "samples": samples}


def replay(ctx, rep):
    a = rep["artefact"]
    f = P.tup(a["fn"])
    b = P.Batch([f], lang=a.get("lang", "c"), keep=True)
    b.run_all(P.plan_symbolic)
    r = b.res[0][0]
    print("---- program P ----")
    for i, l in enumerate(r.plain):
        print("%3d  %s" % (i + 1, l))
    print("---- recorded ----")
    print("fact %s at line %s col %s token '%s' expression `%s`: cppcheck says %s; observed %s for input %s" % (
        a["fact"], a["line"], a["col"], a["tok"], a["expr"], P.describe(a["kind"], a["n"], a.get("sym")), a["observed"], a["vec"]))
    print("---- now ----")
    vs, c = P.judge_facts(b, r)
    print("executions %d, sanitizer-clean %d" % (r.nvec, r.clean))
    for l, cc, st, facts in r.facts:
        o = P.pick_occ(r, l, cc, st)
        if o is not None and o.kind == "rv":
            print("  %d:%d `%s` facts=%s observed=%s" % (l, cc, o.text, [{k: x for k, x in f_.items() if not k.startswith("_") and k not in ("path", "indirect")} for f_ in facts],
                                                       sorted(set(x[0] for x in b.values(r, o.id)))[:12]))
    bad = 0
    for v in vs:
        print("VIOLATED: line %d col %d `%s` %s observed %s input %s" % (v["line"], v["col"], v["occ"].text, P.describe(v["kind"], v["n"], v.get("sym")),
                                                                     v["observed"], v["vec"]))
        bad = 1
    print("expected: no violated fact; observed: %s" % ("violated" if bad else "none violated"))
    return bad


def main(tier, replay_=None):
    ctx = Ctx("C01", tier, "model_checking", 600 if tier == "quick" else 1700, replay_)
    build.build("plain")
    if replay_:
        return replay(ctx, replay_)
    only = os.environ.get("C01_FAMILIES")
    limit = int(os.environ.get("C01_LIMIT", "0"))
    seen = set()
    totals = collections.Counter()
    famcount = collections.Counter()
    errors = []

    def batches():
        for name, gen, lang in FAMILIES:
            if only and name not in only.split(","):
                continue
            cur = []
            for f in gen(tier):
                key = sha([f["params"], f["body"], f["pre"], f["ret"], f.get("domains"), lang])
                if key in seen:
                    totals["duplicates_removed"] += 1
                    continue
                seen.add(key)
                famcount[name] += 1
                cur.append(f)
                if limit and famcount[name] >= limit:
                    break
                if len(cur) >= BATCH:
                    yield (name, cur, lang)
                    cur = []
            if cur:
                yield (name, cur, lang)

    t_by = collections.Counter()
    with ProcessPoolExecutor(max_workers=max(2, NCPU - 2)) as ex:
        pending = []
        it = batches()
        done_iter = False
        while True:
            while not done_iter and len(pending) < NCPU and not ctx.expired():
                try:
                    pending.append(ex.submit(work, next(it)))
                except StopIteration:
                    done_iter = True
            if not pending:
                break
            res = pending.pop(0).result()
            if "error" in res:
                errors.append(res)
                print("ENGINE-ERROR family=%s: %s" % (res["fam"], res["error"][:800]), flush=True)
                continue
            totals.update(res["cnt"])
            for k, v in res["t"].items():
                t_by[k] += v
            ctx.count(res["cnt"].get("clean_executions", 0))
            for sm in res.get("samples", []):
                if not any(x.get("family") == res["fam"] for x in ctx.samples):
                    sm["family"] = res["fam"]
                    ctx.sample(sm, maxn=10)
            for judged, clean in res["summ"]:
                if judged:
                    totals["nontrivial"] += 1
            for v in res["viols"]:
                key = v["key"]
                if key == "derived":
                    continue
                what = "%s: `%s` at line %d: cppcheck says %s, observed %s for input %s\n%s" % (
                    key, v["expr"], v["line"], P.describe(v["kind"], v["n"], v.get("sym")), v["observed"], v["vec"], "\n".join(v["plain"]))
                ctx.violation(key, what, v)
            if ctx.expired() and not done_iter:
                done_iter = True
    for k, v in sorted(totals.items()):
        ctx.cov[k] = v
    ctx.cov["distinct_nontrivial"] = totals["nontrivial"]
    ctx.cov["functions_per_family"] = dict(famcount)
    ctx.cov["seconds_by_stage_cpu"] = {k: round(v, 1) for k, v in t_by.items()}
    ctx.cov["engine_errors"] = len(errors)
    if errors:
        ctx.nviol += 1
        print("VIOLATION property=C01 replay=- (engine error, see above)")
    return ctx.finish(
        rule="all functions of grammar G1 families %s (tier %s), each executed on the full finite input domain; evaluations = "
             "sanitizer-clean executions; distinct_nontrivial = distinct functions (canonical AST) with >= 1 judged fact" % (
                 [n for n, _, _ in FAMILIES], tier))
