"""C04 -- definite runtime-error findings are true positives.

Same engine as C01 (vlib/progsem.py).  Programs: (a) arithmetic / index / pointer / uninitialised-read families in the
style of the C01 and C03 corpora (divisions, shifts, signed arithmetic near INT_MAX, constant and variable array
indices, guarded and unguarded dereferences, locals initialised on some paths only -- reads of such locals are checked
by an exact shadow-flag instrumentation), executed on the full input domain under ASan + UBSan(trap);
(b) grammar G4: straight-line resource programs (all sequences of <= k operations over two pointers) executed once
under ASan with exact allocation accounting.
Oracle: an error-severity, non-inconclusive finding with an id of the definite-UB set located at expression E is
REFUTED iff some execution evaluates E and that whole execution is sanitizer-clean; leak / double free / use after
free / mismatch findings of a straight-line function are refuted iff its single execution is clean and the accounting
shows no leak / misuse.  A refuted finding is a violation.
"""
import itertools, os, re, collections
from concurrent.futures import ProcessPoolExecutor
from vlib import build, run, progsem as P
from vlib.core import Ctx, sha, NCPU
from props import C01 as G1

V = lambda n: ("v", n)
N = lambda k: ("n", k)
B = lambda op, l, r: ("b", op, l, r)
ASG = lambda lv, e, op="=": ("=", op, lv, e)
A, Bp, X, Y = V("a"), V("b"), V("x"), V("y")
BATCH = 300

# ids whose undefined behaviour is visible to the execution oracle (UBSan trap, ASan, SIGSEGV/SIGFPE, shadow init flags).
# invalidFunctionArg, danglingLifetime, returnDanglingLifetime, invalidLifetime, pointerOutOfBounds, nullPointerArithmetic,
# uninitdata ... describe UB that no sanitizer reports reliably: not judged (counted as skipped).
UB_IDS = {"nullPointer", "ctunullpointer", "zerodiv", "arrayIndexOutOfBounds", "negativeIndex", "ctuArrayIndex", "uninitvar", "legacyUninitvar",
          "ctuuninitvar", "shiftTooManyBits", "shiftTooManyBitsSigned", "shiftNegative", "integerOverflow"}
UNINIT_IDS = {"uninitvar", "legacyUninitvar", "ctuuninitvar"}
LEAK_IDS = {"memleak", "resourceLeak"}
MISUSE_IDS = {"doubleFree", "deallocuse", "mismatchAllocDealloc", "deallocDealloc", "useClosedFile"}
# deallocret (`free(p); return p;`) uses the indeterminate VALUE of a dangling pointer without accessing the object: undefined
# by C11 6.2.4p2 but invisible to any sanitizer, so the execution oracle cannot refute it: not judged (counted)
# memleakOnRealloc is about the failure path of realloc, which no execution here takes: not judged (counted)


def fn(body, params=(("si", "a"), ("si", "b")), pre=(), ret="si", **kw):
    d = dict(name="f@", ret=ret, params=[tuple(p) for p in params], body=list(body), pre=list(pre))
    d.update(kw)
    return d


# ---- (a) value families -------------------------------------------------------------------------------------------------
UBOPS = ("/", "%", "<<", ">>", "+", "-", "*")


def fam_arith(tier):
    """C01 corpus restricted to operators that can be undefined (constant folding through typed locals, parameters)"""
    for f in G1.fam_fold(tier):
        e = f["body"][1][3]
        if e[0] == "b" and e[1] in UBOPS:
            yield f
    for f in G1.fam_param(tier):
        e = f["body"][0][3]
        if e[0] == "b" and e[1] in UBOPS:
            yield f
    ks = [0, 1, 31, 32, -1, 2 ** 31 - 1]
    for op in UBOPS:
        for k in ks:
            for c in G1.conds("quick"):
                # guarded and unguarded uses of a divisor / shift count / addend
                yield fn([("decl", "si", "x", N(k)), ("if", c, [("e", ASG(X, A))], None), ("ret", B(op, N(100), X))])
                yield fn([("decl", "si", "x", N(1)), ("if", c, [("ret", B(op, A, N(k)))], None), ("ret", X)])
                if tier != "quick":
                    yield fn([("decl", "si", "x", N(k)), ("if", c, [("ret", N(0))], None), ("ret", B(op, Bp, X))])
                    yield fn([("decl", "si", "x", A), ("if", c, [("e", ASG(X, N(k)))], None), ("ret", B(op, N(100), X))])


def fam_index(tier):
    ks = [-1, 0, 2, 3, 4] if tier == "quick" else [-2, -1, 0, 1, 2, 3, 4, 100]
    arr = ("declarr", "si", "r", 3, (N(1), N(2), N(3)))
    for k in ks:
        yield fn([arr, ("ret", ("[]", "r", N(k)))])
        yield fn([arr, ("e", ASG(("[]", "r", N(k)), A)), ("ret", ("[]", "r", N(0)))])
        yield fn([arr, ("decl", "si", "i", N(k)), ("ret", ("[]", "r", V("i")))])
        yield fn([arr, ("decl", "si", "i", N(k)), ("e", ("post", "++", V("i"))), ("ret", ("[]", "r", V("i")))])
        for c in G1.conds("quick"):
            yield fn([arr, ("decl", "si", "i", N(0)), ("if", c, [("e", ASG(V("i"), N(k)))], None), ("ret", ("[]", "r", V("i")))])
            yield fn([arr, ("if", c, [("ret", ("[]", "r", N(k)))], None), ("ret", N(0))])
            yield fn([arr, ("decl", "si", "i", N(k)), ("if", c, [("ret", N(0))], None), ("ret", ("[]", "r", V("i")))])
            if tier != "quick":
                yield fn([arr, ("decl", "si", "i", N(k)), ("if", c, [("e", ASG(V("i"), N(0)))], None), ("ret", ("[]", "r", V("i")))])
        for cmp_ in ("<", "<="):
            for lim in (2, 3, 4):
                yield fn([arr, ("decl", "si", "x", N(0)), ("for", ("decl", "si", "i", N(0)), B(cmp_, V("i"), N(lim)), ("post", "++", V("i")),
                                                         [("e", ASG(X, ("[]", "r", B("+", V("i"), N(k))), "+="))]), ("ret", X)])
        yield fn([arr, ("if", B("<", A, N(k)), [("ret", ("[]", "r", A))], None), ("ret", N(0))], domains={"a": [-2, -1, 0, 1, 2, 3, 4]})
        yield fn([arr, ("if", B(">=", A, N(k)), [("ret", ("[]", "r", A))], None), ("ret", N(0))], domains={"a": [-2, -1, 0, 1, 2, 3, 4]})
        yield fn([arr, ("if", B("&&", B(">=", A, N(0)), B("<", A, N(k))), [("ret", ("[]", "r", A))], None), ("ret", N(0))], domains={"a": [-2, -1, 0, 1, 2, 3, 4]})


def arr_decls(lang):
    """The ways an int array of 4 elements {1,2,3,4} (or 2x3) can be declared and named.
    -> (tag, pre items, post items, local statements, access name, writable, size)"""
    D = []
    if lang == "c":
        D.append(("local", [], [], [("raw", "int r[4] = {1, 2, 3, 4};")], "r", True, 4))
        D.append(("local-no-bound", [], [], [("raw", "int r[] = {1, 2, 3, 4};")], "r", True, 4))
        D.append(("static-local", [], [], [("raw", "static int r[4] = {1, 2, 3, 4};")], "r", False, 4))
        D.append(("global", [("raw", "int g@[4] = {1, 2, 3, 4};")], [], [], "g@", False, 4))
        D.append(("global-no-bound", [("raw", "const int g@[] = {1, 2, 3, 4};")], [], [], "g@", False, 4))
        D.append(("extern-no-bound-defined-after-use", [("raw", "extern int g@[];")], [("raw", "int g@[4] = {1, 2, 3, 4};")], [], "g@", False, 4))
        D.append(("extern-no-bound-defined-in-other-unit", [("raw", "extern const int g@[];", "extern const int g@[]; const int g@[4] = {1, 2, 3, 4};")], [], [], "g@", False, 4))
        D.append(("extern-bound-defined-in-other-unit", [("raw", "extern const int g@[4];", "extern const int g@[4]; const int g@[4] = {1, 2, 3, 4};")], [], [], "g@", False, 4))
        st = ("raw", "struct S@ { int n; int m[4]; };")
        D.append(("member-dot", [st], [], [("raw", "struct S@ s = {0, {1, 2, 3, 4}};")], "s.m", True, 4))
        D.append(("member-arrow", [st], [], [("raw", "struct S@ s = {0, {1, 2, 3, 4}};"), ("raw", "struct S@ *p = &s;")], "p->m", True, 4))
        D.append(("member-of-global", [st, ("raw", "static struct S@ gs@ = {0, {1, 2, 3, 4}};")], [], [], "gs@.m", False, 4))
        D.append(("nested-member", [st, ("raw", "struct O@ { struct S@ in; };")], [], [("raw", "struct O@ o = {{0, {1, 2, 3, 4}}};")], "o.in.m", True, 4))
        fl = ("raw", "struct F@ { int n; int m[]; };")
        D.append(("flexible-member-malloc", [fl], [], [("raw", "struct F@ *p = malloc(sizeof(struct F@) + 4 * sizeof(int));", "struct F@ *p = (struct F@ *)malloc(sizeof(struct F@) + 4 * sizeof(int));"),
                                                       ("raw", "if (!p) { return 0; }"), ("raw", "p->m[0] = 1; p->m[1] = 2; p->m[2] = 3; p->m[3] = 4;")], "p->m", "free", 4))
        D.append(("malloc-pointer", [], [], [("raw", "int *p = malloc(4 * sizeof(int));", "int *p = (int *)malloc(4 * sizeof(int));"), ("raw", "if (!p) { return 0; }"),
                                             ("raw", "p[0] = 1; p[1] = 2; p[2] = 3; p[3] = 4;")], "p", "free", 4))
        D.append(("array-of-arrays-row1", [("raw", "static int m@[2][4] = {{1, 2, 3, 4}, {5, 6, 7, 8}};")], [], [], "m@[1]", False, 4))
        D.append(("array-of-arrays-local", [], [], [("raw", "int m[2][4] = {{1, 2, 3, 4}, {5, 6, 7, 8}};")], "m[0]", True, 4))
        D.append(("pointer-to-local", [], [], [("raw", "int r[4] = {1, 2, 3, 4};"), ("raw", "int *p = r;")], "p", True, 4))
        D.append(("pointer-into-array", [], [], [("raw", "int r[6] = {0, 1, 2, 3, 4, 0};"), ("raw", "int *p = &r[1];")], "p", True, 4))
    else:
        D.append(("namespace-extern-no-bound", [("raw", "namespace cfg@ { extern const int table[]; }",
                                                 "namespace cfg@ { extern const int table[]; } const int cfg@::table[4] = {1, 2, 3, 4};")], [], [], "cfg@::table", False, 4))
        D.append(("namespace-extern-no-bound-defined-after-use", [("raw", "namespace cfg@ { extern const int table[]; }")],
                  [("raw", "const int cfg@::table[4] = {1, 2, 3, 4};")], [], "cfg@::table", False, 4))
        D.append(("namespace-bound", [("raw", "namespace cfg@ { const int table[4] = {1, 2, 3, 4}; }")], [], [], "cfg@::table", False, 4))
        D.append(("nested-namespace", [("raw", "namespace a@ { namespace b { const int t[] = {1, 2, 3, 4}; } }")], [], [], "a@::b::t", False, 4))
        D.append(("static-member-no-bound", [("raw", "struct N@ { static const int list[]; };", "struct N@ { static const int list[]; }; const int N@::list[4] = {1, 2, 3, 4};")],
                  [], [], "N@::list", False, 4))
        D.append(("static-member-no-bound-defined-after-use", [("raw", "struct N@ { static const int list[]; };")], [("raw", "const int N@::list[4] = {1, 2, 3, 4};")],
                  [], "N@::list", False, 4))
        D.append(("static-member-bound", [("raw", "struct N@ { static int list[4]; };"), ("raw", "int N@::list[4] = {1, 2, 3, 4};")], [], [], "N@::list", False, 4))
        D.append(("member-dot-cpp", [("raw", "struct S@ { int n; int m[4]; };")], [], [("raw", "S@ s = {0, {1, 2, 3, 4}};")], "s.m", True, 4))
        D.append(("member-arrow-cpp", [("raw", "struct S@ { int n; int m[4]; };")], [], [("raw", "S@ s = {0, {1, 2, 3, 4}};"), ("raw", "S@ *p = &s;")], "p->m", True, 4))
        D.append(("std-array-data", [], [], [("raw", "int r[4] = {1, 2, 3, 4};"), ("raw", "int (&q)[4] = r;")], "q", True, 4))
        D.append(("new-array", [], [], [("raw", "int *p = new int[4];"), ("raw", "p[0] = 1; p[1] = 2; p[2] = 3; p[3] = 4;")], "p", "delete[]", 4))
    return D


def fam_arrdecl(tier, lang="c"):
    """in-bounds accesses (constant, parameter, loop, guarded) through every declaration / naming form: executions are
    sanitizer-clean by construction, so any error-severity index finding here is refuted"""
    for tag, pre, post, loc, name, wr, n in arr_decls(lang):
        dom = {"a": list(range(0, n))}
        acc = lambda i: ("[]", name, i)
        rel = [("raw", "free(p);")] if wr == "free" else ([("raw", "delete[] p;")] if wr == "delete[]" else [])
        ret = lambda e: [("decl", "si", "y", e)] + rel + [("ret", Y)]
        mk = lambda body, **kw: fn(loc + body, pre=pre, post=post, shape=tag, **kw)
        for k in (0, n - 1):
            yield mk(ret(acc(N(k))))
            if wr:
                yield mk([("e", ASG(acc(N(k)), Bp))] + ret(acc(N(0))))
        yield mk(ret(acc(A)), domains=dom)
        yield mk(ret(acc(B("-", A, N(1)))), domains={"a": list(range(1, n + 1))})
        yield mk(ret(B("+", acc(A), acc(B("-", N(n - 1), A)))), domains=dom)
        if wr:
            yield mk([("e", ASG(acc(A), Bp))] + ret(acc(N(n - 1))), domains=dom)
        yield mk([("decl", "si", "x", N(0)), ("for", ("decl", "si", "i", N(0)), B("<", V("i"), N(n)), ("post", "++", V("i")), [("e", ASG(X, acc(V("i")), "+="))])] + ret(X))
        yield mk([("decl", "si", "x", N(0)), ("for", ("decl", "si", "i", N(n - 1)), B(">=", V("i"), N(0)), ("post", "--", V("i")), [("e", ASG(X, acc(V("i")), "+="))])] + ret(X))
        yield mk([("decl", "si", "x", N(0)), ("if", B("&&", B(">=", A, N(0)), B("<", A, N(n))), [("e", ASG(X, acc(A)))], None)] + ret(X), domains={"a": [-2, -1, 0, 1, n - 1, n, n + 1]})
        yield mk([("decl", "si", "x", N(0)), ("if", B("||", B("<", A, N(0)), B(">=", A, N(n))), rel + [("ret", N(0))], None), ("e", ASG(X, acc(A)))] + ret(X),
                 domains={"a": [-2, -1, 0, 1, n - 1, n, n + 1]})
        yield mk([("decl", "si", "i", N(n - 1)), ("if", B("==", A, N(0)), [("e", ASG(V("i"), N(0)))], None)] + ret(acc(V("i"))), domains={"a": [0, 1]})
        if tier != "quick":
            for k in range(1, n - 1):
                yield mk(ret(acc(N(k))))
            yield mk(ret(acc(B("&", A, N(n - 1)))))
            yield mk(ret(acc(B("%", ("c", "ui", A), N(n)))))
            yield mk([("decl", "si", "i", N(0)), ("while", B("<", V("i"), N(n - 1)), [("e", ("post", "++", V("i")))])] + ret(acc(V("i"))))
    # array parameters
    if lang == "c":
        for ptype in ("si[]", "si[4]", "int *"):
            h = ("func", dict(name="h@", ret="si", params=[(ptype, "v"), ("si", "i")], vars={"v": "arr"}, body=[("ret", ("[]", "v", V("i")))]))
            yield fn([("raw", "int r[4] = {1, 2, 3, 4};"), ("ret", ("call", "h@", (("raw", "r", "ptr"), A), "int"))], pre=[h], domains={"a": [0, 1, 2, 3]}, shape="array-parameter")
            yield fn([("raw", "int r[4] = {1, 2, 3, 4};"), ("ret", ("call", "h@", (("raw", "r", "ptr"), N(3)), "int"))], pre=[h], shape="array-parameter")
            h2 = ("func", dict(name="h@", ret="si", params=[(ptype, "v")], vars={"v": "arr"}, body=[("ret", B("+", ("[]", "v", N(0)), ("[]", "v", N(3))))]))
            yield fn([("raw", "int r[4] = {1, 2, 3, 4};"), ("ret", ("call", "h@", (("raw", "r", "ptr"),), "int"))], pre=[h2], shape="array-parameter")


def fam_null(tier):
    pz = ("declptr", "si", "p", N(0))
    px = ("declptr", "si", "p", ("&", X))
    dx = ("decl", "si", "x", N(5))
    for c in G1.conds("quick"):
        yield fn([dx, pz, ("if", c, [("e", ASG(V("p"), ("&", X)))], None), ("ret", ("*", V("p")))])
        yield fn([dx, px, ("if", c, [("e", ASG(V("p"), N(0)))], None), ("ret", ("*", V("p")))])
        yield fn([dx, pz, ("if", c, [("ret", N(0))], None), ("ret", ("*", V("p")))])
        yield fn([dx, pz, ("if", c, [("ret", ("*", V("p")))], None), ("ret", N(0))])
        yield fn([dx, pz, ("if", c, [("e", ASG(V("p"), ("&", X)))], None), ("if", V("p"), [("ret", ("*", V("p")))], None), ("ret", N(0))])
        yield fn([dx, pz, ("if", c, [("e", ASG(V("p"), ("&", X)))], None), ("if", ("u", "!", V("p")), [("ret", ("*", V("p")))], None), ("ret", N(0))])
        yield fn([dx, pz, ("if", c, [("e", ASG(V("p"), ("&", X)))], None), ("e", ASG(("*", V("p")), N(1))), ("ret", X)])
        yield fn([dx, px, ("if", c, [("e", ASG(V("p"), N(0)))], [("e", ASG(V("p"), ("&", X)))]), ("ret", ("*", V("p")))])
    yield fn([dx, pz, ("ret", ("*", V("p")))])
    yield fn([dx, pz, ("e", ASG(("*", V("p")), N(1))), ("ret", X)])
    yield fn([dx, px, ("e", ASG(V("p"), N(0))), ("ret", ("*", V("p")))])
    yield fn([dx, pz, ("e", ASG(V("p"), ("&", X))), ("ret", ("*", V("p")))])


def fam_uninit(tier):
    """locals initialised on some paths only; reads are checked by shadow init flags (exact for this grammar)"""
    dx = ("decl", "si", "x", None)
    un = {"uninit": ["x"]}
    for c in G1.conds("quick"):
        for asg in (ASG(X, N(1)), ASG(X, A)):
            yield fn([dx, ("if", c, [("e", asg)], None), ("ret", X)], **un)
            yield fn([dx, ("if", c, [("e", asg)], [("e", ASG(X, N(2)))]), ("ret", X)], **un)
            yield fn([dx, ("if", c, [("e", asg)], [("ret", N(0))]), ("ret", X)], **un)
            yield fn([dx, ("if", c, [("ret", X)], None), ("e", asg), ("ret", X)], **un)
            yield fn([dx, ("if", c, [("e", asg)], None), ("if", c, [("ret", X)], None), ("ret", N(0))], **un)
            yield fn([dx, ("if", c, [("e", asg)], None), ("e", ("post", "++", X)), ("ret", X)], **un)
            yield fn([dx, ("if", c, [("e", asg)], None), ("decl", "si", "y", B("+", X, N(1))), ("ret", Y)], **un)
        yield fn([dx, ("while", c, [("e", ASG(X, N(1))), ("break",)]), ("ret", X)], **un)
        yield fn([dx, ("for", ("decl", "si", "i", N(0)), B("<", V("i"), A), ("post", "++", V("i")), [("e", ASG(X, V("i")))]), ("ret", X)],
                 domains={"a": [-1, 0, 1, 2]}, **un)
        yield fn([dx, ("switch", A, ((0, [("e", ASG(X, N(1)))], True), (1, [("e", ASG(X, N(2)))], True))), ("ret", X)], **un)
        yield fn([dx, ("switch", A, ((0, [("e", ASG(X, N(1)))], True), (None, [("e", ASG(X, N(2)))], True))), ("ret", X)], **un)
    yield fn([dx, ("ret", X)], **un)
    yield fn([dx, ("e", ("post", "++", X)), ("ret", N(0))], **un)
    yield fn([dx, ("e", ASG(X, N(1), "+=")), ("ret", N(0))], **un)
    yield fn([dx, ("e", ASG(X, N(1))), ("ret", X)], **un)
    yield fn([dx, ("decl", "si", "y", X), ("ret", Y)], **un)


# ---- (b) G4: straight-line resource programs ---------------------------------------------------------------------------------
RES_PRE_C = r'''
#define VRES 1
'''
RES_DEFS = r'''
static void *vr_malloc_(size_t n) { return vr_add((malloc)(n), 1); }
static void *vr_calloc_(size_t a, size_t b) { return vr_add((calloc)(a, b), 1); }
static void *vr_realloc_(void *p, size_t n)
{
    if (p) {
        struct vres *r = vr_find(p);
        if (!r) { vr_bad |= 8; return 0; }
        if (!r->live) { vr_bad |= 1; return 0; }
        if (r->kind != 1) { vr_bad |= 2; r->live = 0; return 0; }
        r->live = 0;
    }
    return vr_add((realloc)(p, n), 1);
}
static void vr_free_(void *p) { if (vr_release(p, 1)) (free)(p); }
static FILE *vr_fopen_(void) { return (FILE *)vr_add((fopen)("/dev/null", "w"), 2); }
static int vr_fclose_(FILE *f) { if (!f) { vr_bad |= 16; return -1; } if (vr_release(f, 2)) return (fclose)(f); return -1; }
#define malloc(n) vr_malloc_(n)
#define calloc(a, b) vr_calloc_(a, b)
#define realloc(p, n) vr_realloc_(p, n)
#define free(p) vr_free_(p)
#define fopen(a, b) vr_fopen_()
#define fclose(f) vr_fclose_(f)
#define VDEAD(p) (vr_isdead(p) ? (vr_bad |= 4, 1) : 0)
#ifdef __cplusplus
static int *vr_new_(void) { return (int *)vr_add(new int, 3); }
static int *vr_newa_(void) { return (int *)vr_add(new int[2], 4); }
static void vr_delete_(int *p) { if (vr_release(p, 3)) delete p; }
static void vr_deletea_(int *p) { if (vr_release(p, 4)) delete[] p; }
#endif
'''


def g4_ops(kind, lang):
    """(tag, plain statement, probed statement) over pointers p, q of one resource kind"""
    ops = []
    for v, w in (("p", "q"), ("q", "p")):
        if kind == "mem":
            ops += [("%s=malloc" % v, "%s = malloc(4);" % v, "%s = (int *)malloc(4);" % v),
                    ("free(%s)" % v, "free(%s);" % v, None),
                    ("*%s=1" % v, "*%s = 1;" % v, "if (!VDEAD(%s)) *%s = 1;" % (v, v)),
                    ("use(%s)" % v, "use@(%s);" % v, "if (!VDEAD(%s)) use@(%s);" % (v, v)),
                    ("%s=%s" % (v, w), "%s = %s;" % (v, w), None),
                    ("%s=0" % v, "%s = 0;" % v, None)]
            if v == "p":
                ops += [("p=calloc", "p = calloc(1, 4);", "p = (int *)calloc(1, 4);"),
                        ("p=realloc", "p = realloc(p, 8);", "p = (int *)realloc(p, 8);"),
                        ("q=realloc(p)", "q = realloc(p, 8);", "q = (int *)realloc(p, 8);")]
            if lang == "cpp":
                ops += [("%s=new" % v, "%s = new int;" % v, "%s = vr_new_();" % v),
                        ("delete %s" % v, "delete %s;" % v, "vr_delete_(%s);" % v)]
                if v == "p":
                    ops += [("p=new[]", "p = new int[2];", "p = vr_newa_();"),
                            ("delete[] p", "delete[] p;", "vr_deletea_(p);")]
        else:
            ops += [("%s=fopen" % v, "%s = fopen(\"/dev/null\", \"w\");" % v, None),
                    ("fclose(%s)" % v, "fclose(%s);" % v, None),
                    ("use(%s)" % v, "fputc(120, %s);" % v, "if (!VDEAD(%s)) fputc(120, %s);" % (v, v)),
                    ("%s=%s" % (v, w), "%s = %s;" % (v, w), None),
                    ("%s=0" % v, "%s = 0;" % v, None)]
    return ops


def fam_g4(tier, lang="c"):
    kmax = 3 if tier == "quick" else 4
    for kind in (("mem", "file") if lang == "c" else ("mem",)):
        T = "int *" if kind == "mem" else "FILE *"
        ops = g4_ops(kind, lang)
        if tier == "quick" and lang == "cpp":
            ops = [o for o in ops if not o[0].startswith(("q=malloc", "p=calloc", "p=realloc", "q=realloc", "use(q)", "*q"))]
        pre = [("raw", "static int sink@;"), ("raw", "static void use@(int *v) { sink@ = *v; }")] if kind == "mem" else []
        for k in range(1, kmax + 1):
            for seq in itertools.product(ops, repeat=k):
                tags = [o[0] for o in seq]
                # canonical pruning: the first operation must create something in p; q must not be used before it is set
                if not tags[0].startswith("p=") or tags[0] in ("p=q", "p=0", "p=realloc"):
                    continue
                qset, ok = False, True
                for t in tags:
                    if t.startswith("q="):
                        qset = True
                    elif not qset and (t in ("free(q)", "*q=1", "use(q)", "delete q", "fclose(q)") or t.endswith("=q")):
                        ok = False          # q is still the initial null pointer: nothing new compared with p = 0 programs
                        break
                if not ok:
                    continue
                for ret in ("p", "q", "0"):
                    if ret == "q" and not qset:
                        continue
                    body = [("raw", "%sp = 0;" % T), ("raw", "%sq = 0;" % T)]
                    for o in seq:
                        body.append(("rawh", o[1], o[2] or o[1]))
                    body.append(("rawh", "return %s;" % ret))
                    yield dict(name="f@", ret=T.strip(), retcls="ptr", params=[], body=body, pre=list(pre), g4=tags + ["return " + ret], kind=kind)


# (arith, the largest family, is enumerated last: a deadline cuts its tail only)
FAMILIES = [("index", fam_index, "c"), ("arrdecl-c", lambda t: fam_arrdecl(t, "c"), "c"),
            ("arrdecl-cpp", lambda t: fam_arrdecl(t, "cpp"), "cpp"), ("null", fam_null, "c"), ("uninit", fam_uninit, "c"),
            ("g4-c", lambda t: fam_g4(t, "c"), "c"), ("g4-cpp", lambda t: fam_g4(t, "cpp"), "cpp"), ("arith", fam_arith, "c")]


# ---- oracle -----------------------------------------------------------------------------------------------------------------
def judge(b, r, fam, samples=None):
    cnt = collections.Counter()
    viols = []
    g4 = fam.startswith("g4")
    c01 = None
    runs = r.res.get("runs") if isinstance(r.res, dict) else None
    for f in r.findings:
        fid = f["id"]
        if f["severity"] != "error":
            cnt["finding_not_error_severity"] += 1
            continue
        if f["inconclusive"]:
            cnt["finding_inconclusive"] += 1
            continue
        cnt["error_finding:" + fid] += 1
        loc = f["locs"][0]
        line, col = loc[1], loc[2]
        if fid in LEAK_IDS or fid in MISUSE_IDS:
            if not g4:
                cnt["skipped_resource_finding_outside_g4:" + fid] += 1
                continue
            if not runs:
                cnt["skipped_no_execution"] += 1
                continue
            e = runs[0]
            clean = e["ret"] == 1 and e["ub"] == 0 and e["bad"] == 0
            cnt["judged"] += 1
            cnt["judged:" + fid] += 1
            if samples is not None:
                samples.append({"program": r.plain, "finding": "%s: %s" % (fid, f["msg"]), "execution": e,
                                "verdict": "confirmed" if not (clean and (fid not in LEAK_IDS or not (e["leak"] & (2 if fid == "resourceLeak" else 13)))) else "see violations"})
            if fid in LEAK_IDS:
                want = 1 if fid == "memleak" else 2        # leak bit: malloc-family/new (1|4|8) or FILE (2)
                leaked = bool(e["leak"] & (2 if fid == "resourceLeak" else (1 | 4 | 8)))
                if clean and not leaked:
                    viols.append(mk(f, r, line, col, "function returns, no sanitizer event, allocation accounting shows nothing leaked", e))
            else:
                h = r.byline.get(line)
                reached = h is not None and bool(b.values(r, h.id))
                if clean and reached:
                    viols.append(mk(f, r, line, col, "statement executed, whole execution clean (no ASan event, no double free / mismatch / use of a dead allocation)", e))
            continue
        if fid not in UB_IDS:
            cnt["skipped_error_id_outside_definite_ub_set:" + fid] += 1
            continue
        if r.crashed:
            cnt["skipped_function_crashed"] += 1
            continue
        occs = r.bypos.get((line, col)) or []
        o = None
        for x in occs:
            if x.kind in ("rv", "ptr"):
                o = x
        h = r.byline.get(line)
        hit = None
        if o is not None:
            hit = b.values(r, o.id)
        else:
            cand = [x for x in occs if x.kind in ("lv", "arr", "lit", "addr", "struct", "member")]
            if cand and h is not None and P.unconditional(r, cand[0]):
                o = cand[0]
                hit = b.values(r, h.id)
            elif g4 and h is not None:
                o = h
                hit = b.values(r, h.id)
        if o is None and fid in ("arrayIndexOutOfBounds", "negativeIndex", "ctuArrayIndex", "arrayIndexOutOfBoundsCond"):
            # located at a token of a qualified / member name: take the (single) subscript expression of that line
            subs = [x for x in r.occs if x.line == line and x.node is not None and x.node[0] == "[]" and x.kind in ("rv", "lv")]
            if len(subs) == 1:
                o = subs[0]
                if o.kind == "rv":
                    hit = b.values(r, o.id)
                elif h is not None and P.unconditional(r, o):
                    hit = b.values(r, h.id)
                else:
                    o = None
        if o is None:
            cnt["skipped_location_not_mapped:" + fid] += 1
            continue
        if fid in UNINIT_IDS and not (o.node is not None and o.node[0] == "v" and o.node[1] in (r.fn.get("uninit") or ())):
            cnt["skipped_uninit_read_without_shadow_flag:" + fid] += 1      # only instrumented scalar locals are decidable
            continue
        # is the blamed value definite (Known in the dump) at the operands the finding is about?
        if o.kind == "stmt":
            definite = True             # straight-line G4 statement: executed exactly once
            sub = [o.id]
        else:
            kids = [r.occs[c] for c in o.children]
            if fid in ("zerodiv", "shiftTooManyBits", "shiftTooManyBitsSigned", "shiftNegative") and len(kids) == 2:
                rel = [kids[1]]
            elif fid in ("nullPointer", "uninitvar", "legacyUninitvar"):
                rel = [o]
            else:
                rel = kids or [o]
            definite = all(has_known(r, x) for x in rel)
            sub = [o.id] + descendants(r, o)
        dirty = any(i in r.dirty for i in sub) or (h is not None and h.id in r.dirty)
        cnt["judged"] += 1
        cnt["judged:" + fid] += 1
        cnt["judged_definite_value" if definite else "judged_possible_value"] += 1
        if samples is not None:
            samples.append({"program": r.plain, "finding": "%s: %s" % (fid, f["msg"]), "expression": o.text, "blamed_value_known_in_dump": definite,
                            "evaluated_in_clean_execution": bool(hit), "reached_by_execution_with_sanitizer_event": dirty, "executions": r.nvec,
                            "clean_executions": r.clean})
        if hit and (definite or not dirty):
            why = "expression `%s` evaluated in a sanitizer-clean execution, input %s; " % (o.text, b.vector(r, hit[0][2]))
            why += ("the blamed value is Known in the dump" if definite else
                    "the blamed value is only Possible and NO execution over the complete input domain shows a sanitizer event after reaching it")
            v = mk(f, r, line, col, why, {"vec": b.vector(r, hit[0][2]), "value": hit[0][0]})
            v["definite"] = definite
            v["role"] = list(o.role) if getattr(o, "role", None) else None
            # does the finding rest on a Known operand value that this very execution refutes (a C01 value-flow defect)?
            if definite and o.kind != "stmt":
                if c01 is None:
                    c01 = {}
                    for x in P.judge_facts(b, r)[0]:
                        c01.setdefault(x["occ"].id, x)
                for x in rel + [r.occs[i] for i in sub[1:]]:
                    if x.id in c01:
                        w = dict(c01[x.id])
                        v["operand_defect"] = G1.classify(G1.site_info(b, r, w))
                        v["operand"] = {"expr": x.text, "cppcheck_says": P.describe(w["kind"], w["n"], w.get("sym")), "observed": w["observed"]}
                        break
            v["op"] = o.node[1] if (o.node is not None and o.node[0] in ("b", "u")) else None
            viols.append(v)
    return viols, cnt


def has_known(r, o):
    if o.kind == "lit":
        return True
    for l, c, st, vs in r.facts:
        if (l, c) == (o.line, o.col) and st == o.tok:
            for v in vs:
                if "known" in v and v.get("indirect", "0") == "0" and ("intvalue" in v or "uninit" in v):
                    return True
    return False


def descendants(r, o):
    out = []
    for c in o.children:
        out.append(c)
        out += descendants(r, r.occs[c])
    return out


def mk(f, r, line, col, why, extra):
    return {"id": f["id"], "msg": f["msg"], "line": line - r.line0 + 1, "col": col, "why": why, "observed": extra,
            "src": r.plain[line - r.line0] if 0 <= line - r.line0 < len(r.plain) else ""}


def make_batch(fam, fns, lang):
    g4 = fam.startswith("g4")
    if g4:
        return P.Batch(fns, lang=lang, want_xml=True, predefs=RES_PRE_C, extra_defs=RES_DEFS, stmt_hits=True, cc_args=["--library=posix"] * 0)
    return P.Batch(fns, lang=lang, want_xml=True, stmt_hits=True)


def work(args):
    fam, fns, lang = args
    b = make_batch(fam, fns, lang)
    try:
        b.run_all()
    except (RuntimeError, OSError) as ex:
        return {"error": str(ex)[:3000], "fam": fam}
    cnt = collections.Counter()
    viols, summ = [], []
    samples = {}
    for r, _ in b.res:
        so = []
        vs, c = judge(b, r, fam, so)
        for sm in so:
            samples.setdefault(sm["finding"].split(":")[0], sm)
        cnt.update(c)
        cnt["functions"] += 1
        cnt["executions"] += r.nvec
        cnt["clean_executions"] += r.clean
        if not c.get("judged"):
            cnt["vacuous_functions"] += 1
        summ.append(c.get("judged", 0))
        for v in vs:
            v.update({"fn": P.untup(r.fn), "plain": r.plain, "family": fam, "lang": lang})
            v["key"] = classify(v)
            viols.append(v)
    return {"cnt": dict(cnt), "viols": viols, "summ": summ, "t": b.t, "fam": fam, "samples": list(samples.values())}


UNSIGNED = ("uc", "us", "ui", "ul", "b")


def classify(v):
    """Class key of a refuted finding; listed classes (known_findings.json) come with an explanation check."""
    od = v.get("operand_defect")
    if od and not od.startswith("unclassified"):
        # the error finding is the consequence of a wrong Known value already recorded as a C01 class
        return "finding-rests-on-wrong-known-operand-value:" + od
    if v["id"] == "integerOverflow" and v.get("definite") and v.get("role") and v["role"][0] == "init" and v["role"][1] in UNSIGNED:
        return "integerOverflow-on-initialiser-converted-to-unsigned-destination"
    if v["id"] == "shiftTooManyBitsSigned" and v.get("op") == ">>":
        return "shiftTooManyBitsSigned-on-right-shift"
    if v["id"] == "shiftTooManyBitsSigned" and v.get("definite") and isinstance(v["observed"], dict) and v["observed"].get("value") == 0:
        return "shiftTooManyBitsSigned-left-operand-zero"
    return "unclassified:%s:%s:%s" % (v["family"], v["id"], "definite" if v.get("definite") else "possible")


def replay(rep):
    a = rep["artefact"]
    f = P.tup(a["fn"])
    b = make_batch(a["family"], [f], a.get("lang", "c"))
    b.run_all()
    r = b.res[0][0]
    print("---- program P ----")
    for i, l in enumerate(r.plain):
        print("%3d  %s" % (i + 1, l))
    print("---- recorded ----")
    print("%s at %d:%d (%s): refuted because %s" % (a["id"], a["line"], a["col"], a["msg"], a["why"]))
    print("---- now ----")
    for f_ in r.findings:
        print("  finding:", run.fshort(f_))
    if isinstance(r.res, dict):
        print("  execution:", r.res.get("runs"))
    print("  executions %d, sanitizer-clean %d" % (r.nvec, r.clean))
    vs, c = judge(b, r, a["family"])
    for v in vs:
        print("REFUTED: %s at %d:%d: %s" % (v["id"], v["line"], v["col"], v["why"]))
    print("expected: no error-severity definite finding is refuted; observed: %s" % ("refuted" if vs else "none refuted"))
    return 1 if vs else 0


def main(tier, replay_=None):
    ctx = Ctx("C04", tier, "model_checking", 600 if tier == "quick" else 1700, replay_)
    build.build("plain")
    if replay_:
        return replay(replay_)
    only = os.environ.get("C04_FAMILIES")
    limit = int(os.environ.get("C04_LIMIT", "0"))
    seen = set()
    totals = collections.Counter()
    famcount = collections.Counter()
    errors = []

    def batches():
        for name, gen, lang in FAMILIES:
            if only and name not in only.split(","):
                continue
            cur = []
            for f in gen(tier):
                key = sha([f["params"], f["body"], f["pre"], f.get("post"), f.get("domains"), lang])
                if key in seen:
                    totals["duplicates_removed"] += 1
                    continue
                seen.add(key)
                famcount[name] += 1
                cur.append(f)
                if limit and famcount[name] >= limit:
                    break
                if len(cur) >= BATCH:
                    yield (name, cur, lang)
                    cur = []
            if cur:
                yield (name, cur, lang)

    with ProcessPoolExecutor(max_workers=max(2, NCPU - 2)) as ex:
        pending, it, done_iter = [], batches(), False
        while True:
            while not done_iter and len(pending) < NCPU and not ctx.expired():
                try:
                    pending.append(ex.submit(work, next(it)))
                except StopIteration:
                    done_iter = True
            if not pending:
                break
            res = pending.pop(0).result()
            if "error" in res:
                errors.append(res)
                print("ENGINE-ERROR family=%s: %s" % (res["fam"], res["error"][:1500]), flush=True)
                continue
            totals.update(res["cnt"])
            ctx.count(res["cnt"].get("executions", 0))
            totals["nontrivial"] += sum(1 for j in res["summ"] if j)
            for sm in res.get("samples", []):
                fid_ = sm["finding"].split(":")[0]
                if not any(x["finding"].split(":")[0] == fid_ for x in ctx.samples):
                    ctx.sample(sm, maxn=16)
            for v in res["viols"]:
                what = "%s: %s at %d:%d `%s` (%s) refuted: %s\n%s" % (v["key"], v["id"], v["line"], v["col"], v["src"].strip(), v["msg"], v["why"],
                                                                    "\n".join(v["plain"]))
                ctx.violation(v["key"], what, v)
            if ctx.expired() and not done_iter:
                done_iter = True
    for k, v in sorted(totals.items()):
        ctx.cov[k] = v
    ctx.cov["distinct_nontrivial"] = totals["nontrivial"]
    ctx.cov["functions_per_family"] = dict(famcount)
    ctx.cov["engine_errors"] = len(errors)
    if errors:
        ctx.nviol += 1
        print("VIOLATION property=C04 replay=- (engine error, see above)")
    return ctx.finish(
        rule="families %s: arithmetic/index/null/uninit functions on the full input domain; G4 = all sequences of <= %d operations over two "
             "pointers (C: malloc/calloc/realloc/free/alias/deref/use/null, fopen/fclose/fputc; C++: + new/new[]/delete/delete[]) x return "
             "p|q|0, one execution each; evaluations = executions; distinct_nontrivial = functions with >= 1 judged error-severity finding" % (
                 [n for n, _, _ in FAMILIES], 3 if tier == "quick" else 4))
