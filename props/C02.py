"""C02 -- container-size facts hold in every UB-free execution.

Same engine as C01 (vlib/progsem.py) in C++: all functions of grammar G2(k) -- one or two standard containers v, w of
one type, a construction form for each, then every sequence of <= k operations (push/emplace/insert, guarded
pop/erase, resize, clear, assign, swap, copy, move, pass by reference to a pushing function, size-dependent branches,
small loops) -- analysed by one `cppcheck --dump` per batch and executed (g++, UBSan trap mode, libstdc++ assertions)
on every input vector n in {0..3} x t in {0,1}.  Every occurrence of a container variable is probed with its size();
every Known / Impossible container-size fact on such an occurrence must hold at every evaluation.
"""
import itertools, os, collections
from concurrent.futures import ProcessPoolExecutor
from vlib import build, run, progsem as P
from vlib.core import Ctx, sha, NCPU

V = lambda n: ("v", n)
N = lambda k: ("n", k)
B = lambda op, l, r: ("b", op, l, r)
M = lambda obj, meth, args=(), cls="void": ("m", V(obj), meth, tuple(args), cls)
BATCH = 150
INCLUDES = "#include <vector>\n#include <string>\n#include <deque>\n#include <list>\n#include <set>\n#include <array>\n#include <utility>\n" \
           "template <class T> static inline T &vtrc(int id, T &c) { vtrace(id, (long long)c.size(), 8, 0); return c; }\n#define TRC(id, e) vtrc(id, (e))"
GXX_FLAGS = ["-O0", "-w", "-std=c++17", "-D_GLIBCXX_ASSERTIONS", "-fsanitize=undefined", "-fsanitize-undefined-trap-on-error",
             "-fno-omit-frame-pointer", "-I" + P.RT_DIR]

CONT = {
    "vector": dict(t="std::vector<int>", el=lambda k: N(k), seq=True, front=False, resize=True),
    "string": dict(t="std::string", el=lambda k: ("raw", "'%s'" % "abcdefgh"[k % 8], "int"), seq=True, front=False, resize=True),
    "deque": dict(t="std::deque<int>", el=lambda k: N(k), seq=True, front=True, resize=True),
    "list": dict(t="std::list<int>", el=lambda k: N(k), seq=True, front=True, resize=True),
    "set": dict(t="std::set<int>", el=lambda k: N(k), seq=False, front=False, resize=False),
    "array": dict(t="std::array<int, 3>", el=lambda k: N(k), seq=False, front=False, resize=False, fixed=True),
}


def etext(c, k):
    e = CONT[c]["el"](k)
    return e[1] if e[0] == "raw" else str(e[1])


def constructs(c, name, other=None):
    """declaration forms for container `name`"""
    T = CONT[c]["t"]
    out = [("default", "%s %s;" % (T, name))]
    if CONT[c].get("fixed"):
        out.append(("init3", "%s %s = {1, 2, 3};" % (T, name)))
        if other:
            out.append(("copy", "%s %s = %s;" % (T, name, other)))
        return out
    if c == "string":
        out.append(("literal", '%s %s = "ab";' % (T, name)))
        out.append(("fill", "%s %s(2, 'x');" % (T, name)))
        out.append(("fill-n", "%s %s(n, 'x');" % (T, name)))
    elif c == "set":
        out.append(("init2", "%s %s{1, 2};" % (T, name)))
        out.append(("init-dup", "%s %s{1, 1};" % (T, name)))
    else:
        out.append(("size-n", "%s %s(n);" % (T, name)))
        out.append(("fill", "%s %s(2, 7);" % (T, name)))
        out.append(("init2", "%s %s{1, 2};" % (T, name)))
    if other:
        out.append(("copy", "%s %s = %s;" % (T, name, other)))
        out.append(("copy-ctor", "%s %s(%s);" % (T, name, other)))
    return out


def simple_ops(c, v="v", w="w", two=False):
    """(tag, statement) -- operations without own control flow"""
    C = CONT[c]
    ops = []
    if C.get("fixed"):
        ops.append(("fill", ("e", M(v, "fill", (N(1),)))))
        if two:
            ops += [("swap", ("e", M(v, "swap", (V(w),)))), ("assign=", ("e", ("=", "=", V(v), V(w))))]
        return ops
    el = C["el"]
    if C["seq"]:
        ops += [("push_back", ("e", M(v, "push_back", (el(1),)))),
                ("insert-begin", ("e", M(v, "insert", (M(v, "begin", (), "other"), el(3)), "other")))]
        if c != "string":
            ops.append(("emplace_back", ("e", M(v, "emplace_back", (el(2),)))))
        if C["front"]:
            ops.append(("push_front", ("e", M(v, "push_front", (el(1),)))))
        ops += [("pop_back-guarded", ("if", ("u", "!", M(v, "empty", (), "int")), [("e", M(v, "pop_back"))], None)),
                ("erase-begin-guarded", ("if", ("u", "!", M(v, "empty", (), "int")), [("e", M(v, "erase", (M(v, "begin", (), "other"),), "other"))], None)),
                ("resize-2", ("e", M(v, "resize", (N(2),)))), ("resize-n", ("e", M(v, "resize", (V("n"),)))),
                ("assign-2", ("e", M(v, "assign", (N(2), el(5)))))]
    else:
        ops += [("insert-1", ("e", M(v, "insert", (el(1),), "other"))), ("insert-n", ("e", M(v, "insert", (V("n"),), "other"))),
                ("erase-1", ("e", M(v, "erase", (el(1),), "other")))]
    ops.append(("clear", ("e", M(v, "clear"))))
    ops.append(("grow", ("e", ("call", "grow@", (V(v),), "void"))))
    if two:
        ops += [("swap", ("e", M(v, "swap", (V(w),)))), ("assign=", ("e", ("=", "=", V(v), V(w)))),
                ("move=", ("e", ("=", "=", V(v), ("call", "std::move", (V(w),), "other")))),
                ("w.push", ("e", M(w, "push_back" if C["seq"] else "insert", (el(4),), "other" if not C["seq"] else "void")))]
    return ops


def ops_all(c, two, tier):
    so = simple_ops(c, two=two)
    out = list(so)
    inner = [o for o in so if o[0] in ("push_back", "insert-1", "clear", "resize-2", "fill", "pop_back-guarded")][:3]
    sz = lambda: M("v", "size", (), "int")
    for tag, st in inner:
        out.append(("if-empty{%s}" % tag, ("if", M("v", "empty", (), "int"), [st], None)))
        out.append(("if-t{%s}" % tag, ("if", V("t"), [st], None)))
        if tier != "quick" or tag in ("push_back", "insert-1", "fill"):
            out.append(("if-size==2{%s}" % tag, ("if", B("==", sz(), N(2)), [st], None)))
            out.append(("if-size<n{%s}" % tag, ("if", B("<", sz(), ("c", "unsigned long", V("n"))), [st], None)))
            out.append(("if-t-else{%s}" % tag, ("if", V("t"), [st], [("e", M("v", "clear"))] if not CONT[c].get("fixed") else [st])))
    if not CONT[c].get("fixed"):
        push = ("e", M("v", "push_back" if CONT[c]["seq"] else "insert", (V("i"),), "void" if CONT[c]["seq"] else "other"))
        out.append(("for-n-push", ("for", ("decl", "si", "i", N(0)), B("<", V("i"), V("n")), ("post", "++", V("i")), [push])))
        out.append(("for-2-push", ("for", ("decl", "si", "i", N(0)), B("<", V("i"), N(2)), ("post", "++", V("i")), [push])))
        out.append(("while-size<n-push", ("while", B("<", sz(), ("c", "unsigned long", V("n"))), [("e", M("v", "push_back" if CONT[c]["seq"] else "insert",
                                                                                                    (sz(),) if CONT[c]["seq"] else (("c", "si", sz()),), "other"))])))
        out.append(("while-!empty-pop", ("while", ("u", "!", M("v", "empty", (), "int")),
                                         [("e", M("v", "pop_back") if CONT[c]["seq"] else M("v", "erase", (M("v", "begin", (), "other"),), "other"))])))
    return out


def gen(tier):
    # (container, max sequence length, second container w, construction forms of v or None = all)
    if tier == "quick":
        plan = [("vector", 2, False, ("default", "init2")), ("vector", 1, True, None), ("string", 1, False, None), ("string", 1, True, ("default", "literal")),
                ("deque", 1, False, None), ("list", 1, False, None), ("set", 1, True, None), ("array", 1, True, None)]
    else:
        # smallest spaces first: the deadline cuts the tail of the k = 3 enumerations
        plan = [("array", 2, True, None), ("set", 2, True, None), ("deque", 2, False, None), ("list", 2, False, None), ("string", 2, False, None),
                ("vector", 2, True, None), ("deque", 2, True, None), ("list", 2, True, None), ("string", 2, True, None),
                ("vector", 3, False, None), ("string", 3, False, None), ("vector", 3, True, None)]
    for c, kmax, two, cforms in plan:
        T = CONT[c]["t"]
        grow_body = [("e", M("c", "push_back" if CONT[c]["seq"] else "insert", (CONT[c]["el"](6),), "void" if CONT[c]["seq"] else "other"))] \
            if not CONT[c].get("fixed") else [("e", M("c", "fill", (N(0),)))]
        grow = ("func", dict(name="grow@", ret="void", params=[(T + " &", "c")], vars={"c": "cont"}, body=grow_body))
        ops = ops_all(c, two, tier)
        wforms = [("none", None)] if not two else [(f, t) for f, t in constructs(c, "w") if f in ("default", "init2", "init3", "literal", "fill")][:2]
        for wf, wtext in wforms:
            for cf, ctext in constructs(c, "v", "w" if wtext else None):
                if cforms and cf not in cforms:
                    continue
                for k in range(0, kmax + 1):
                    for seq in itertools.product(ops, repeat=k):
                        body = []
                        if wtext:
                            body.append(("declraw", wtext, "w", "cont"))
                        body.append(("declraw", ctext, "v", "cont"))
                        body += [o[1] for o in seq]
                        ret = B("+", B("*", M("v", "size", (), "int"), N(10)), M("w", "size", (), "int")) if wtext else M("v", "size", (), "int")
                        body.append(("ret", ("c", "si", ret)))
                        yield dict(name="f@", ret="si", params=[("si", "n"), ("b", "t")], body=body, pre=[grow], vars={"v": "cont", "w": "cont"},
                                   domains={"n": [0, 1, 2, 3]}, cont=c, shape=[cf, wf] + [o[0] for o in seq])


def work(args):
    fam, fns = args
    b = P.Batch(fns, lang="cpp", gcc_flags=GXX_FLAGS, includes=INCLUDES, cc_args=["--std=c++17"])
    try:
        b.run_all(lambda bb: P.plan_symbolic(bb, "container-size"))
    except (RuntimeError, OSError) as ex:
        return {"error": str(ex)[:3000], "fam": fam}
    cnt = collections.Counter()
    viols, summ = [], []
    samples = []
    for r, _ in b.res:
        so = [] if not samples else None
        vs, c = P.judge_facts(b, r, attr="container-size", okinds=("cont",), sample_out=so)
        if so:
            samples += so
        c2 = collections.Counter()
        for k, v in c.items():
            c2[k] += v
        cnt.update(c2)
        # integer facts on size()/empty() results and other int expressions of the same programs (C01-type facts in C++)
        vi, ci = P.judge_facts(b, r, attr="intvalue", okinds=("rv",))
        for k, v in ci.items():
            cnt["int:" + k] += v
        cnt["functions"] += 1
        cnt["executions"] += r.nvec
        cnt["clean_executions"] += r.clean
        if r.crashed:
            cnt["functions_crashed"] += 1
        judged = c.get("judged", 0)
        if not judged:
            cnt["vacuous_functions"] += 1
        summ.append(judged)
        for v in vs + vi:
            o = v.pop("occ")
            v.update({"expr": o.text, "fn": P.untup(r.fn), "plain": r.plain, "family": fam, "cont": r.fn["cont"], "shape": r.fn["shape"],
                      "attr": "container-size" if v in vs else "intvalue"})
            v["key"] = classify(v)
            viols.append(v)
    return {"cnt": dict(cnt), "viols": viols, "summ": summ, "t": b.t, "fam": fam, "samples": samples}


def classify(v):
    """Class key of a violated fact; listed classes (known_findings.json) carry an explanation check."""
    shape = v["shape"]
    if v["cont"] == "set" and v.get("sym") is None and (
            "init-dup" in shape[:2] or any(("insert" in s_ or "w.push" in s_ or "push" in s_ or "grow" in s_) for s_ in shape[2:])):
        # the program inserts into a set (or initialises it with equal elements): the size cppcheck assumes counts duplicates;
        # every wrong size / size()-derived value in such a program is attributed to this class
        return "set-size-ignores-uniqueness-of-elements"
    return "unclassified:%s:%s:%s:%s" % (v["attr"], v["cont"], v["kind"], "+".join(shape[2:]))


def replay(rep):
    a = rep["artefact"]
    f = P.tup(a["fn"])
    f["vars"] = dict(a["fn"].get("vars") or {})
    f["domains"] = dict(a["fn"].get("domains") or {})
    b = P.Batch([f], lang="cpp", gcc_flags=GXX_FLAGS, includes=INCLUDES, cc_args=["--std=c++17"])
    b.run_all(lambda bb: P.plan_symbolic(bb, "container-size"))
    r = b.res[0][0]
    print("---- program P ----")
    for i, l in enumerate(r.plain):
        print("%3d  %s" % (i + 1, l))
    print("---- recorded ----")
    print("fact %s at line %s col %s `%s`: cppcheck says size %s; observed %s for input %s" % (
        a["fact"], a["line"], a["col"], a["expr"], P.describe(a["kind"], a["n"], a.get("sym")), a["observed"], a["vec"]))
    print("---- now ----")
    print("executions %d, clean %d" % (r.nvec, r.clean))
    for l, cc, st, facts in r.facts:
        o = P.pick_occ(r, l, cc, st)
        if o is not None and o.kind == "cont":
            fs = [{k: x for k, x in f_.items() if not k.startswith("_") and k not in ("path", "indirect")} for f_ in facts if "container-size" in f_]
            if fs:
                print("  %d:%d `%s` size facts=%s observed sizes=%s" % (l - r.line0 + 1, cc, o.text, fs, sorted(set(x[0] for x in b.values(r, o.id)))))
    vs, c = P.judge_facts(b, r, attr="container-size", okinds=("cont",))
    vi, ci = P.judge_facts(b, r, attr="intvalue", okinds=("rv",))
    for v in vs + vi:
        print("VIOLATED: line %d col %d `%s` %s observed %s input %s" % (v["line"], v["col"], v["occ"].text, P.describe(v["kind"], v["n"], v.get("sym")), v["observed"], v["vec"]))
    print("expected: no violated fact; observed: %s" % ("violated" if vs + vi else "none violated"))
    return 1 if vs + vi else 0


def main(tier, replay_=None):
    ctx = Ctx("C02", tier, "model_checking", 600 if tier == "quick" else 1700, replay_)
    build.build("plain")
    if replay_:
        return replay(replay_)
    limit = int(os.environ.get("C02_LIMIT", "0"))
    only = os.environ.get("C02_CONTAINERS")
    seen = set()
    totals = collections.Counter()
    famcount = collections.Counter()
    errors = []

    def batches():
        cur, curc = [], None
        n = 0
        for f in gen(tier):
            if only and f["cont"] not in only.split(","):
                continue
            if limit and famcount[f["cont"]] >= limit:
                continue
            key = sha([f["body"], f["cont"]])
            if key in seen:
                totals["duplicates_removed"] += 1
                continue
            seen.add(key)
            if curc is not None and (f["cont"] != curc or len(cur) >= BATCH):
                yield (curc, cur)
                cur = []
            curc = f["cont"]
            famcount[curc] += 1
            cur.append(f)
        if cur:
            yield (curc, cur)

    with ProcessPoolExecutor(max_workers=max(2, NCPU - 2)) as ex:
        pending, it, done_iter = [], batches(), False
        while True:
            while not done_iter and len(pending) < NCPU and not ctx.expired():
                try:
                    pending.append(ex.submit(work, next(it)))
                except StopIteration:
                    done_iter = True
            if not pending:
                break
            res = pending.pop(0).result()
            if "error" in res:
                errors.append(res)
                print("ENGINE-ERROR container=%s: %s" % (res["fam"], res["error"][:1500]), flush=True)
                continue
            totals.update(res["cnt"])
            ctx.count(res["cnt"].get("clean_executions", 0))
            totals["nontrivial"] += sum(1 for j in res["summ"] if j)
            for sm in res.get("samples", []):
                if not any(x.get("container") == res["fam"] for x in ctx.samples):
                    sm["container"] = res["fam"]
                    ctx.sample(sm, maxn=8)
            for v in res["viols"]:
                what = "%s: `%s` at line %d: cppcheck says %s %s, observed %s for input %s\n%s" % (
                    v["key"], v["expr"], v["line"], "size" if v["attr"] == "container-size" else "value", P.describe(v["kind"], v["n"], v.get("sym")),
                    v["observed"], v["vec"], "\n".join(v["plain"]))
                ctx.violation(v["key"], what, v)
            if ctx.expired() and not done_iter:
                done_iter = True
    for k, v in sorted(totals.items()):
        ctx.cov[k] = v
    ctx.cov["distinct_nontrivial"] = totals["nontrivial"]
    ctx.cov["functions_per_container"] = dict(famcount)
    ctx.cov["engine_errors"] = len(errors)
    if errors:
        ctx.nviol += 1
        print("VIOLATION property=C02 replay=- (engine error, see above)")
    return ctx.finish(
        rule="all functions of grammar G2: container type x construction forms of v (and w) x all sequences of <= k operations (k per container: "
             "quick vector/string 2, others 1; thorough 3/2), executed on n in {0..3} x t in {0,1}; evaluations = sanitizer-clean executions; "
             "distinct_nontrivial = distinct functions with >= 1 judged container-size fact")
