"""C31 -- file selection and path matching follow the documented rules.

(a) SEAM, in-process: native/pathmatch_enum.cpp (compiled on every run against the plain variant's fresh objects and
    /repo/lib/pathmatch.h) evaluates PathMatch::match for ALL patterns of length <= Lp over {a,b,.,/,*,?} x ALL paths of
    length <= Lq over {a,b,.,/} x {regular, directory} x base directories; vlib/ref_pathmatch.py (written from the rule
    list in lib/pathmatch.h and the manual) computes the same table; every pair is compared.
(b) CLI: the real binary on directory trees: the full tree (every name in every directory) x every list of <= 2
    patterns as -i / --file-filter / one of each x several spellings of the input paths; all small trees (<= 3 or 4
    entries) x file-creation orders (tmpfs readdir order = reverse creation order) for ordering and de-duplication;
    --suppress=id:<pattern> for the "suppressions use the same matching" clause.  Observed: the "Checking <path> ..."
    lines in order.  Reference: recursive walk, documented extensions, minus ignored, intersected with filters,
    de-duplicated, sorted.
"""
import glob, itertools, os, re, subprocess
from vlib import build, run
from vlib import ref_pathmatch as R
from vlib.core import Ctx, pmap, sha, ROOT

HARNESS_SRC = os.path.join(ROOT, "native", "pathmatch_enum.cpp")
PAT_ALPHA, PATH_ALPHA = "ab./*?", "ab./"


# =====================================================================================================================
# (a) seam
# =====================================================================================================================
def build_harness():
    bdir = os.path.join(build.BUILD, "c31")
    os.makedirs(bdir, exist_ok=True)
    exe = os.path.join(bdir, "pathmatch_enum")
    lib = os.path.join(build.BUILD, "plain", "lib")
    objs = sorted(glob.glob(os.path.join(lib, "CMakeFiles", "cppcheck-core.dir", "**", "*.o"), recursive=True))
    cmd = ["g++", "-std=c++11", "-O1", "-w", "-D" + build.GUARD, "-I" + os.path.join(build.REPO, "lib"),
           "-I" + os.path.join(build.REPO, "externals", "simplecpp"), "-I" + os.path.join(build.REPO, "externals", "tinyxml2"),
           HARNESS_SRC] + objs + [os.path.join(lib, "libsimplecpp.a"), os.path.join(lib, "libtinyxml2.a"), "-lpthread",
                                  "-o", exe + ".tmp%d" % os.getpid()]
    p = subprocess.run(cmd, stdout=subprocess.PIPE, stderr=subprocess.STDOUT)
    if p.returncode != 0:
        import sys
        sys.stderr.write("BUILD-ERROR: C31 harness does not compile against /repo:\n" + p.stdout.decode()[-3000:])
        raise SystemExit(2)
    os.replace(exe + ".tmp%d" % os.getpid(), exe)
    return exe


def seam_class(pattern, path, base, mode):
    """Class key of a seam disagreement = the minimal syntactic input class of a confirmed defect, else 'other'."""
    if "//" in pattern or "//" in path:
        return "seam:double-separator"
    if "?*" in pattern or "***" in pattern:
        return "seam:glob-before-star"
    if pattern.endswith("/") and mode == R.REGULAR and set(pattern.rstrip("/").split("/")[-1]) == {"*"}:
        return "seam:trailing-separator-final-star-regular-file"
    if base == "/" and (R.is_relative_pattern(pattern) or not path.startswith("/")):
        return "seam:root-base-relative-path"
    return "seam:other"


def popcount(x):
    return bin(x).count("1")


def seam(ctx, exe, lp, lq, bases):
    pats, paths = R.strings(PAT_ALPHA, lp), R.strings(PATH_ALPHA, lq)
    nb = (len(paths) + 7) // 8
    full = (1 << len(paths)) - 1
    proc = subprocess.Popen([exe, "table", str(lp), str(lq)] + bases, stdout=subprocess.PIPE)
    tabs = {b: R.Table(paths, b) for b in bases}
    ds_paths = sum(1 << i for i, p in enumerate(paths) if "//" in p)
    rel_paths = sum(1 << i for i, p in enumerate(paths) if not p.startswith("/"))
    st = dict(pairs=0, judged=0, undefined=0, ref_match=0, ref_nomatch=0, disagree=0)
    done = 0
    for pat in pats:
        for b in bases:
            for mode in (R.REGULAR, R.DIRECTORY):
                buf = proc.stdout.read(nb)
                if len(buf) != nb:
                    ctx.violation("seam:harness-output-short", "harness stopped after %d rows" % done, {"kind": "seam"})
                    return st
                done += 1
                st["pairs"] += len(paths)
                row = tabs[b].row(pat, mode)
                if row is None:
                    st["undefined"] += len(paths)
                    continue
                m, u = row
                got = int.from_bytes(buf, "little")
                j = full & ~u
                st["undefined"] += popcount(u & full)
                st["judged"] += popcount(j)
                t = popcount(m & j)
                st["ref_match"] += t
                st["ref_nomatch"] += popcount(j) - t
                d = (got ^ m) & j
                if not d:
                    continue
                st["disagree"] += popcount(d)
                # split the differing paths by class; one violation call per (row, class) with the first path as witness
                groups = {}
                if "//" in pat:
                    groups["seam:double-separator"] = d
                    d = 0
                x = d & ds_paths
                if x:
                    groups["seam:double-separator"] = x
                    d &= ~x
                if d and b == "/":
                    x = d if R.is_relative_pattern(pat) else d & rel_paths
                    if x:
                        groups["seam:root-base-relative-path"] = x
                        d &= ~x
                if d:
                    groups[seam_class(pat, "/x", "/x", mode)] = d       # remaining classes depend on the pattern only
                for key, bits in groups.items():
                    i = (bits & -bits).bit_length() - 1
                    g = bool(got >> i & 1)
                    ctx.bump("seam_disagreements_" + key.split(":")[1], popcount(bits))
                    ctx.violation(key, "PathMatch::match(pattern=%r, path=%r, base=%r, mode=%s) = %s, rules say %s (%d paths of this row)"
                                  % (pat, paths[i], b, mode, g, not g, popcount(bits)),
                                  {"kind": "seam", "pattern": pat, "path": paths[i], "base": b, "mode": mode,
                                   "observed": g, "expected": not g})
        if ctx.expired():
            proc.kill()
            break
    proc.stdout.close()
    proc.wait()
    return st


# =====================================================================================================================
# (b) CLI
# =====================================================================================================================
NAMES = ["a.c", "b.cpp", "c.h", "d.txt", "e f.c", "x.y.c", ".h.c", "A.C"]
DIRS = ["", "s", "s.d", "t/u", "t"]
ROOT_ONLY = ["g.cxx", "h.tpp", "i.cl", "j.hpp", "k.c++", "l.ixx", "m.cc", "n.ipp", "o.txx"]
FULL_TREE = [os.path.join(d, n) for d in DIRS for n in NAMES] + ROOT_ONLY
PATTERNS = ["s", "s/", "s/*", "*.c", "**/a.c", "./s", "../w/s", "{WS}/s/a.c", "{WS}/t/", "a.c", "?.c", "s.d", "t/u/"]
INPUTS = [["."], ["./"], ["{WS}"], ["s", "t", "a.c"], ["s/", "./s.d", ".", "s"], ["t/u/../../s/a.c", "a.c", "./a.c", "t"],
          ["s", "{WS}/s/a.c", "{WS}/t", "t/u", "a.c", "{WS}/./a.c"]]     # one file reached by a relative and an absolute spelling
SMALL = ["a.c", "A.C", "b.cpp", "e f.c", ".h.c", "x.y.c", "s/a.c", "s/b.cpp", "s.d/a.c", "t/u/a.c", "t/b.cpp", "c.h", "d.txt"]
# extensions documented in `cppcheck --help` ("If a directory is given ... files are checked recursively")
DOC_EXT = {".cpp", ".cxx", ".cc", ".c++", ".c", ".ipp", ".ixx", ".tpp", ".txx"}
SRC = "void f(void){int a[2];a[2]=0;}\n"
RE_CHK = re.compile(r"^Checking (.*) \.\.\.$", re.M)


def accepted(name):
    """True / False by the documented extension list; None where the documentation is silent (case, other extensions)."""
    i = name.rfind(".")
    ext = name[i:] if i > 0 else ""
    if ext in DOC_EXT:
        return True
    if ext.lower() in DOC_EXT or ext in (".cl",):
        return None
    return False


def expected(ws, files, inputs, ign, flt):
    """-> list of groups (one per input, in input order); group = list of (abs, must) for candidate files;
    must in (True, False, None)."""
    groups, seen = [], set()
    for inp in inputs:
        ip = os.path.normpath(os.path.join(ws, inp))
        cand = []
        for f in files:
            ab = os.path.join(ws, f)
            if ab == ip:
                acc = True                                 # a file named on the command line
            elif ab.startswith(ip.rstrip("/") + "/"):
                acc = accepted(os.path.basename(f))
            else:
                continue
            verdicts = [acc]
            if ign:
                m = R.match_any(ign, ab, ws)
                verdicts.append(None if m is None else not m)
            if flt:
                verdicts.append(R.match_any(flt, ab, ws))
            must = False if False in verdicts else (None if None in verdicts else True)
            if ab in seen:
                continue                                   # reported with an earlier input
            if must is not False:
                seen.add(ab)
            cand.append((ab, must))
        groups.append(cand)
    return groups


def run_cli(case):
    """case = dict(files (creation order), inputs, ign, flt, suppress) -> observed list of displayed paths."""
    with run.WS(name="c31_%s/w" % sha(case)) as ws:
        for f in case["files"]:
            ws.write(f, SRC if case.get("suppress") is not None else "\n")
        sub = lambda s: s.replace("{WS}", ws.dir)
        args = []
        for p in case["ign"]:
            args += ["-i", sub(p)]
        for p in case["flt"]:
            args.append("--file-filter=" + sub(p))
        if case.get("suppress") is not None:
            args += ["--suppress=arrayIndexOutOfBounds:" + sub(case["suppress"]), "--template={file}"]
        args += [sub(i) for i in case["inputs"]]
        r = run.cppcheck(args, ws.dir)
        if r.timed_out:
            r = run.cppcheck(args, ws.dir, timeout=600)
        shown = RE_CHK.findall(r.text_out())
        res = shown, r, ws.dir, args
    try:
        os.rmdir(os.path.dirname(res[2]))
    except OSError:
        pass
    return res


def judge_cli(ctx, case, res):
    shown, r, ws, args = res
    if r.timed_out:                       # overloaded machine: no verdict from this run
        ctx.bump("cli_runs_timed_out")
        ctx.capped = True
        return
    ign = [p.replace("{WS}", ws) for p in case["ign"]]
    flt = [p.replace("{WS}", ws) for p in case["flt"]]
    inputs = [i.replace("{WS}", ws) for i in case["inputs"]]
    groups = expected(ws, case["files"], inputs, ign, flt)
    bad = []
    obs_abs = [os.path.normpath(os.path.join(ws, s)) for s in shown]
    must = {}
    gi = {}
    for k, g in enumerate(groups):
        for ab, m in g:
            must[ab] = m
            gi[ab] = k
    rel = lambda ab: os.path.relpath(ab, ws)
    for ab in sorted(set(obs_abs)):
        if obs_abs.count(ab) > 1:
            bad.append(("duplicate", "%s analysed %d times" % (rel(ab), obs_abs.count(ab))))
        if ab not in must:
            bad.append(("unexpected", "%s analysed but is not below any input path" % rel(ab)))
        elif must[ab] is False:
            bad.append(("excluded-file-analysed", "%s analysed although not accepted / ignored / filtered out" % rel(ab)))
    for ab, m in must.items():
        if m is True and ab not in obs_abs:
            bad.append(("selected-file-missing", "%s not analysed although selected" % rel(ab)))
    for s in shown:
        if s != os.path.normpath(s):
            bad.append(("non-canonical-path", "reported under non-canonical path %r" % s))
    # order: per input sorted (bytewise or component-wise), inputs in the given order -- or globally sorted
    keyed = [(gi.get(ab, 0), s) for ab, s in zip(obs_abs, shown)]
    ok = any(keyed == sorted(keyed, key=kf) for kf in (lambda x: x, lambda x: (x[0], x[1].split("/")))) or \
        any(shown == sorted(shown, key=kf) for kf in (lambda x: x, lambda x: x.split("/")))
    if not ok:
        bad.append(("unsorted", "order %s is not sorted" % shown))
    ctx.count()
    nsel = sum(1 for m in must.values() if m is True)
    nexc = sum(1 for m in must.values() if m is False)
    ctx.bump("cli_files_selected", nsel)
    ctx.bump("cli_files_excluded", nexc)
    ctx.bump("cli_files_not_judged", sum(1 for m in must.values() if m is None))
    if nsel and nexc:
        ctx.distinct(sha([case["files"] if len(case["files"]) < 10 else "full", case["inputs"], case["ign"], case["flt"]]))
    else:
        ctx.bump("cli_runs_all_or_nothing")
    if bad:
        seen = set()
        for k, text in bad:
            if k in seen:
                continue
            seen.add(k)
            ctx.violation("cli:" + k, "%s  [cppcheck %s ; files %s]" % (text, " ".join(a.replace(ws, "{WS}") for a in args),
                                                                      case["files"] if len(case["files"]) < 10 else "FULL_TREE"),
                          {"kind": "cli", "case": case, "observed": shown, "problems": [b[1] for b in bad],
                           "expected_selected": sorted(rel(a) for a, m in must.items() if m is True),
                           "expected_excluded": sorted(rel(a) for a, m in must.items() if m is False)})


def judge_suppress(ctx, case, res):
    """--suppress=id:<pattern>: the finding of a file is hidden iff the pattern matches the file (free patterns only)."""
    shown, r, ws, args = res
    if r.timed_out:
        ctx.bump("cli_runs_timed_out")
        ctx.capped = True
        return
    pat = case["suppress"].replace("{WS}", ws)
    reported = set(os.path.normpath(os.path.join(ws, l)) for l in r.text_err().splitlines() if l and not l.startswith("nofile"))
    obs_abs = [os.path.normpath(os.path.join(ws, s)) for s in shown]
    bad = []
    nm = nj = 0
    for ab, disp in zip(obs_abs, shown):
        # the documentation does not say which directory suppression patterns / file names are relative to: judge only
        # where the rules give the same answer for the absolute path (base = cwd) and for the path as reported (no base)
        m, m2 = R.match(pat, ab, ws), R.match(pat, disp, "")
        if m is None or m2 is None or m != m2:
            ctx.bump("suppress_files_not_judged_base_dependent")
            continue
        nj += 1
        nm += 1 if m else 0
        if m and ab in reported:
            bad.append(("suppression-pattern-did-not-match", "%s: finding reported although --suppress pattern %r matches the file" % (os.path.relpath(ab, ws), pat)))
        if not m and ab not in reported:
            bad.append(("suppression-pattern-matched-wrongly", "%s: finding hidden although --suppress pattern %r does not match the file" % (os.path.relpath(ab, ws), pat)))
    ctx.count()
    ctx.bump("suppress_files_matched", nm)
    ctx.bump("suppress_files_judged", nj)
    if 0 < nm < nj:
        ctx.distinct(sha(["suppress", case["suppress"]]))
    seen = set()
    for k, text in bad:
        if k not in seen:
            seen.add(k)
            ctx.violation("cli:" + k, text, {"kind": "suppress", "case": case, "reported": sorted(reported), "problems": [b[1] for b in bad]})


def pattern_lists(maxlen):
    yield []
    for p in PATTERNS:
        yield [p]
    if maxlen >= 2:
        for p, q in itertools.permutations(PATTERNS, 2):
            yield [p, q]


def cli_cases(tier):
    full = FULL_TREE
    for k, inp in enumerate(INPUTS):
        pairs = 2 if (k == 0 or tier == "thorough") else 1
        for pl in pattern_lists(pairs):
            yield dict(files=full, inputs=inp, ign=pl, flt=[])
            if pl:
                yield dict(files=full, inputs=inp, ign=[], flt=pl)
        for p in PATTERNS:                                  # one -i and one --file-filter
            for q in (PATTERNS if pairs == 2 else ["*.c", "s"]):
                yield dict(files=full, inputs=inp, ign=[p], flt=[q])
    # small trees x creation orders (ordering, de-duplication, readdir order)
    nmax = 3 if tier == "quick" else 4
    for n in range(1, nmax + 1):
        for sub in itertools.combinations(SMALL, n):
            if tier == "thorough" and n <= 3:
                orders = list(itertools.permutations(sub))
            elif tier == "quick" and n == 3:
                orders = [tuple(sorted(sub))]              # created in sorted order = readdir in reverse order
            else:
                orders = [sub, sub[::-1]] if n > 1 else [sub]
            for o in orders:
                yield dict(files=list(o), inputs=["."], ign=[], flt=[])
            if n == 2 or (n >= 2 and tier == "thorough"):
                yield dict(files=list(sub), inputs=["s", ".", "./", sub[0]], ign=[], flt=[])
                yield dict(files=list(sub[::-1]), inputs=["."], ign=["s"], flt=["*.c"])
    for p in PATTERNS + ["x.y.*", "?.?pp", "**.c", "s*/a.c", "t/**/a.c", "t/*/a.c", "*/a.c"]:
        yield dict(files=full, inputs=["."], ign=[], flt=[], suppress=p)


def replay_case(a):
    if a["kind"] == "seam":
        exe = build_harness()
        out = subprocess.run([exe, "one", a["pattern"], a["path"], a["base"], a["mode"]], stdout=subprocess.PIPE).stdout.decode().strip()
        ref = R.match(a["pattern"], a["path"], a["base"], a["mode"])
        print("PathMatch::match(pattern=%r, path=%r, base=%r, mode=%s)" % (a["pattern"], a["path"], a["base"], a["mode"]))
        print("  observed (harness): %s" % (out == "1"))
        print("  expected (rules)  : %s   [undefined: %s]" % (ref, R.why_undefined(a["pattern"], a["path"], a["base"], a["mode"])))
        return 0
    case = a["case"]
    shown, r, ws, args = run_cli(case)
    print("cppcheck " + " ".join(args) + "\n  files created in order: %s" % case["files"])
    print(r.text_out() + r.text_err())
    print("observed Checking lines:", shown)
    print("recorded problems:", a.get("problems"))
    print("expected selected:", a.get("expected_selected"))
    return 0


def main(tier, replay=None):
    ctx = Ctx("C31", tier, "model_checking", 600 if tier == "quick" else 1700, replay)
    build.build("plain")
    if replay:
        return replay_case(replay["artefact"])
    exe = build_harness()
    lp, lq = (4, 5) if tier == "quick" else (5, 6)
    bases = ["/", "/a", "/b/a"]
    st = seam(ctx, exe, lp, lq, bases)
    ctx.count(st["judged"])
    for k, v in st.items():
        ctx.cov["seam_" + k] = v
    ctx.cov["seam_agree"] = st["judged"] - st["disagree"]
    ctx.distinct("seam-matching-pairs") if st["ref_match"] else None
    ctx.distinct("seam-nonmatching-pairs") if st["ref_nomatch"] else None
    cases = list(cli_cases(tier))
    ctx.cov["cli_cases_enumerated"] = len(cases)

    def work(c):
        if ctx.expired():
            return c, None
        return c, run_cli(c)
    nrun = 0
    for c, res in pmap(work, cases):
        if res is None:
            continue
        nrun += 1
        if c.get("suppress") is not None:
            judge_suppress(ctx, c, res)
        else:
            judge_cli(ctx, c, res)
            if len(ctx.samples) < 3 and c["ign"] and c["flt"]:
                ctx.sample({"inputs": c["inputs"], "-i": c["ign"], "--file-filter": c["flt"], "files": "FULL_TREE (%d files)" % len(c["files"]),
                            "analysed": res[0]})
    ctx.cov["cli_runs"] = nrun
    ctx.sample({"seam": "pattern 's/' vs path 's/a.c' base '/w' regular -> match; all %d judged pairs compared bit by bit" % st["judged"]})
    ctx.cov.update({"states": st["judged"] + nrun, "transitions": st["judged"] + nrun, "traces_validated_against_impl": st["judged"] + nrun,
                    "bound_pattern_length": lp, "bound_path_length": lq, "bases": bases})
    ctx.assumptions = [
        "reference = vlib/ref_pathmatch.py, written from the rule list in lib/pathmatch.h and the manual; pairs the rules do not determine "
        "(U-empty, U-climb, U-globdir, U-root, U-rootfile, U-rootcomp; see the module) are counted as seam_undefined and not judged",
        "accepted extensions = the list in `cppcheck --help`; other-case or undocumented extensions (A.C, i.cl) are not judged for acceptance",
        "order: per input path sorted (bytewise or component-wise) in input order, or globally sorted; tmpfs readdir order = reverse creation order",
        "suppression patterns: judged with the file's absolute path (relative/absolute patterns included only if the rules give an answer)"]
    return ctx.finish(
        rule="seam: all patterns of length <= %d over {a,b,.,/,*,?} x all paths of length <= %d over {a,b,.,/} x {regular,directory} x bases "
             "%s, every pair compared with the reference; CLI: full tree (%d files) x all lists of <= 2 of %d patterns as -i, as --file-filter, "
             "and one of each x %d input spellings; all small trees of <= %d of %d entries x creation orders; %d suppression patterns; "
             "nontrivial = runs where some files are selected and some excluded" % (lp, lq, bases, len(FULL_TREE), len(PATTERNS), len(INPUTS),
                                                                                   3 if tier == "quick" else 4, len(SMALL), len(PATTERNS) + 7),
        extra={})


if __name__ == "__main__":
    import sys
    sys.exit(main(sys.argv[1] if len(sys.argv) > 1 else "quick"))
