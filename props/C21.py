"""C21 -- a crashing worker process is contained.

Engine S x F on the REAL process executor: workers are real forked processes; native/vsched.c kills worker w right
before its k-th write to the result pipe (k ranges over every message boundary, and in the thorough tier over the
positions inside a message) or at its exit, with every crash kind; for each fault plan every parent schedule
(message delivery order, exit-notice timing, 'nothing ready' answers) with <= bound deviations is executed."""
import itertools, collections
from vlib import build, explore, par, run as vrun
from vlib.core import Ctx, sha

KINDS = ["segv", "abrt", "kill", "exit1", "exit3"]
OPTS = ["--inline-suppr", "--enable=style", "--error-exitcode=7"]
LETTERS = ["E", "E2", "E3"]     # every file has findings; the last one several (several messages after the first)


def findings(res):
    try:
        return vrun.parse_xml(res.err)
    except Exception:
        return None


def file_of(f):
    return f["locs"][0][0] if f["locs"] else None


def judge(ctx, sc, jobs, plan, x, base, crashed_files):
    """returns list of problem strings"""
    bad = []
    if x.flag:
        bad.append("scheduler: " + x.flag)
        return bad
    fs = findings(x.res)
    if fs is None:
        bad.append("output is not well-formed XML (parent aborted?) rc=%s stderr-tail=%r" % (x.res.rc, x.res.text_err()[-200:]))
        return bad
    for cf in crashed_files:
        if not any(f["severity"] == "error" and f["id"] in ("cppcheckError", "internalError") and file_of(f) == cf for f in fs):
            bad.append("no internal error names crashed file %s" % cf)
    # every finding attributed to a non-crashed file counts, including internal errors (a spurious "child crashed" for a healthy worker)
    others = sorted(vrun.fkey(f) for f in fs if file_of(f) not in crashed_files)
    exp = sorted(vrun.fkey(f) for f in base if file_of(f) not in crashed_files)
    if others != exp:
        extra = [k[0] + "@" + str(k[5][0][0] if k[5] else "") for k in others if k not in exp]
        bad.append("findings of other files differ: expected %d got %d (extra: %s)" % (len(exp), len(others), extra[:3]))
    if x.res.rc != 7:
        bad.append("exit status %s instead of 7" % x.res.rc)
    return bad


def main(tier, replay=None):
    ctx = Ctx("C21", tier, "fault_enumeration", 1200 if tier == "quick" else 5400, replay)
    build.build("plain")
    explore.shim()
    total = 0
    per = []
    outcomes = collections.Counter()
    if replay:
        a = replay["artefact"]
        sc = par.Scenario(a.get("letters", LETTERS), OPTS).setup()
        srv = explore.Server(sc.args(a["jobs"], "process"), sc.ws.dir, "p", env={"VSCHED_POLICY": str(a.get("policy", 0))})
        base = findings(srv.run([]).res)
        x = srv.run([tuple(p) for p in a["prefix"]], fault=a["fault"], timeout=30)
        srv.close()
        bad = judge(ctx, sc, a["jobs"], a["fault"], x, base, a["crashed_files"])
        print(bad, x.res.rc)
        print(x.res.text_err()[-1500:])
        return 1 if bad else 0
    ALLK = KINDS
    # cheap combos first so that a deadline (slow machine) cuts the tail of the largest one only
    combos = [(LETTERS, 2, 1, ["segv"], False), (["OK", "OK2", "OK3"], 2, 0, ["segv", "exit1"], False), (LETTERS, 2, 0, ALLK, True)]
    if tier == "thorough":
        combos = [(LETTERS, 2, 0, ALLK, True), (LETTERS, 2, 1, ALLK, True), (["OK", "OK2", "OK3"], 2, 0, ALLK, True),
                  (LETTERS, 3, 0, ALLK, True), (LETTERS, 3, 1, ALLK, False), (["OK", "OK2", "OK3"], 2, 1, ALLK, False),
                  (["E", "SI", "E2", "E3"], 2, 0, ["segv", "exit1"], True), (["E", "SI", "E2", "E3"], 2, 1, ["segv", "exit1"], False)]
    for letters, jobs, policy, kinds, multi in combos:
        sc = par.Scenario(letters, OPTS).setup()
        clean = letters[0] == "OK"
        pool = explore.ServerPool(lambda jobs=jobs, sc=sc, policy=policy: explore.Server(sc.args(jobs, "process"), sc.ws.dir, "p",
                                                                                       env={"VSCHED_POLICY": str(policy)}))
        x0 = pool.run([])
        base = findings(x0.res)
        nw = {w: x0.workers[w][0] for w in sorted(x0.workers)}
        if len(nw) != len(sc.order) or base is None or x0.res.rc != (0 if clean else 7):
            ctx.violation("harness", "fault-free run unusable: workers=%s rc=%s" % (x0.workers, x0.res.rc), {})
            continue
        ctx.cov["writes_per_worker_%s_j%d" % ("+".join(letters), jobs)] = nw
        plans = []   # (fault string, crashed worker list, bound, class)
        for w, m in nw.items():
            pts = list(range(0, m, 3)) + ["e"]
            for k in pts:
                for kind in kinds:
                    plans.append(("%d:%s:%s" % (w, k, kind), [w], 1, "boundary"))
            if tier == "thorough":
                for k in range(0, m):
                    if k % 3:
                        for kind in ("segv", "exit1"):
                            plans.append(("%d:%s:%s" % (w, k, kind), [w], 1, "intra-message"))
        ws = sorted(nw)
        for a, b in (itertools.combinations(ws, 2) if multi else []):
            for ka in list(range(0, nw[a], 3)) + ["e"]:
                for kb in list(range(0, nw[b], 3)) + ["e"]:
                    plans.append(("%d:%s:segv;%d:%s:exit3" % (a, ka, b, kb), [a, b], 0 if tier == "quick" else 1, "boundary"))
        for ks in ((["0"] * len(ws), ["e"] * len(ws), ["3"] * len(ws)) if multi else []):
            plans.append((";".join("%d:%s:kill" % (w, k) for w, k in zip(ws, ks)), ws, 1, "boundary"))
        # crash before the first message and crash at exit first (the corner cases), then the rest
        plans.sort(key=lambda pl: (0 if (":0:" in pl[0] or ":e:" in pl[0]) else 1))
        for fault, crashed, bound, cls in plans:
            if ctx.expired():
                break
            cfiles = [sc.order[w] for w in crashed]
            st = explore.Stats()

            def visit(x, fault=fault, cfiles=cfiles, cls=cls, crashed=crashed):
                if sorted(f[0] for f in x.faults) != sorted(crashed) and not x.flag:
                    ctx.bump("harness_fault_not_injected")
                    return "not-injected"
                bad = judge(ctx, sc, jobs, fault, x, base, cfiles)
                if bad:
                    key = ("intra-message-crash" if cls == "intra-message" else "boundary-crash") + ":" + bad[0].split(":")[0].split(" rc=")[0][:40]
                    ctx.violation(key, "%s policy %d " % ("+".join(letters), policy) + "-j%d fault %s schedule %s: %s" % (jobs, fault, x.prefix_str()[-60:], "; ".join(bad)[:400]),
                                  {"jobs": jobs, "letters": letters, "policy": policy, "fault": fault, "prefix": x.choices(), "crashed_files": cfiles, "problems": bad,
                                   "rc": x.res.rc, "stderr": x.res.text_err()[-1500:]})
                o = sha([sorted(x.res.err.decode("latin1").splitlines()), x.res.rc])
                outcomes[o] += 1
                return o
            explore.explore(lambda p: pool.run(p, fault=fault, timeout=30), bound, visit, stats=st, deadline=ctx.deadline)
            if st.capped:
                ctx.capped = True
            total += st.execs
            ctx.distinct("%s|%d|%d|%s" % ("+".join(letters), jobs, policy, fault))
            per.append({"files": "+".join(letters), "policy": policy, "jobs": jobs, "fault": fault, "class": cls, "bound": bound, "schedules": st.execs, "outputs": len(st.outcomes)})
        pool.close()
        sc.close()
    ctx.cov.update({"evaluations": total, "fault_plans": len(per), "distinct_outcomes": len(outcomes),
                    "schedules_by_plan_sample": per[:5] + per[-3:]})
    ctx.samples = per[:3] + per[-2:]
    ctx.assumptions = ["a fault plan 'w:k:kind' kills worker w (the w-th file) immediately before its k-th write to the result pipe "
                       "(3 writes per message; k multiple of 3 = message boundary; 'e' = after CHILD_END, at exit)",
                       "workers never block on the pipe (output far below the pipe capacity)"]
    return ctx.finish(rule="fault plans = every single crashing worker x every message boundary (+ intra-message positions in the "
                           "thorough tier) x 5 crash kinds, all pairs of crashing workers x boundary pairs, all workers crashing; "
                           "per plan all parent schedules with <= bound deviations; distinct = distinct (jobs, plan)")
