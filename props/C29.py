"""C29 -- output is deterministic across runs.

Engine S over the ENVIRONMENT's choices: the driver owns heap layout (native/valloc.c: bump allocator growing down /
up, padded glibc malloc), ASLR (setarch -R), environment size (stack shift), directory enumeration order (tmpfs returns
reverse creation order, so every permutation of file creation is a readdir order) and, for -j2, nothing (multiset
comparison).  Every combination of those answers is run for every input of a corpus chosen to reach pointer-keyed
containers; single job: byte-identical findings in identical order and identical --dump after renaming ids in order of
first occurrence; several jobs: identical multiset."""
import os, re, itertools, glob, subprocess, collections
from vlib import build, run
from vlib.core import Ctx, sha, pmap, ROOT

SRC = os.path.join(ROOT, "native", "valloc.c")
ALLOC = ["glibc", "down", "up", "pad16", "pad4096"]
RE_ID = re.compile(r'\bid="([0-9a-fx]+)"')


def valloc():
    out = os.path.join(build.BUILD, "libvalloc.so")
    if not os.path.exists(out) or os.path.getmtime(out) < os.path.getmtime(SRC):
        tmp = out + ".%d" % os.getpid()
        subprocess.check_call(["gcc", "-O2", "-fno-builtin", "-fPIC", "-shared", "-w", "-o", tmp, SRC, "-ldl"])
        os.replace(tmp, out)
    return out


def _norm_section(txt, prefix):
    ids = {}
    for m in RE_ID.finditer(txt):
        ids.setdefault(m.group(1), "%sID%d" % (prefix, len(ids)))
    if not ids:
        return txt
    rx = re.compile(r'(?<![0-9a-zA-Z])(' + "|".join(re.escape(k) for k in sorted(ids, key=len, reverse=True)) + r')(?![0-9a-zA-Z])')
    return rx.sub(lambda m: ids[m.group(1)], txt)


def norm_dump(txt):
    """Rename element ids in order of first occurrence, separately for every <dump> (configuration) section: ids are
    addresses, and a later configuration may reuse the addresses of an earlier one."""
    parts = re.split(r'(?=<dump )', txt)
    return "".join(_norm_section(p, "c%d." % i) for i, p in enumerate(parts))


def corpus(tier):
    repo = build.REPO
    items = []   # (name, files dict, order list (creation order), args)
    for d in sorted(glob.glob(os.path.join(repo, "samples", "*"))):
        for f in sorted(glob.glob(os.path.join(d, "bad.c*"))):
            items.append(("samples/" + os.path.relpath(f, os.path.join(repo, "samples")), {os.path.basename(f): open(f).read()}, None,
                          [os.path.basename(f)]))
    cfgs = [("std.c", "std"), ("std.cpp", "std"), ("posix.c", "posix")] if tier == "thorough" else []
    for f, lib in cfgs:
        p = os.path.join(repo, "test", "cfg", f)
        items.append(("test/cfg/" + f, {f: open(p, errors="replace").read()}, None, ["--library=" + lib, f]))
    multi = {
        "scopes.cpp": "namespace N { int x; struct S { int x; void f(int x) { this->x = x; { int x = 1; (void)x; } } }; }\n"
                      "void g(int *p, int *q) { if (p) {} *p = 0; if (q == 0) { } *q = 1; int a[2]; a[2] = 0; a[3] = 1; }\n"
                      "struct A { int a; int b; A() : a(0) {} }; struct B { int *p; B() { p = new int; } };\n",
        "ptrs.c": "void h(int *a, int *b, int *c) { int x; int y; int z; if (a == b) {} if (b == c) {} *a = x; *b = y; *c = z; }\n"
                  "int k(char *s, char *t) { char buf[3]; buf[3] = 0; buf[4] = 1; return s == t; }\n",
    }
    items.append(("multi", multi, None, ["scopes.cpp", "ptrs.c"]))
    # several entities at ONE source position (macro expansions): any order derived from positions alone ties here
    ties = {
        "ties.c": "#define TWO_PTRS(arr, first, last) int *first = &arr[0]; int *last = &arr[1]\n"
                  "#define TWO_UNUSED(a, b) int a = 1; int b = 2\n"
                  "#define TWO_DIV(x) (x / 0) + (x % 0)\n"
                  "#define TWO_OOB(arr) arr[5] = 0; arr[6] = 0\n"
                  "int t1(void) { int v[2] = {1, 2}; TWO_PTRS(v, lo, hi); return *lo + *hi; }\n"
                  "void t2(void) { TWO_UNUSED(p, q); }\n"
                  "int t3(int y) { return TWO_DIV(y); }\n"
                  "void t4(void) { int w[2]; TWO_OOB(w); }\n"
                  "void t5(int *a, int *b, int *c) { TWO_UNUSED(m, n); if (a) {} *a = *b + *c; }\n",
        "ties.cpp": "#define TWO_MEMBERS(a, b) int a; int b\n"
                    "#define TWO_REFS(v, r1, r2) int &r1 = v; int &r2 = v\n"
                    "struct T { TWO_MEMBERS(x, y); T() {} };\n"
                    "int u1(int z) { TWO_REFS(z, ra, rb); return ra + rb; }\n"
                    "void u2(char *s, char *t) { TWO_MEMBERS(k, l); k = 0; l = 1; if (s == t) {} }\n",
    }
    items.append(("ties", ties, None, ["ties.c", "ties.cpp"]))
    # several library container types in one file (the dump lists the containers the tokens refer to)
    conts = {"conts.cpp": "void c1(std::vector<int> &v, std::string &s, std::map<int,int> &m, std::list<int> &l, std::deque<int> &d) {\n"
                          "  v.push_back(1); s += 'x'; m[1] = 2; l.push_back(3); d.push_front(4);\n"
                          "  if (v.empty()) {} if (s.size() == 3) {} std::set<int> t; t.insert(1); std::array<int,3> a; a[3] = 0; }\n"}
    items.append(("containers", conts, None, ["conts.cpp"]))
    return items


def dir_items():
    """directory inputs: all creation orders of <= 4 files (tmpfs readdir = reverse creation order)"""
    names = ["a.c", "b.c", "sub/c.c", "sub/d.cpp"]
    body = lambda n: "void f_%s(void){int a[2];a[%d]=0;}\n" % (re.sub(r"\W", "_", n), 2 + len(n))
    return names, {n: body(n) for n in names}


def main(tier, replay=None):
    ctx = Ctx("C29", tier, "model_checking", 900 if tier == "quick" else 3600, replay)
    build.build("plain")
    so = valloc()
    opts = ["-q", "--enable=all", "--inconclusive", "--xml"]
    envs = []
    for al in ALLOC:
        for aslr in (True, False):
            for big in ((False, True) if tier == "thorough" else (False,)):
                envs.append((al, aslr, big))

    def runenv(args, cwd, envspec, dump=False):
        al, aslr, big = envspec
        e = {}
        if al != "glibc":
            e["LD_PRELOAD"] = so
            e["VALLOC"] = al
        if big:
            e["VERIF_PADDING"] = "x" * 65000
        exe = build.cppcheck("plain")
        cmd = ([] if aslr else ["setarch", "-R"]) + [exe] + (["--dump"] if dump else []) + args
        env = dict(os.environ); env.pop("CPPCHECK_HOME", None); env["LC_ALL"] = "C"; env.update(e)
        p = subprocess.run(cmd, cwd=cwd, env=env, stdout=subprocess.PIPE, stderr=subprocess.PIPE, timeout=600)
        return p.returncode, p.stdout, p.stderr

    cases = []
    for name, files, _, args in corpus(tier):
        for jobs in (1, 2):
            if jobs == 2 and len([a for a in args if not a.startswith("-")]) < 2:
                continue
            cases.append((name, files, args, jobs))
    states = transitions = 0
    outcomes = collections.Counter()
    per = []
    if replay:
        a = replay["artefact"]
        print(a)
        return 0

    def one(case):
        name, files, args, jobs = case
        res = {}
        for ev in envs:
            if ctx.expired():
                break
            with run.WS(files) as ws:
                rc, out, err = runenv(opts + ["-j%d" % jobs] + args, ws.dir, ev)
                dumps = {}
                if jobs == 1:
                    rc2, _, _ = runenv(["-q"] + args, ws.dir, ev, dump=True)
                    for f in files:
                        dp = ws.path(f + ".dump")
                        if os.path.exists(dp):
                            dumps[f] = sha(norm_dump(open(dp, errors="replace").read()))
                if jobs == 1:
                    key = (rc, sha(out), sha(err), tuple(sorted(dumps.items())))
                else:
                    key = (rc, sha(sorted(err.splitlines())))
                res[ev] = (key, err[-1500:].decode("utf-8", "replace"))
        return case, res
    for case, res in pmap(one, cases, jobs=6):
        name, files, args, jobs = case
        keys = {ev: k for ev, (k, _) in res.items()}
        transitions += len(keys)
        states += 1
        ctx.count(len(keys))
        distinct = set(keys.values())
        outcomes[len(distinct)] += 1
        per.append({"input": name, "jobs": jobs, "environments": len(keys), "distinct_outputs": len(distinct)})
        if len(distinct) > 1:
            base = keys[envs[0]]
            bad = [ev for ev in keys if keys[ev] != base]
            what = "rc" if bad and keys[bad[0]][0] != base[0] else ("findings" if jobs == 2 or keys[bad[0]][1:3] != base[1:3] else "dump")
            ctx.violation("nondet:%s:%s" % (what, name), "input %s -j%d: output differs between environments %s and %s (%s)" % (
                name, jobs, envs[0], bad[0], what), {"input": name, "jobs": jobs, "args": args, "env_a": envs[0], "env_b": bad[0],
                                                  "stderr_a": res[envs[0]][1], "stderr_b": res[bad[0]][1]})
        ctx.distinct("%s|%d" % (name, jobs))
    # directory enumeration order
    names, dfiles = dir_items()
    perms = list(itertools.permutations(names)) if tier == "thorough" else list(itertools.permutations(names))[::2]
    dirkeys = {}

    def dwork(perm):
        ws = run.WS()
        for n in perm:
            ws.write(n, dfiles[n])
        rc, out, err = runenv(opts + ["-j1", "."], ws.dir, ("glibc", True, False))
        rc2, out2, err2 = runenv(["--enable=all", "--xml", "-j1", "--cppcheck-build-dir=bd"] + ["."], (os.makedirs(ws.path("bd")) or ws.dir), ("glibc", True, False))
        ft = open(ws.path("bd/files.txt")).read() if os.path.exists(ws.path("bd/files.txt")) else ""
        ws.close()
        return perm, (rc, sha(err), sha(out2), sha(ft))
    for perm, k in pmap(dwork, perms, jobs=6):
        dirkeys[perm] = k
        transitions += 1
        ctx.count()
    if len(set(dirkeys.values())) > 1:
        vals = list(dirkeys.items())
        other = [p for p, k in vals if k != vals[0][1]][0]
        ctx.violation("nondet:readdir-order", "directory input: output depends on directory enumeration order (creation orders %s vs %s)" % (
            vals[0][0], other), {"perm_a": vals[0][0], "perm_b": other})
    ctx.distinct("dir-input")
    ctx.cov.update({"states": max(1, states + 1), "transitions": max(1, transitions), "traces_validated_against_impl": transitions,
                    "environments": [list(e) for e in envs], "readdir_orders": len(perms),
                    "inputs_by_number_of_distinct_outputs": dict(outcomes)})
    ctx.samples = per[:6]
    ctx.assumptions = ["environment answers enumerated: allocator {glibc, bump-down, bump-up, pad16, pad4096} x ASLR {on, off}"
                       + (" x environment size {normal, +64KiB}" if tier == "thorough" else "")
                       + "; readdir orders via tmpfs creation order", "valloc.c's bump-down allocator reverses the address order of any two live heap objects"]
    return ctx.finish(rule="corpus (samples/*/bad.c*, multi-scope programs%s) x job counts {1,2} x every environment combination; "
                           "states = (input, jobs), transitions = runs; an input is a violation when two environments give different "
                           "bytes (j1: findings in order + normalised dump; j2: multiset)" % (", test/cfg std.c std.cpp posix.c" if tier == "thorough" else ""))
