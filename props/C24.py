"""C24 -- unmatched suppressions are reported exactly.

Reference = rules R1-R5 of DESIGN.md (deliberately minimal):
  R1 a suppression that matched (hid) a finding is never reported as unmatched;
  R2 every unmatchedSuppression report belongs to exactly one existing suppression, carries that suppression's own
     file/line (nothing / line 0 when it has none; for an inline suppression the comment's or the code line) and
     appears once;
  R3 id-only suppressions, id:file suppressions whose file is analysed, wildcard-file suppressions matching an
     analysed file and inline line/block suppressions on analysed lines that hid nothing ARE reported; a file
     pattern matching no file at all is not;
  R4 unmatchedSuppression can itself be suppressed (globally, same file, same file and line);
  R5 unusedFunction (check off), misra-*, premium-*, checkersReport are never reported as unmatched.
Everything else (id:file:line on the command line, symbol suppressions, -file/-macro comments, patterns that only
match a header) is constrained by R1/R2 only.

Enumerated: all ordered pairs (and singles) over an alphabet of 21 command-line/XML and 15 inline suppressions, every
pair in its own cell (vlib/supcells.py) so that 48 pairs are judged by one run; id-only suppressions (which cannot be
confined to a cell) pairwise in runs of their own; every run with the single-job, the thread and the process executor
(-j2), whose unmatchedSuppression multisets must also be equal.  Schedules: the default schedule of the scheduler
shim in quick, all schedules with <= 1 deviation in thorough on 3 scenarios (C15 explores the general case)."""
import collections, itertools, os, re, time
from vlib import build, run, supcells as sc, ref_suppress as ref
from vlib.core import Ctx, pmap, sha

NCELL = 48
EXECUTORS = {"single": ["-j1"], "thread": ["-j2", "--executor=thread"], "process": ["-j2", "--executor=process"]}
BASE_OPTS = ["-q", "--enable=information", "--inline-suppr"]
FILTERED = ("unusedFunction", "checkersReport")


# ------------------------------------------------------------------------------------------------ alphabet
def plain_alphabet(tag):
    F = "t/k%s/m%s.c" % (tag, tag)
    H = "t/k%s/h%s.h" % (tag, tag)
    D = "k" + tag
    return collections.OrderedDict([
        ("hit-file", ("zerodiv", F, None, None)),
        ("hit-line", ("zerodiv", F, 6, None)),
        ("line-without-finding", ("zerodiv", F, 9, None)),
        ("miss-file", ("nullPointer", F, None, None)),
        ("miss-line-other-id", ("nullPointer", F, 6, None)),
        ("hit-idglob", ("zero*", F, None, None)),
        ("hit-star", ("*", F, None, None)),
        ("miss-idglob", ("null*", F, None, None)),
        ("hit-wildfile", ("zerodiv", D + "/*.c", None, None)),
        ("miss-wildfile", ("nullPointer", D + "/*.c", None, None)),
        ("nofile-wild", ("nullPointer", D + "/*.zz", None, None)),
        ("nofile-literal", ("nullPointer", "t/%s/zz.c" % D, None, None)),
        ("hit-header", ("arrayIndexOutOfBounds", H, None, None)),
        ("miss-header", ("nullPointer", H, None, None)),
        ("um-file", ("unmatchedSuppression", F, None, None)),
        ("um-line", ("unmatchedSuppression", F, 6, None)),
        ("hit-dot", ("uninitvar", "./" + F, None, None)),
        ("miss-dot", ("memleak", "./" + F, None, None)),
        ("miss-basename", ("resourceLeak", "m%s.c" % tag, None, None)),
        ("hit-symbol", ("uninitvar", F, None, "vb" + tag)),
        ("miss-symbol", ("uninitvar", F, None, "zz" + tag)),
    ])


XML_ONLY = ("hit-symbol", "miss-symbol")
B, E = "// cppcheck-suppress-begin ", "// cppcheck-suppress-end "
INLINE = collections.OrderedDict([
    ("in-hit-prev", {"c5": "// cppcheck-suppress zerodiv"}),
    ("in-hit-same", {"t6": "// cppcheck-suppress zerodiv"}),
    ("in-miss-other-id", {"c5": "// cppcheck-suppress nullPointer"}),
    ("in-miss-prev", {"c8": "// cppcheck-suppress zerodiv"}),
    ("in-miss-same", {"t9": "// cppcheck-suppress nullPointer"}),
    ("in-list-half", {"c5": "// cppcheck-suppress [zerodiv, nullPointer]"}),
    ("in-hit-glob", {"c5": "// cppcheck-suppress zero*"}),
    ("in-block-hit", {"c5": B + "zerodiv", "c8": E + "zerodiv"}),
    ("in-block-miss", {"c5": B + "nullPointer", "c8": E + "nullPointer"}),
    ("in-hdr-hit", {"h2": "// cppcheck-suppress arrayIndexOutOfBounds"}),
    ("in-hdr-miss", {"h2": "// cppcheck-suppress nullPointer"}),
    ("in-file-hit", {"c1": "// cppcheck-suppress-file zerodiv"}),
    ("in-file-miss", {"c1": "// cppcheck-suppress-file nullPointer"}),
    ("in-macro-hit", {"c3": "// cppcheck-suppress-macro zerodiv"}),
    ("in-macro-miss", {"c3": "// cppcheck-suppress-macro nullPointer"}),
])
GLOBAL = ["zerodiv", "nullPointer", "*", "null*", "uninitvar", "unmatchedSuppression", "unusedFunction", "misra-c2012-1.1",
          "premium-x", "checkersReport"]


def cell_cases(tier):
    """-> list of tuples of element names (1 or 2 elements) that fit into one cell."""
    P = list(plain_alphabet("aa"))
    I = list(INLINE)
    out = [(a,) for a in P + I]
    pa = plain_alphabet("aa")
    for a, b in (itertools.permutations(P, 2) if tier == "thorough" else itertools.combinations(P, 2)):
        ka = (pa[a][0], ref.canon(pa[a][1]), pa[a][2], pa[a][3])
        kb = (pa[b][0], ref.canon(pa[b][1]), pa[b][2], pa[b][3])
        if ka != kb:
            out.append((a, b))
    core = ("hit-file", "hit-line", "miss-file", "hit-star", "hit-wildfile", "miss-wildfile", "um-file", "um-line")
    for a in I:
        for b in P:
            if tier == "thorough" or b in core:
                out.append((a, b))
    for a, b in itertools.combinations(I, 2):
        if not set(INLINE[a]) & set(INLINE[b]):
            out.append((a, b))
    return out


# ------------------------------------------------------------------------------------------------ one run
def build_run(cases, channel):
    """cases: [(names, tag)] -> (files, plain reference suppressions in command-line order with .text = element name)"""
    files, plain = {}, []
    for names, tag in cases:
        fill = {}
        pa = plain_alphabet(tag)
        for n in names:
            if n in INLINE:
                fill.update(INLINE[n])
            else:
                s = ref.Sup(*pa[n])
                s.text = "%s@%s" % (n, tag)
                plain.append(s)
        files.update(sc.slot_cell_files(tag, fill))
    return files, plain


def parse_reports(fs):
    out = []
    for f in fs:
        if f["id"] != "unmatchedSuppression":
            continue
        sid = f["msg"].replace("Unmatched suppression: ", "", 1)
        loc = f["locs"][0] if f["locs"] else None
        out.append((sid, loc[0] if loc else None, loc[1] if loc else None))
    return sorted(out, key=lambda x: (x[0], x[1] or "", x[2] or 0))


_base_cache = {}


def execute(files, inputs, sup_args, extra_files, executors):
    """-> {executor: (reports | None, rc, stderr tail)}, baseline findings, cwd"""
    with run.WS(files) as ws:
        for n, c in extra_files.items():
            ws.write(n, c)
        hk = sha([files, inputs])
        if hk in _base_cache:              # findings of the run without any suppression depend on the sources only
            bfs = _base_cache[hk]
        else:
            bfs, rb = run.findings_xml(["-q"] + inputs, ws.dir)
            if len(files) <= 8:
                _base_cache[hk] = bfs
        res = {}
        for ex in executors:
            fs, r = run.findings_xml(BASE_OPTS + EXECUTORS[ex] + sup_args + inputs, ws.dir, timeout=600)
            res[ex] = (None if fs is None else parse_reports(fs), r.rc, r.text_err()[-600:] if fs is None or r.rc else "")
        return res, (None if bfs is None else sc.findings_of(bfs, files)), ws.dir


def deliver(plain, channel):
    if channel == "cmd":
        return ["--suppress=" + sc.text_form(s) for s in plain], {}
    return (["--suppress-xml=sup.xml"] if plain else []), ({"sup.xml": sc.xml_form(plain)} if plain else {})


# ------------------------------------------------------------------------------------------------ the rules
def rep_location(s):
    """(file | None, set of acceptable lines) an unmatchedSuppression report for s may carry."""
    if s.kind == "plain":
        return (ref.canon(s.file) if s.file is not None else None), {s.line or 0} if s.file is not None else {None, 0}
    if s.kind in ("line", "macro"):
        return ref.canon(s.file), {s.at, s.lo}
    return ref.canon(s.file), {s.at}


def compat(u, s):
    sid, ufile, uline = u
    f, lines = rep_location(s)
    if sid != s.id:
        return False
    if (ufile is None) != (f is None):
        return False
    if f is not None and ref.canon(ufile) != f:
        return False
    return uline in lines or (f is None)


def is_glob(p):
    return "*" in p or "?" in p


def status(s, sups, base, inputs, allfiles, cwd):
    """-> ('must' | 'mustnot' | 'free', reason)"""
    if s.id in FILTERED or s.id.startswith("misra-") or s.id.startswith("premium-"):
        return "mustnot", "R5-builtin-filter"
    ms = [ref.matches(s, f, cwd) for f in base]
    if any(m is True for m in ms):
        return "mustnot", "R1-matched"
    hid_decided = not any(m is None for m in ms)
    # R4: silenced by a suppression of unmatchedSuppression
    f, lines = rep_location(s)
    sil = False
    for q in sups:
        if q is s or q.kind != "plain" or not ref.glob_match(q.id, "unmatchedSuppression"):
            continue
        # can q apply to the place where s would be reported?  'no' / 'yes' / 'unknown'
        if q.file is None:
            rel = "yes" if q.line is None else "unknown"
        elif f is None:
            rel = "unknown" if is_glob(q.file) else "no"       # a file-bound entry and a report without file
        else:
            # the report's file name is the suppression's own file string (possibly a pattern); q applies to it under the
            # ordinary file rule of the manual
            m = ref.path_match(q.file, f, cwd)
            if m is False:
                rel = "no"
            elif not is_glob(q.file) and ref.canon(q.file) == f:
                rel = "yes"
            else:
                rel = "unknown"
            if rel != "no" and q.line is not None:
                if q.line not in lines:
                    rel = "no"
                elif lines != {q.line}:
                    rel = "unknown"
        if rel == "no":
            continue
        if rel == "yes" and q.id == "unmatchedSuppression" and q.symbol is None:
            sil = True
        elif sil is not True:
            sil = None
    if sil is True:
        return "mustnot", "R4-silenced"
    if s.id == "unmatchedSuppression":
        return "free", "is itself an unmatchedSuppression suppression"
    if sil is None or not hid_decided:
        return "free", "not decided"
    # R3
    if s.kind == "plain":
        if s.line is not None or s.symbol is not None:
            return "free", "id:file:line / symbol suppression: R1/R2 only"
        if s.file is None:
            return "must", "R3-id-only"
        m_in = [ref.path_match(s.file, a, cwd) for a in inputs]
        m_all = [ref.path_match(s.file, a, cwd) for a in allfiles]
        if any(m is True for m in m_in):
            return "must", "R3-wildcard-file-analysed" if is_glob(s.file) else "R3-file-analysed"
        if all(m is False for m in m_all):
            return "mustnot", "R3-no-such-file"
        return "free", "pattern matches a header only / undecided"
    if s.kind in ("line", "block"):
        return "must", "R3-inline"
    return "free", "-file / -macro comment: R1/R2 only"


def tag_of(text):
    m = re.search(r"@([a-z][a-z])$", text or "") or re.search(r"/k([a-z][a-z])/", text or "")
    return m.group(1) if m else None


def kuhn(left, right, adj):
    """maximum bipartite matching; adj[l] = list of r; returns dict l -> r"""
    match_r = {}

    def try_(l, seen):
        for r in adj[l]:
            if r in seen:
                continue
            seen.add(r)
            if r not in match_r or try_(match_r[r], seen):
                match_r[r] = l
                return True
        return False
    for l in left:
        try_(l, set())
    return {l: r for r, l in match_r.items()}


def shadowed(s, sups, base, cwd):
    """s is not file-local (no file or a wildcard file) and every finding it matches is also matched by a file-local
    command-line suppression or an inline suppression -- the class of the parallel-executor defect recorded in
    known_findings.json."""
    if s.kind != "plain" or not (s.file is None or is_glob(s.file)):
        return False
    mine = [f for f in base if ref.matches(s, f, cwd) is True]
    local = [q for q in sups if q is not s and (q.kind != "plain" or (q.file is not None and not is_glob(q.file)))]
    return bool(mine) and all(any(ref.matches(q, f, cwd) is True for q in local) for f in mine)


def judge_reports(reports, sups, stat):
    """-> list of (rule, element name, text)"""
    bad = []
    R = list(range(len(reports)))
    S = list(range(len(sups)))
    allowed = [j for j in S if stat[j][0] != "mustnot"]
    adj_r = {i: [j for j in allowed if compat(reports[i], sups[j])] for i in R}
    m = kuhn(R, allowed, adj_r)
    for i in R:
        if i in m:
            continue
        cands = [j for j in S if compat(reports[i], sups[j])]
        if not cands:
            bad.append(("R2-report-without-suppression", "report@%s" % (reports[i][1] or "nofile"), "report %s has no suppression with that id and location" % (reports[i],)))
        elif not adj_r[i]:
            j = cands[0]
            bad.append((stat[j][1] + "-but-reported", sups[j].text, "report %s for %r (%s)" % (reports[i], sups[j], stat[j][1])))
        else:
            bad.append(("R2-reported-more-than-once", sups[adj_r[i][0]].text, "report %s appears more often than suppressions exist" % (reports[i],)))
    must = [j for j in S if stat[j][0] == "must"]
    adj_s = {j: [i for i in R if compat(reports[i], sups[j])] for j in must}
    m2 = kuhn(must, R, adj_s)
    for j in must:
        if j not in m2:
            bad.append((stat[j][1] + "-not-reported", sups[j].text, "%r hid nothing (%s) but no unmatchedSuppression was reported" % (sups[j], stat[j][1])))
    return bad


def reference_sups(files, plain_args, extra_files, channel):
    if channel == "cmd":
        plain = [ref.parse_text(a.split("=", 1)[1]) for a in plain_args]
    else:
        plain = ref.parse_xml(extra_files["sup.xml"]) if extra_files else []
    inl = []
    for f, t in files.items():
        s, bad = ref.inline_sups(t, f)
        inl += s
    return plain, inl


def evaluate(ctx, tally, label, files, inputs, plain, channel, executors, art_of, names_of=None):
    art = art_of(None)
    sup_args, extra = deliver(plain, channel)
    res, base, cwd = execute(files, inputs, sup_args, extra, executors)
    rplain, rinl = reference_sups(files, sup_args, extra, channel)
    for s, g in zip(rplain, plain):
        s.text = g.text
    for s in rinl:
        s.text = "inline@%s:%s" % (s.file, s.at)
    sups = rplain + rinl
    if base is None:
        ctx.violation("baseline-failed", "baseline run failed", art)
        return
    stat = [status(s, sups, base, inputs, sorted(files), cwd) for s in sups]
    for (st, why) in stat:
        tally[st] += 1
        tally["why:" + why] += 1
    first = None
    for ex in executors:
        reps, rc, err = res[ex]
        if rc == -999:                      # harness: the run did not finish in time (machine overloaded) -- no verdict
            ctx.bump("harness_timeouts")
            ctx.capped = True
            continue
        if reps is None or rc != 0:
            ctx.violation("run-failed:%s" % ex, "%s: rc=%s %s" % (label, rc, err[:300]), dict(art, executor=ex))
            continue
        tally["reports"] += len(reps)
        for rule, elem, text in judge_reports(reps, sups, stat):
            who = names_of(elem) if names_of else elem
            key = "%s:%s:%s:%s" % (rule, who, channel, ex)
            culprit = [q for q in sups if q.text == elem]
            if rule == "R1-matched-but-reported" and ex != "single" and culprit and shadowed(culprit[0], sups, base, cwd):
                key = "parallel:nonlocal-suppression-shadowed-by-file-local-one-reported-unmatched"
            if rule == "R4-silenced-but-reported" and culprit and culprit[0].kind != "plain" and not any(
                    q.kind == "plain" and q.id == "unmatchedSuppression" and q.file is None for q in sups):
                key = "R4:file-bound-unmatchedSuppression-entry-does-not-silence-inline-suppressions"
            ctx.violation(key, "%s [%s] %s" % (label, ex, text),
                          dict(art_of(elem), executor=ex, reports=[r for r in reps if tag_of(r[1] or "") in (None, tag_of(elem))], rule=rule))
        if first is None:
            first = (ex, reps)
        elif reps != first[1]:
            d1 = collections.Counter(reps) - collections.Counter(first[1])
            d2 = collections.Counter(first[1]) - collections.Counter(reps)
            who = sorted(set(x[0] for x in list(d1) + list(d2)))
            key = "executor-diff:%s:%s" % (ex, ",".join(who))
            extra_sups = [q for u in d1 for q in sups if compat(u, q)]
            if not d2 and extra_sups and all(shadowed(q, sups, base, cwd) for q in extra_sups):
                key = "parallel:nonlocal-suppression-shadowed-by-file-local-one-reported-unmatched"
            ctx.violation(key,
                          "%s: unmatchedSuppression reports of %s differ from %s: only %s %s / only %s %s" % (
                              label, ex, first[0], ex, sorted(d1.elements()), first[0], sorted(d2.elements())),
                          dict(art, executor=ex, reports=reps, reference_reports=first[1]))


# ------------------------------------------------------------------------------------------------ parts
def part_cells(ctx, tier, tally):
    cases = cell_cases(tier)
    jobs = []
    for channel in ("cmd", "xml"):
        cs = [c for c in cases if channel == "xml" or not any(n in XML_ONLY for n in c)]
        if channel == "xml" and tier == "quick":
            # quick: XML only where it adds something (symbol entries) plus three controls
            cs = [c for c in cases if any(n in XML_ONLY for n in c)] + [("miss-file",), ("hit-file", "miss-wildfile"), ("in-miss-prev", "um-file")]
        for chunk in sc.chunks(cs, NCELL):
            jobs.append((channel, [(c, sc.TAGS[i]) for i, c in enumerate(chunk)]))
    ctx.cov["cell_pairs"] = sum(len(j[1]) for j in jobs)
    ctx.cov["batched_runs"] = len(jobs) * 4

    def work(j):
        if ctx.expired():
            return None
        channel, chunk = j
        files, plain = build_run(chunk, channel)
        inputs = sorted(f for f in files if f.endswith(".c"))
        by_tag = {tag: names for names, tag in chunk}

        def names_of(elem):
            base = "inline" if elem.startswith("inline@") else elem.split("@")[0]
            return "%s in [%s]" % (base, "+".join(by_tag.get(tag_of(elem), ("?",))))

        def art_of(elem):
            t = tag_of(elem) if elem else None
            ch = [[list(n), tg] for n, tg in chunk if t is None or tg == t]
            return {"part": "cells", "channel": channel, "chunk": ch}
        local = collections.Counter()
        evaluate(ctx, local, "cells/%s" % channel, files, inputs, plain, channel, list(EXECUTORS), art_of, names_of)
        return j, local
    for r in pmap(work, jobs):
        if r is None:
            continue
        (channel, chunk), local = r
        tally.update(local)
        ctx.count(len(chunk) * 3)
        for names, tag in chunk:
            ctx.distinct("cell|%s|%s" % (channel, "+".join(names)))
    ctx.sample({"part": "cells", "example": "pair (miss-file, um-file) = --suppress=nullPointer:t/kaa/maa.c "
                                            "--suppress=unmatchedSuppression:t/kaa/maa.c on cell aa"})


def part_global(ctx, tier, tally):
    """id-only suppressions (not confinable) pairwise, plus each of three with every cell-bound entry; 2-cell workspace."""
    combos = [(g,) for g in GLOBAL]
    combos += list(itertools.permutations(GLOBAL, 2)) if tier == "thorough" else [
        c for c in itertools.combinations(GLOBAL, 2) if not all(x in GLOBAL[6:] for x in c)]   # quick: not two filtered ids together
    jobs = [("ids", c, None) for c in combos]
    for g in (("nullPointer", "*", "unmatchedSuppression") if tier == "thorough" else ("*", "unmatchedSuppression")):
        for n in list(plain_alphabet("aa")) + list(INLINE):
            if tier == "quick" and g == "unmatchedSuppression" and not ("miss" in n or n == "in-list-half"):
                continue                     # quick: the global silencer only with entries that would otherwise be reported
            jobs.append(("mixed", (g,), n))
    # a header with an inline suppression shared by two analysed files
    for n in ("in-hdr-hit", "in-hdr-miss"):
        jobs.append(("shared-header", (), n))
        jobs.append(("shared-header", ("nullPointer",), n))
    ctx.cov["solo_scenarios"] = len(jobs)

    def work(j):
        if ctx.expired():
            return None
        kind, gl, elem = j
        chunk = [((elem,) if elem else (), "aa"), ((), "ab")]
        channel = "xml" if elem in XML_ONLY else "cmd"
        files, plain = build_run(chunk, channel)
        if kind == "shared-header":
            files["t/kaa/m2aa.c"] = '#include "haa.h"\nvoid c2aa(void){ hfaa(); }\n'
        for g in gl:
            s = ref.Sup(g)
            s.text = "global:" + g
            plain.append(s)
        inputs = sorted(f for f in files if f.endswith(".c"))
        local = collections.Counter()
        art = {"part": "global", "kind": kind, "ids": list(gl), "element": elem}
        evaluate(ctx, local, "%s %s %s" % (kind, "+".join(gl), elem or ""), files, inputs, plain, channel, list(EXECUTORS),
                 lambda e: art,
                 lambda e: ("inline" if e.startswith("inline@") else e.split("@")[0]) + " in [%s%s%s]" % (
                     "+".join(gl), " on " if elem and gl else "", elem or "") + (":shared-header" if kind == "shared-header" else ""))
        return j, local
    for r in pmap(work, jobs):
        if r is None:
            continue
        j, local = r
        tally.update(local)
        ctx.count(3)
        ctx.distinct("global|%s|%s|%s" % j)


def part_schedules(ctx, tier, tally):
    """The same oracle (equality with the -j1 run) under the scheduler shim: default schedule in quick, every schedule
    with <= 1 deviation in thorough."""
    from vlib import explore, par
    explore.shim()
    INFO = "--enable=information"
    scen = [
        par.Scenario(["SI", "SU"], ["--inline-suppr", INFO, "--suppress=nullPointer:si.c", "--suppress=zerodiv"]),
        par.Scenario(["HU1", "HU2"], ["--inline-suppr", INFO, "--suppress=nullPointer:*.c"]),
        par.Scenario(["E", "H1", "H2"], [INFO, "--suppress=arrayIndexOutOfBounds:hdr.h", "--suppress=zerodiv:e.c", "--suppress=uninitvar"]),
    ]
    bound = 1 if tier == "thorough" else 0
    total = 0
    for scn in scen:
        if ctx.expired():
            break
        scn.setup()
        try:
            (refs, refrc), _ = scn.reference()
            want = sorted(k for k in (refs or []) if k[0] == "unmatchedSuppression")
            for executor in ("thread", "process"):
                pool = explore.ServerPool(lambda scn=scn, executor=executor: explore.Server(
                    scn.args(2, executor), scn.ws.dir, "t" if executor == "thread" else "p"))
                st = explore.Stats()

                def visit(x, scn=scn, executor=executor, want=want, pool=pool):
                    got, rc = par.parse(x.res)
                    g = sorted(k for k in (got or []) if k[0] == "unmatchedSuppression")
                    if x.flag and not x.flag.startswith("DIVERGE"):
                        ctx.bump("schedule_harness_flags")
                    elif got is None or g != want:
                        y = pool.run(x.choices())
                        got2, rc2 = par.parse(y.res)
                        if got2 != got:
                            ctx.bump("harness_nondeterministic_replays")
                        else:
                            ctx.violation("schedule:%s:%s" % (executor, "+".join(scn.letters)),
                                          "%s under %s: unmatchedSuppression reports %s differ from -j1 %s (schedule %s)" % (
                                              scn.name, executor, g, want, x.prefix_str()[-80:]),
                                          {"part": "schedule", "letters": scn.letters, "opts": scn.opts, "executor": executor,
                                           "prefix": x.choices(), "expected": want, "observed": g})
                    return sha([g, rc])
                explore.explore(pool.run, bound, visit, stats=st, deadline=ctx.deadline)
                pool.close()
                total += st.execs
                ctx.distinct("sched|%s|%s" % (scn.name, executor))
                if st.capped:
                    ctx.capped = True
        finally:
            scn.close()
    ctx.count(total)
    ctx.cov["schedules_executed"] = total
    ctx.cov["schedule_deviation_bound"] = bound


# ------------------------------------------------------------------------------------------------ main
def do_replay(ctx, replay):
    a = replay["artefact"]
    tally = collections.Counter()
    if a["part"] == "cells":
        chunk = [(tuple(n), t) for n, t in a["chunk"]]
        files, plain = build_run(chunk, a["channel"])
        inputs = sorted(f for f in files if f.endswith(".c"))
    elif a["part"] == "global":
        chunk = [((a["element"],) if a["element"] else (), "aa"), ((), "ab")]
        files, plain = build_run(chunk, "xml" if a["element"] in XML_ONLY else "cmd")
        if a["kind"] == "shared-header":
            files["t/kaa/m2aa.c"] = '#include "haa.h"\nvoid c2aa(void){ hfaa(); }\n'
        for g in a["ids"]:
            s = ref.Sup(g)
            s.text = "global:" + g
            plain.append(s)
        inputs = sorted(f for f in files if f.endswith(".c"))
        a = dict(a, channel="xml" if a["element"] in XML_ONLY else "cmd")
    else:
        from vlib import par
        scn = par.Scenario(a["letters"], a["opts"]).setup()
        (refs, refrc), _ = scn.reference()
        x = scn.run(a["executor"], 2, [tuple(p) for p in a["prefix"]])
        got, rc = par.parse(x.res)
        print("expected:", [k for k in refs if k[0] == "unmatchedSuppression"])
        print("observed:", [k for k in got or [] if k[0] == "unmatchedSuppression"])
        scn.close()
        return 0
    exs = [a["executor"]] if a.get("executor") in EXECUTORS else list(EXECUTORS)
    if "single" not in exs:
        exs = ["single"] + exs
    sup_args, extra = deliver(plain, a["channel"])
    res, base, cwd = execute(files, inputs, sup_args, extra, exs)
    print("suppressions:", sup_args if a["channel"] == "cmd" else extra.get("sup.xml"))
    rp, ri = reference_sups(files, sup_args, extra, a["channel"])
    for q in rp + ri:
        st = status(q, rp + ri, base or [], inputs, sorted(files), cwd)
        print("expected: %-8s (%s) %r" % ({"must": "reported", "mustnot": "silent", "free": "either"}[st[0]], st[1], q))
    for ex in exs:
        print("observed [%s]:" % ex, res[ex][0])
    evaluate(ctx, tally, "replay", files, inputs, plain, a["channel"], exs, lambda e: a, lambda e: e)
    return 1 if ctx.nviol else 0


def main(tier, replay=None):
    ctx = Ctx("C24", tier, "model_checking", 600 if tier == "quick" else 2400, replay)
    build.build("plain")
    if replay:
        return do_replay(ctx, replay)
    tally = collections.Counter()
    parts = os.environ.get("VERIF_PARTS", "cells,global,schedules").split(",")
    for name, fn in (("cells", part_cells), ("global", part_global), ("schedules", part_schedules)):
        if name in parts:
            t0 = time.time()
            fn(ctx, tier, tally)
            print("  part %-9s done: evaluations=%d %.0fs" % (name, ctx.evaluations, time.time() - t0), flush=True)
    ctx.cov["suppressions_that_must_be_reported"] = tally["must"]
    ctx.cov["suppressions_that_must_not_be_reported"] = tally["mustnot"]
    ctx.cov["suppressions_unconstrained_beyond_R1_R2"] = tally["free"]
    ctx.cov["unmatchedSuppression_reports_seen"] = tally["reports"]
    ctx.cov["by_rule"] = {k[4:]: v for k, v in sorted(tally.items()) if k.startswith("why:")}
    ctx.cov["states"] = max(1, len(ctx._distinct))
    ctx.cov["transitions"] = max(1, ctx.evaluations)
    ctx.cov["traces_validated_against_impl"] = ctx.evaluations
    ctx.assumptions = [
        "R1-R5 as in DESIGN.md C24; 'hid a finding' is decided by vlib/ref_suppress.py on the findings of a run without suppressions",
        "command-line id:file:line entries, symbol entries, -file/-macro comments and patterns matching only a header are "
        "constrained by R1/R2 only",
        "an inline suppression may be reported at the line of its comment or at the line of code it applies to",
    ]
    return ctx.finish(
        rule="all singles and ordered pairs over 21 plain + 15 inline suppression classes (each pair in its own cell, 48 cells per "
             "run, channels --suppress= and --suppress-xml) + id-only suppressions pairwise and mixed with every class in runs of "
             "their own, each with executors single / thread -j2 / process -j2; evaluation = (pair, executor); distinct = pair x "
             "channel; nontrivial = every pair (each contains >= 1 suppression with a decided R1-R5 status)")


if __name__ == "__main__":
    import sys
    sys.exit(main(sys.argv[1] if len(sys.argv) > 1 else "quick"))
