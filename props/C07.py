"""C07 -- expression trees follow the C/C++ operator grammar.

Style I, exhaustive trees: ALL expression trees with <= n operator nodes over the operator alphabet of DESIGN C07 are
printed twice (minimal parenthesisation for the C / C++ grammar, and with every operator sub-expression in
parentheses), one expression statement per one-line function, many hundred functions per `cppcheck --dump` run.
Oracle: the AST of the dump (astOperand1/astOperand2/astParent, isCast) is, token by token (matched by source column),
the generating tree mapped into cppcheck's representation conventions.  The minimal-parenthesis printer is validated
independently: for every printed text clang compiles without error, clang's own AST must be the generating tree.
"""
import json, os, re, subprocess, itertools
from vlib import build, run, dumpx
from vlib.core import Ctx, pmap, sha

# ---- operator alphabet ---------------------------------------------------------------------------------
BINLV = {}
for lv, ops in ((12, "* / %"), (11, "+ -"), (10, "<< >>"), (9, "< <= > >="), (8, "== !="), (7, "&"), (6, "^"), (5, "|"),
                (4, "&&"), (3, "||"), (1, "= += -= *= /= %= <<= >>= &= ^= |="), (0, ",")):
    for o in ops.split():
        BINLV[o] = lv
PREFIX = ["+", "-", "!", "~", "*", "&", "++", "--", "sizeof"]
POSTFIX = ["++", "--"]
REP_BIN = ["*", "+", "<<", "<", "==", "&", "^", "|", "&&", "||", "=", "+=", ","]      # one per precedence class
REP_PRE = ["-", "!", "*", "&", "++", "sizeof"]
REP_POST = ["++"]

HDR_C = "struct S { int m; };\nint a, b; int *p; struct S s; struct S *ps; int f();\n"
HDR_CPP = "struct S { int m; };\nint a, b; int *p; S s; S *ps; int f(int); int f(int, int);\n"
HDR_LINES = 2


def heads(full_alphabet):
    """node constructors: (arity, maker) ; maker(children) -> node"""
    bins = list(BINLV) if full_alphabet else REP_BIN
    pres = PREFIX if full_alphabet else REP_PRE
    posts = POSTFIX if full_alphabet else REP_POST
    h = []
    for o in pres:
        h.append((1, lambda c, o=o: ("P", o, c[0])))
    for o in posts:
        h.append((1, lambda c, o=o: ("Q", o, c[0])))
    h.append((1, lambda c: ("C", c[0])))
    h.append((1, lambda c: ("M", ".", c[0])))
    h.append((1, lambda c: ("M", "->", c[0])))
    for o in bins:
        h.append((2, lambda c, o=o: ("B", o, c[0], c[1])))
    h.append((2, lambda c: ("I", c[0], c[1])))
    h.append((2, lambda c: ("F1", c[0], c[1])))
    h.append((3, lambda c: ("F2", c[0], c[1], c[2])))
    h.append((3, lambda c: ("T", c[0], c[1], c[2])))
    return h


def splits(n, k):
    """all k-tuples of non-negative ints summing to n"""
    if k == 1:
        yield (n,)
        return
    for i in range(n + 1):
        for r in splits(n - i, k - 1):
            yield (i,) + r


def trees(n, H, memo):
    """all trees with exactly n operator nodes, leaves = None"""
    if n in memo:
        return memo[n]
    if n == 0:
        memo[0] = [None]
        return memo[0]
    out = []
    for ar, mk in H:
        for sp in splits(n - 1, ar):
            for kids in itertools.product(*[trees(m, H, memo) for m in sp]):
                out.append(mk(kids))
    memo[n] = out
    return out


def fill(t):
    """assign leaves by context so that a decent part of the trees is well-typed"""
    cnt = [0]

    def leaf(ctx):
        if ctx in ("s", "ps", "f", "p"):
            return ("L", ctx)
        i = cnt[0]
        cnt[0] += 1
        if ctx == "lv":
            return ("L", "ab"[i % 2])
        return ("L", ("a", "b", "1")[i % 3])

    def go(n, ctx):
        if n is None:
            return leaf(ctx)
        k = n[0]
        if k == "P":
            c = "p" if n[1] == "*" else "lv" if n[1] in ("&", "++", "--") else "v"
            return ("P", n[1], go(n[2], c))
        if k == "Q":
            return ("Q", n[1], go(n[2], "lv"))
        if k == "C":
            return ("C", go(n[1], "v"))
        if k == "M":
            return ("M", n[1], go(n[2], "s" if n[1] == "." else "ps"))
        if k == "B":
            return ("B", n[1], go(n[2], "lv" if BINLV[n[1]] == 1 else "v"), go(n[3], "v"))
        if k == "I":
            return ("I", go(n[1], "p"), go(n[2], "v"))
        if k == "F1":
            return ("F1", go(n[1], "f"), go(n[2], "v"))
        if k == "F2":
            return ("F2", go(n[1], "f"), go(n[2], "v"), go(n[3], "v"))
        if k == "T":
            return ("T", go(n[1], "v"), go(n[2], "v"), go(n[3], "v"))
        raise ValueError(k)
    return go(t, "v")


def level(n):
    k = n[0]
    if k == "L":
        return 16
    if k in ("M", "I", "F1", "F2", "Q"):
        return 15
    if k == "P":
        return 14
    if k == "C":
        return 13
    if k == "B":
        return BINLV[n[1]]
    return 2        # T


def skeleton(n):
    k = n[0]
    if k == "L":
        return "_"
    if k == "B":
        return "(%s %s %s)" % (skeleton(n[2]), n[1], skeleton(n[3]))
    if k == "P":
        return "(%s %s)" % (n[1], skeleton(n[2]))
    if k == "Q":
        return "(%s %s)" % (skeleton(n[2]), n[1])
    if k == "C":
        return "((int) %s)" % skeleton(n[1])
    if k == "M":
        return "(%s %sm)" % (skeleton(n[2]), n[1])
    if k == "I":
        return "(%s [%s])" % (skeleton(n[1]), skeleton(n[2]))
    if k == "F1":
        return "(%s (%s))" % (skeleton(n[1]), skeleton(n[2]))
    if k == "F2":
        return "(%s (%s;%s))" % (skeleton(n[1]), skeleton(n[2]), skeleton(n[3]))
    return "(%s ? %s : %s)" % (skeleton(n[1]), skeleton(n[2]), skeleton(n[3]))


# ---- printer: node -> token list + expected cppcheck tree ----------------------------------------------
def tokens(node, lang, full):
    """-> (list of token strings, E) ; E = dict(i=token index, s=str cppcheck shows, k=[E..], cast=, sizeof=)
    in cppcheck's AST conventions (learned from the dump by experiment):
      cast       '(' token, isCast, one operand         call  '(' token, operand1 callee, operand2 arg | ',' node
      sizeof e   '(' token (inserted if absent) with operand1 = 'sizeof' token and operand2 = e
      a[i]       '[' token                              s.m / p->m  '.' token (originalName '->'), operand2 = m
      c?x:y      '?' token with operand2 = ':' token    prefix/postfix: one operand; parentheses: not in the tree"""
    out = []
    groups = {}          # index of a grouping '(' -> index of its ')'

    def put(s):
        out.append(s)
        return len(out) - 1

    def sub(ch, need):
        par = ch[0] != "L" and (full or level(ch) < need)
        if par:
            g = put("(")
        e = go(ch)
        if par:
            groups[g] = put(")")
        return e

    def go(n):
        k = n[0]
        if k == "L":
            return {"i": put(n[1]), "s": n[1], "k": []}
        if k == "B":
            op = n[1]
            lv = BINLV[op]
            if lv == 1:      # C: unary-expression assignment-operator assignment-expression ; C++: logical-or-expression
                ln, rn = (14 if lang == "c" else 3), 1
            elif lv == 0:
                ln, rn = 0, 1
            else:
                ln, rn = lv, lv + 1
            l = sub(n[2], ln)
            i = put(op)
            r = sub(n[3], rn)
            return {"i": i, "s": op, "k": [l, r]}
        if k == "P":
            op = n[1]
            i = put(op)
            if op == "sizeof":
                return {"i": i, "s": "sizeof", "k": [sub(n[2], 14)], "sizeof": True}
            if op in ("++", "--"):    # C: ++ unary-expression ; C++: ++ cast-expression
                return {"i": i, "s": op, "k": [sub(n[2], 14 if lang == "c" else 13)], "fix": "pre"}
            return {"i": i, "s": op, "k": [sub(n[2], 13)], "fix": "pre"}
        if k == "Q":
            c = sub(n[2], 15)
            return {"i": put(n[1]), "s": n[1], "k": [c], "fix": "post"}
        if k == "C":
            i = put("(")
            put("int")
            put(")")
            return {"i": i, "s": "(", "k": [sub(n[1], 13)], "cast": True}
        if k == "M":
            b = sub(n[2], 15)
            i = put(n[1])
            m = put("m")
            return {"i": i, "s": ".", "k": [b, {"i": m, "s": "m", "k": []}], "arrow": n[1] == "->"}
        if k == "I":
            b = sub(n[1], 15)
            i = put("[")
            x = sub(n[2], 0)
            put("]")
            return {"i": i, "s": "[", "k": [b, x]}
        if k == "F1":
            f = sub(n[1], 15)
            i = put("(")
            x = sub(n[2], 1)
            put(")")
            return {"i": i, "s": "(", "k": [f, x]}
        if k == "F2":
            f = sub(n[1], 15)
            i = put("(")
            x = sub(n[2], 1)
            c = put(",")
            y = sub(n[3], 1)
            put(")")
            return {"i": i, "s": "(", "k": [f, {"i": c, "s": ",", "k": [x, y]}]}
        if k == "T":
            c = sub(n[1], 3)
            q = put("?")
            x = sub(n[2], 0)
            col = put(":")
            y = sub(n[3], 2 if lang == "c" else 1)   # C: conditional-expression ; C++: assignment-expression
            return {"i": q, "s": "?", "k": [c, {"i": col, "s": ":", "k": [x, y]}]}
        raise ValueError(k)
    e = go(node)
    e["groups"] = groups
    return out, e


SPACED = set(BINLV) - {","} | {"?", ":"}


def layout(toks, kinds=None):
    """join tokens with natural spacing; never let two tokens merge into another token. -> (text, offsets)"""
    text = ""
    offs = []
    prev = None
    for j, t in enumerate(toks):
        sp = False
        if prev is not None:
            if (prev[-1].isalnum() or prev[-1] == "_") and (t[0].isalnum() or t[0] == "_"):
                sp = True
            elif prev[-1] in "+-&" and t[0] == prev[-1]:
                sp = True
            elif prev == ",":
                sp = True
            elif kinds[j] == "bin" or kinds[j - 1] == "bin":
                sp = True
        if sp:
            text += " "
        offs.append(len(text))
        text += t
        prev = t
    return text, offs


def render(node, lang, full, with_toks=False):
    toks, e = tokens(node, lang, full)
    kinds = [""] * len(toks)

    def mark(x):
        if len(x["k"]) == 2 and x["s"] in SPACED and not x.get("arrow") and x["s"] != ".":
            kinds[x["i"]] = "bin"
        for c in x["k"]:
            mark(c)
    mark(e)
    text, offs = layout(toks, kinds)
    if with_toks:
        return text, offs, e, toks
    return text, offs, e


# ---- comparison with the dump ---------------------------------------------------------------------------
def show_cpp(t, by_id, depth=0):
    """cppcheck's tree as text"""
    if depth > 40:
        return "..."
    s = t["str"] + ("@%s" % t["column"])
    kids = [by_id.get(t.get(a)) for a in ("astOperand1", "astOperand2") if t.get(a)]
    if not kids:
        return s
    return "%s[%s]" % (s, " ".join(show_cpp(k, by_id, depth + 1) if k else "?" for k in kids))


def show_exp(e, cols):
    s = "%s@%d" % (e["s"], cols[e["i"]])
    if e.get("sizeof"):
        return "([sizeof@%d %s]" % (cols[e["i"]], show_exp(e["k"][0], cols))
    if not e["k"]:
        return s
    return "%s[%s]" % (s, " ".join(show_exp(k, cols) for k in e["k"]))


def sign_normalise(e, toks, cols, bycol):
    """cppcheck's tokenizer rewrites sign operators before the AST is built (simplifyDoublePlusAndDoubleMinus:
    '+ -' => '-', '- -' => '+'; concatenateNegativeNumberAndAnyPositive: redundant unary '+' dropped, '- 1' => '-1').
    This is a token-level normal form, not tree building; it is accepted iff every maximal run of adjacent sign tokens
    (optionally ending in the number) keeps its sign product.  -> (rewritten tree, problems, changed?)"""
    role = {}

    def walk(x):
        if x["s"] in ("+", "-") and not x.get("sizeof") and (x.get("fix") == "pre" or len(x["k"]) == 2):
            role[x["i"]] = "un" if x.get("fix") == "pre" else "bin"
        elif not x["k"] and x["s"] == "1":
            role[x["i"]] = "num"
        for c in x["k"]:
            walk(c)
    walk(e)
    probs = []
    changed = False
    seq = [i for i in range(len(toks)) if not (toks[i] in ("(", ")") and cols[i] not in bycol)]   # removed parentheses do not separate
    n = len(seq)
    q = 0
    while q < n:
        i = seq[q]
        if role.get(i) not in ("un", "bin"):
            q += 1
            continue
        q2 = q
        while q2 + 1 < n and role.get(seq[q2 + 1]) == "un":
            q2 += 1
        run_ = seq[q:q2 + 1]
        if q2 + 1 < n and role.get(seq[q2 + 1]) == "num":
            run_.append(seq[q2 + 1])
        want = 1
        got = 1
        for k in run_:
            if role[k] != "num" and toks[k] == "-":
                want = -want
            t = bycol.get(cols[k])
            if t is None:
                if role[k] != "un":
                    probs.append("token %r at column %d missing in the dump" % (toks[k], cols[k]))
                changed = True
                continue
            if role[k] == "num":
                if t["str"] not in ("1", "-1"):
                    probs.append("number at column %d became %r" % (cols[k], t["str"]))
                if t["str"] != "1":
                    changed = True
                if t["str"].startswith("-"):
                    got = -got
            else:
                if t["str"] not in ("+", "-"):
                    probs.append("sign operator at column %d became %r" % (cols[k], t["str"]))
                if t["str"] != toks[k]:
                    changed = True
                if t["str"] == "-":
                    got = -got
        if want != got:
            probs.append("sign run starting at column %d: sign product changed" % cols[i])
        q = q2 + 1

    def rew(x):
        kids = [rew(c) for c in x["k"]]
        t = bycol.get(cols[x["i"]])
        if role.get(x["i"]) == "un" and t is None:
            return kids[0]
        y = dict(x)
        y["k"] = kids
        if role.get(x["i"]) in ("un", "bin", "num") and t is not None:
            y["s"] = t["str"]
        return y
    if not changed:
        return e, probs, False
    return rew(e), probs, True


def amp_arrow_normalise(e, toks, cols, bycol):
    """second token-level normal form of the tokenizer: `( & name ) -> m` is rewritten to `name . m`"""
    changed = [False]

    def rew(x):
        y = dict(x)
        y["k"] = [rew(c) for c in x["k"]]
        if y.get("arrow") and len(y["k"]) == 2:
            b = y["k"][0]
            if b["s"] == "&" and b.get("fix") == "pre" and not b["k"][0]["k"] and cols[b["i"]] not in bycol:
                t = bycol.get(cols[y["i"]])
                if t is not None and t.get("originalName") != "->":
                    y["k"] = [b["k"][0], y["k"][1]]
                    y["arrow"] = False
                    changed[0] = True
        return y
    r = rew(e)
    return (r, True) if changed[0] else (e, False)


def has_links(t):
    return bool(t.get("astParent") or t.get("astOperand1") or t.get("astOperand2"))


def compare(e, cols, ltoks, by_id, top=None):
    """-> list of problems (empty = isomorphic).  top = the `return` token in return context (parent of the root)."""
    bycol = {}
    for t in ltoks:
        c = int(t["column"])
        if c:
            bycol[c] = t
    probs = []
    used = set()
    top_id = top["id"] if top is not None else None
    if top is not None:
        used.add(top_id)
        if top.get("astOperand2") or top.get("astParent"):
            probs.append("'return' has a second operand or a parent")

    def root(x):
        t = bycol.get(cols[x["i"]])
        if t is None:
            probs.append("token %r at column %d missing in the dump" % (x["s"], cols[x["i"]]))
            return None
        if x.get("sizeof"):
            p = by_id.get(t.get("astParent"))
            if p is None or p["str"] != "(" or p.get("astOperand1") != t["id"]:
                probs.append("sizeof at column %d is not operand1 of a '(' node" % cols[x["i"]])
                return None
            return p
        return t

    def chk(x, parent_id):
        t = root(x)
        if t is None:
            return
        used.add(t["id"])
        if x.get("sizeof"):
            st = bycol[cols[x["i"]]]
            used.add(st["id"])
            if st.get("astOperand1") or st.get("astOperand2"):
                probs.append("sizeof token has operands")
            want = [None, x["k"][0]]
        else:
            if t["str"] != x["s"]:
                probs.append("token at column %s is %r, expected %r" % (t["column"], t["str"], x["s"]))
            if x.get("arrow") is not None and (t.get("originalName") == "->") != x["arrow"]:
                probs.append("member access token at column %s: originalName %r" % (t["column"], t.get("originalName")))
            if bool(x.get("cast")) != (t.get("isCast") == "true"):
                probs.append("'(' at column %s: isCast=%s, expected cast=%s" % (t["column"], t.get("isCast"), bool(x.get("cast"))))
            want = list(x["k"]) + [None] * (2 - len(x["k"]))
        if t.get("astParent") != parent_id:
            pt = by_id.get(t.get("astParent"))
            probs.append("parent of %r@%s is %s" % (t["str"], t["column"], "%r@%s" % (pt["str"], pt["column"]) if pt else None))
        for a, w in zip(("astOperand1", "astOperand2"), want):
            if x.get("sizeof") and a == "astOperand1":
                continue
            got = t.get(a)
            if w is None:
                if got:
                    g = by_id.get(got)
                    probs.append("%r@%s has unexpected %s %r" % (t["str"], t["column"], a, g and g["str"]))
                continue
            wt = root(w)
            if wt is None:
                continue
            if got != wt["id"]:
                g = by_id.get(got)
                probs.append("%s of %r@%s is %s, expected %r@%s" % (
                    a, t["str"], t["column"], ("%r@%s" % (g["str"], g["column"])) if g else None, wt["str"], wt["column"]))
            chk(w, t["id"])
    if top is not None:
        rt = root(e)
        if rt is not None and top.get("astOperand1") != rt["id"]:
            g = by_id.get(top.get("astOperand1"))
            probs.append("operand of 'return' is %s, expected %r@%s" % (("%r@%s" % (g["str"], g["column"])) if g else None, rt["str"], rt["column"]))
        chk(e, top_id)
    elif not e["k"] and not e.get("sizeof"):
        pass                                     # a lone operand as expression statement: no tree expected
    else:
        chk(e, None)
    for t in ltoks:
        if has_links(t) and t["id"] not in used:
            probs.append("token %r@%s carries AST links but is not part of the expression tree" % (t["str"], t["column"]))
            break
    return probs


IDENT = re.compile(r"[A-Za-z_]\w*$")
POSTFIX_STARTS = ("[", "(", ".", "->", "++", "--")


def classify(e, toks, cols, bycol, body, ctxt, full, lang):
    """Known defect classes of the pinned tree (see known_findings.json, property C07).  Each class is a narrow,
    observable trigger: a token-level symptom in the dump or a specific shape of the generating tree.  A mismatch that
    fires no trigger keeps its own key (language|context|printing|skeleton) and is reported as a VIOLATION."""
    nodes = []

    def walk(x, parent):
        nodes.append((x, parent))
        for c in x["k"]:
            walk(c, x)
    walk(e, None)
    # token-level symptoms ---------------------------------------------------------------------------------
    for x, _ in nodes:
        if x.get("cast") and x["i"] > 0 and toks[x["i"] - 1] in ("!", "*", "&") and cols[x["i"]] not in bycol:
            return "cast-parentheses-removed-after-not-star-amp"
    for i, t in enumerate(toks):
        if t == "&=" and cols[i] in bycol and bycol[cols[i]]["str"] == "&":
            return "and-assign-split-into-amp-and-assign"
    for i, t in enumerate(toks):
        if t == "," and cols[i] in bycol and bycol[cols[i]]["str"] == ";":
            return "comma-expression-split-like-a-declaration-list"
    for j, t in enumerate(body[:-1]):
        if t["str"] == "sizeof" and body[j + 1]["str"] in ("+", "-", "++", "--"):
            return "sizeof-unparenthesised-operand-begins-with-sign-or-incdec"
    for g, gc in e.get("groups", {}).items():
        t = bycol.get(cols[g])
        if t is not None and t.get("isCast") == "true":
            return "grouping-parenthesis-taken-as-cast"
        if t is None and cols[gc] not in bycol and gc + 1 < len(toks) and toks[gc + 1] == "=":
            b = g - 1
            while b >= 0 and toks[b] == "(" and cols[b] not in bycol:       # enclosing parentheses cppcheck removed as well
                b -= 1
            if b >= 0 and toks[b] == ",":
                return "parentheses-removed-between-comma-and-assignment"
    if ctxt == "stmt":
        surv0 = [i for i in range(len(toks)) if cols[i] in bycol]
        if len(surv0) >= 2 and IDENT.match(toks[surv0[0]]) and toks[surv0[1]] == ",":
            return "stmt-begins-with-identifier-comma"
    # shapes of the generating tree ------------------------------------------------------------------------
    for x, _ in nodes:
        if x.get("sizeof"):
            c = x["k"][0]
            nxt = toks[x["i"] + 1]
            if nxt == "(" and (c.get("fix") == "post" or (c["s"] in ("[", "(", ".") and not c.get("cast") and len(c["k"]) == 2)):
                return "sizeof-parenthesised-operand-followed-by-postfix-operator"
            if nxt != "(" and c.get("fix") == "pre" and c["k"][0].get("fix") == "pre":
                return "sizeof-unparenthesised-operand-is-chain-of-prefix-operators"
            if nxt == "sizeof":
                return "sizeof-of-unparenthesised-sizeof"
        if x["s"] == "*" and len(x["k"]) == 2 and x["k"][0].get("sizeof") and toks[x["k"][0]["i"] + 1] != "(" \
                and toks[x["i"] - 1] != ")":
            return "sizeof-unparenthesised-operand-followed-by-star"
        if x.get("fix") == "post" and x["k"][0].get("fix") == "post":
            return "postfix-incdec-applied-twice"
    for x, _ in nodes:
        if x["s"] == "(" and not x.get("cast") and len(x["k"]) == 2:
            c = x["k"][0]
            if c.get("fix") == "post":
                return "call-of-postfix-incdec-result"
        if x.get("arrow") and x["k"][0]["s"] == "(" and not x["k"][0].get("cast") and len(x["k"][0]["k"]) == 2:
            arg = x["k"][0]["k"][1]
            if arg["s"] == "&" and arg.get("fix") == "pre" and not arg["k"][0]["k"] and cols[arg["i"]] not in bycol:
                return "amp-arrow-simplification-applied-to-call-parentheses"
        if x.get("fix") == "pre" and x["s"] in ("++", "--") and toks[x["i"] + 1] in ("+", "-", "!", "~", "&"):
            return "prefix-incdec-directly-followed-by-unary-operator"
    if lang == "cpp":
        for i in range(len(toks) - 3):
            if IDENT.match(toks[i]) and toks[i + 1] in ("*", "&", "&&") and IDENT.match(toks[i + 2]) and toks[i + 3] == "=":
                return "cpp-binary-star-amp-before-assignment-taken-as-declaration"
    if ctxt == "stmt":
        surv = [i for i in range(len(toks)) if cols[i] in bycol]
        if len(surv) >= 2 and IDENT.match(toks[surv[0]]) and toks[surv[1]] in ("*", "&"):
            return "stmt-begins-like-pointer-or-reference-declaration"
        if len(surv) >= 3 and IDENT.match(toks[surv[0]]) and toks[surv[1]] == "(" and toks[surv[2]] == "*":
            return "stmt-begins-like-function-pointer-declaration"
    return None


def judge(e, toks, cols, body, by_id, ctxt, full, lang):
    """-> (problems, info) ; info: sign_normalised / amp_arrow_normalised / class (known defect class)"""
    info = {}
    top = None
    if ctxt == "ret":
        top = body[0] if body and body[0]["str"] == "return" else None
        if top is None:
            return ["no 'return' token"], info
    bycol = {int(t["column"]): t for t in body if int(t["column"])}
    e1, probs, ch = sign_normalise(e, toks, cols, bycol)
    if ch:
        info["sign_normalised"] = True
    e1, ch = amp_arrow_normalise(e1, toks, cols, bycol)
    if ch:
        info["amp_arrow_normalised"] = True
    probs = probs + compare(e1, cols, body, by_id, top)
    if probs:
        k = classify(e, toks, cols, bycol, body, ctxt, full, lang)
        if k:
            info["class"] = k
    return probs, info


# ---- batches ---------------------------------------------------------------------------------------------
def run_batch(lang, ctxt, items):
    """items: list of (node, full) ; ctxt 'stmt' (expression statement) | 'ret' (operand of return)
       -> list aligned with items: ('rejected', id, msg) | ('ok', problems, text, cppcheck tree, expected tree, info)"""
    hdr = HDR_C if lang == "c" else HDR_CPP
    fn = "t.c" if lang == "c" else "t.cpp"
    rend = []
    lines = []
    for j, (node, full) in enumerate(items):
        text, offs, e, toks = render(node, lang, full, True)
        pre = ("void f%d(void){ " if ctxt == "stmt" else "int f%d(void){ return ") % j
        cols = [len(pre) + o + 1 for o in offs]
        rend.append((text, cols, e, toks))
        lines.append(pre + text + "; }")
    res = [None] * len(items)
    nruns = 0
    flaky = 0
    with run.WS() as ws:
        while True:
            ws.write(fn, hdr + "\n".join(lines) + "\n")
            ws.remove(fn + ".dump")
            r = dumpx.cppcheck_retry(["-q", "--dump", "--check-level=reduced", fn], ws.dir, timeout=600)
            nruns += 1
            d = dumpx.parse(ws.path(fn + ".dump"), min_line=HDR_LINES + 1) if os.path.exists(ws.path(fn + ".dump")) else None
            if d is not None and d.tokens:
                break
            diags = [x for x in dumpx.diagnostics(r.text_err()) if x[3] == "error"]
            progressed = False
            for (_f, ln, _c, _sev, msg, did) in diags:
                j = ln - HDR_LINES - 1
                if 0 <= j < len(items) and res[j] is None:
                    res[j] = ("rejected", did, msg)
                    lines[j] = ""
                    progressed = True
            if not progressed:
                if all(x is not None for x in res):
                    return res, nruns
                flaky += 1
                if flaky <= 10 and not diags:      # no dump, no diagnostic: the binary is being relinked by another check
                    import time
                    time.sleep(3)
                    continue
                raise RuntimeError("cppcheck produced no dump and no usable diagnostic: rc=%s %s" % (r.rc, r.text_err()[:500]))
        bl = d.lines()
        for j in range(len(items)):
            if res[j] is not None:
                continue
            text, cols, e, toks = rend[j]
            lt = bl.get(j + HDR_LINES + 1, [])
            body = []                 # tokens after the '{' of the one-line function
            seen_brace = False
            for t in lt:
                if not seen_brace:
                    if t["str"] == "{":
                        seen_brace = True
                    continue
                body.append(t)
            probs, info = judge(e, toks, cols, body, d.by_id, ctxt, items[j][1], lang)
            rt = [t for t in body if (t.get("astOperand1") or t.get("astOperand2")) and not t.get("astParent")]
            cpp = " | ".join(show_cpp(t, d.by_id) for t in rt) or "(no tree)"
            res[j] = ("ok", probs, text, cpp, show_exp(e, cols), info, " ".join(t["str"] for t in body))
    return res, nruns


# ---- clang as referee for the printer -------------------------------------------------------------------
def norm_tree(n):
    k = n[0]
    if k == "L":
        return ("L", n[1])
    if k == "B":
        return ("B", n[1], norm_tree(n[2]), norm_tree(n[3]))
    if k in ("P", "Q"):
        return (k, n[1], norm_tree(n[2]))
    if k == "C":
        return ("C", norm_tree(n[1]))
    if k == "M":
        return ("M", n[1], norm_tree(n[2]))
    return (k,) + tuple(norm_tree(c) for c in n[1:])


SKIP = {"ImplicitCastExpr", "ParenExpr", "ExprWithCleanups", "MaterializeTemporaryExpr", "CXXBindTemporaryExpr",
        "ConstantExpr", "CXXFunctionalCastExpr"}


def from_clang(j):
    k = j.get("kind")
    inner = j.get("inner", [])
    if k in SKIP:
        return from_clang(inner[0])
    if k in ("BinaryOperator", "CompoundAssignOperator"):
        return ("B", j["opcode"], from_clang(inner[0]), from_clang(inner[1]))
    if k == "UnaryOperator":
        return ("Q" if j.get("isPostfix") else "P", j["opcode"], from_clang(inner[0]))
    if k == "CStyleCastExpr":
        return ("C", from_clang(inner[0]))
    if k == "ConditionalOperator":
        return ("T",) + tuple(from_clang(c) for c in inner[:3])
    if k == "CallExpr":
        return ("F%d" % (len(inner) - 1),) + tuple(from_clang(c) for c in inner)
    if k == "ArraySubscriptExpr":
        return ("I", from_clang(inner[0]), from_clang(inner[1]))
    if k == "MemberExpr":
        return ("M", "->" if j.get("isArrow") else ".", from_clang(inner[0]))
    if k == "UnaryExprOrTypeTraitExpr":
        if j.get("name") == "sizeof" and inner:
            return ("P", "sizeof", from_clang(inner[0]))
        return ("?", "sizeof-type")
    if k == "DeclRefExpr":
        return ("L", j["referencedDecl"]["name"])
    if k == "IntegerLiteral":
        return ("L", j["value"])
    return ("?", k)


def clang_validate(lang, nodes):
    """-> list aligned with nodes: None (clang reports an error for the function) | (ok, clang tree)"""
    hdr = HDR_C if lang == "c" else HDR_CPP
    fn = "v.c" if lang == "c" else "v.cpp"
    lines = []
    for j, n in enumerate(nodes):
        text, _, _ = render(n, lang, False)
        lines.append("void f%d(void){ %s; }" % (j, text))
    with run.WS({fn: hdr + "\n".join(lines) + "\n"}) as ws:
        p = subprocess.run(["clang++" if lang == "cpp" else "clang", "-fsyntax-only", "-w", "-ferror-limit=0",
                            "-std=c++17" if lang == "cpp" else "-std=c17",
                            "-Xclang", "-ast-dump=json", fn], cwd=ws.dir, stdout=subprocess.PIPE, stderr=subprocess.PIPE)
    bad = set(int(m.group(1)) for m in re.finditer(r"^[^:\n]+:(\d+):\d+: (?:fatal )?error:", p.stderr.decode("utf-8", "replace"), re.M))
    try:
        ast = json.loads(p.stdout.decode("utf-8", "replace"))
    except ValueError:
        return [None] * len(nodes)
    out = [None] * len(nodes)
    for d in ast.get("inner", []):
        if d.get("kind") != "FunctionDecl" or not re.fullmatch(r"f\d+", d.get("name", "")) or "inner" not in d:
            continue
        j = int(d["name"][1:])
        if j + HDR_LINES + 1 in bad:
            continue
        body = [x for x in d["inner"] if x.get("kind") == "CompoundStmt"]
        if not body or len(body[0].get("inner", [])) != 1:
            continue
        got = from_clang(body[0]["inner"][0])
        out[j] = (got == norm_tree(nodes[j]), got)
    return out


# ---- main ------------------------------------------------------------------------------------------------
def all_trees(nmax, full_alphabet, nmin=1):
    H = heads(full_alphabet)
    memo = {}
    for n in range(nmin, nmax + 1):
        for t in trees(n, H, memo):
            yield n, fill(t)


def chunks(it, n):
    buf = []
    for x in it:
        buf.append(x)
        if len(buf) == n:
            yield buf
            buf = []
    if buf:
        yield buf


def tuple_of(x):
    return tuple(tuple_of(y) for y in x) if isinstance(x, list) else x


def work(job):
    """one batch in a worker process: 2 printings x len(nodes) functions in one cppcheck run (+ reruns on rejects)"""
    import time
    kind, lang, ctxt, nodes, deadline = job
    if time.time() > deadline:
        return None
    if kind == "clang":
        return clang_validate(lang, nodes)
    items = [(n, full) for n in nodes for full in (False, True)]
    res, nruns = run_batch(lang, ctxt, items)
    out = []
    for r in res:
        if r[0] == "rejected":
            out.append(r)
        elif not r[1]:
            out.append(("ok", None, r[2], None, r[4], r[5]))       # keep it small
        else:
            out.append(r)
    return out, nruns


def main(tier, replay=None):
    ctx = Ctx("C07", tier, "model_checking", 170 if tier == "quick" else 1700, replay)
    build.build("plain")
    if replay:
        a = replay["artefact"]
        node = tuple_of(a["tree"])
        for full in (False, True):
            res, _ = run_batch(a["lang"], a["ctxt"], [(node, full)])
            r = res[0]
            print("language", a["lang"], "| context", a["ctxt"], "| printing", "full" if full else "minimal")
            if r[0] == "rejected":
                print("  rejected:", r[1], r[2])
                continue
            print("  text     :", r[2])
            print("  tokens   :", r[6])
            print("  expected :", r[4])
            print("  observed :", r[3])
            print("  problems :", r[1] or "none", r[5])
        return 0

    from concurrent.futures import ProcessPoolExecutor
    from vlib.core import NCPU
    BATCH = 400        # trees per run (two printings each => 800 one-line functions)
    plans = [("full alphabet", 1, 2, True)]
    if tier != "quick":
        plans.append(("class representatives", 3, 3, False))
    seen = set()
    rejected_samples = []
    nruns = 0
    with ProcessPoolExecutor(max_workers=min(NCPU, 16)) as ex:
        for title, nmin, nmax, fa in plans:
            batches = list(chunks((t for _, t in all_trees(nmax, fa, nmin) if t not in seen), BATCH))
            jobs = []
            for b in batches:
                for lang in ("c", "cpp"):
                    jobs.append(("clang", lang, None, b, ctx.deadline))
                    for ctxt in ("stmt", "ret"):
                        jobs.append(("cppcheck", lang, ctxt, b, ctx.deadline))
            ntrees = 0
            for job, out in zip(jobs, ex.map(work, jobs)):
                kind, lang, ctxt, nodes, _ = job
                if out is None:
                    ctx.capped = True
                    continue
                if kind == "clang":
                    for node, v in zip(nodes, out):
                        if v is None:
                            ctx.bump("printer_validation_clang_rejects_expression")
                        elif v[0]:
                            ctx.bump("printer_validated_by_clang")
                        else:
                            ctx.violation("printer|%s|%s" % (lang, skeleton(node)),
                                          "the minimal-parenthesis printer is wrong: `%s` is parsed by clang as %s" % (
                                              render(node, lang, False)[0], v[1]), {"lang": lang, "ctxt": "stmt", "tree": node, "clang": v[1]})
                    continue
                res, nr = out
                nruns += nr
                for bi, node in enumerate(nodes):
                    if lang == "c" and ctxt == "stmt":
                        seen.add(node)
                        ntrees += 1
                    rmin, rfull = res[2 * bi], res[2 * bi + 1]
                    sk = skeleton(node)
                    for mode, r in (("min", rmin), ("full", rfull)):
                        ctx.count()
                        if r[0] == "rejected":
                            ctx.bump("rejected_%s" % r[1])
                            if len(rejected_samples) < 12 and not any(x["tree"] == sk for x in rejected_samples):
                                rejected_samples.append({"lang": lang, "ctxt": ctxt, "mode": mode, "tree": sk, "id": r[1],
                                                         "text": render(node, lang, mode == "full")[0]})
                            continue
                        ctx.bump("accepted_ast")
                        ctx.distinct("%s|%s|%s|%s" % (lang, ctxt, mode, sk))
                        info = r[5]
                        if info.get("sign_normalised"):
                            ctx.bump("accepted_modulo_sign_normal_form")
                        if info.get("amp_arrow_normalised"):
                            ctx.bump("accepted_modulo_amp_arrow_normal_form")
                        if r[1]:
                            key = info.get("class") or "%s|%s|%s|%s" % (lang, ctxt, mode, sk)
                            if info.get("class"):
                                ctx.bump("known_class_" + info["class"])
                            ctx.violation(key, "%s, %s context, %s printing: `%s` -- cppcheck AST %s, grammar gives %s (%s)" % (
                                lang, ctxt, mode, r[2], r[3], r[4], r[1][0]),
                                {"lang": lang, "ctxt": ctxt, "tree": node, "text": r[2], "observed": r[3], "expected": r[4],
                                 "problems": r[1][:6]})
                    if rmin[0] == "ok" and rfull[0] == "ok" and not rmin[1] and not rfull[1]:
                        ctx.bump("both_printings_same_tree")
                        if level(node) < 12 and len(rmin[2]) < len(rfull[2]) and node[0] == "B" and node[2][0] != "L":
                            ctx.sample({"lang": lang, "context": ctxt, "minimal": rmin[2], "full": rfull[2], "tree": rmin[4]}, maxn=5)
            ctx.cov["trees, %s, %d<=n<=%d" % (title, nmin, nmax)] = ntrees
    ctx.cov["rejected_samples"] = rejected_samples
    ctx.cov["cppcheck_runs"] = nruns
    ctx.cov.update({"states": len(seen), "transitions": ctx.evaluations})
    ctx.assumptions = [
        "cppcheck's AST conventions (cast/call/sizeof as '(' nodes, '?' with a ':' child, '->' shown as '.', call arguments "
        "chained by ',' nodes) are a representation, not judged; f(x,y) and f((x,y)) map to the same cppcheck tree",
        "tokens are matched by source column, so operand order, prefix/postfix and unary/binary are checked exactly",
        "token-level normal forms applied by the tokenizer before the AST exists are accepted when they provably keep the "
        "meaning: sign runs ('+ -'=>'-', '- -'=>'+', unary '+' dropped, '- 1'=>'-1'; the sign product of every run is "
        "checked) and '(&x)->m' => 'x.m'; the tree is then judged on the surviving tokens",
        "C mode uses the C grammar (assignment lhs = unary-expression, third ?: operand = conditional-expression), "
        "C++ mode the C++ grammar (lhs = logical-or-expression, third operand = assignment-expression)",
        "expressions cppcheck rejects (syntaxError / internalAstError) are counted, not judged",
        "--check-level=reduced is passed to shorten value flow; the AST is built before and independently of it"]
    return ctx.finish(rule="all trees with n operator nodes (leaves chosen by context: callee f, '.' on s, '->' on ps, "
                           "'*' and '[' on p, lvalue positions a/b, otherwise a,b,1 in rotation) x {C, C++} x {expression "
                           "statement, operand of return} x {minimal, full} parenthesisation; distinct = (language, context, "
                           "printing, operator skeleton) with an accepted AST; vacuous = rejected by cppcheck")
