"""C16 -- the thread executor is free of data races.

Engine S on the ThreadSanitizer build (g++): the real thread executor runs under native/vsched.c, which serialises
the threads with raw futexes in an uninstrumented library, so TSan's happens-before relation contains only the
program's own synchronisation.  TSan is thereby a per-schedule oracle (it reports two conflicting accesses that
the program's locks do not order even when they were executed far apart) and the schedules are enumerated: all
schedules with <= bound preemptions at lock / create / join / once / static-guard / thread-exit points."""
import re, time
from vlib import build, explore, par
from vlib.core import Ctx, sha

INFO = "--enable=warning,style,performance,portability,information"
RE_RACE = re.compile(r"WARNING: ThreadSanitizer: ([^\n(]+)")
RE_FRAME = re.compile(r"^\s+#\d+ (\S+)", re.M)
TSAN = {"TSAN_OPTIONS": "halt_on_error=0 exitcode=0 report_signal_unsafe=0 history_size=4 second_deadlock_stack=0 report_thread_leaks=0"}


def scenarios(tier):
    S = par.Scenario
    out = [
        S(["H1", "H2"], []),                                   # duplicate filter, shared header
        S(["SI", "SU"], ["--inline-suppr"]),                   # inline suppressions added by two workers
        S(["HS1", "HS2"], ["--inline-suppr"]),                 # same header suppression from two workers
        S(["E", "E2"], ["--suppress=zerodiv", "--suppress=arrayIndexOutOfBounds:e.c"]),   # global state update
        S(["E", "OK"], ["--showtime=summary"]),                # timers
        (S(["E", "H1"], ["--showtime=file"]), 0),              # ~1000 choice points: default schedules only in quick (TSan's
        (S(["E", "OK"], ["--showtime=top5_file"]), 0),         # happens-before oracle needs no physical overlap)
        S(["E", "E2"], ["--library=posix", "--library=gnu"]),  # library data
        S(["Y", "E"], ["--error-exitcode=3"]),                 # critical errors
        S(["SB", "SM"], ["--inline-suppr", "--enable=style"]),
        # findings whose messages contain non-printable bytes, written to the build-dir cache by the workers themselves
        (S(["X", "X2"], ["--enable=style"], builddir=True), 0),   # ~770 choice points (build dir => checker log messages):
    ]                                                               # default schedules in quick, all 1-preemption schedules in thorough
    if tier == "thorough":
        out += [
            S(["HU1", "HU2"], ["--inline-suppr", INFO]),

            S(["E", "H1", "H2"], [INFO, "--suppress=arrayIndexOutOfBounds:hdr.h"]),
            S(["E", "OK"], ["--showtime=top5_summary"]),
            S(["X", "XN"], ["--enable=style", "--output-file=out.txt"]),
            S(["ST", "OK"], ["--enable=all", "--inconclusive"]),
        ]
    # normalise to (scenario, bound-or-None)
    return [x if isinstance(x, tuple) else (x, None) for x in out]


def reports(err):
    txt = err.decode("utf-8", "replace")
    out = []
    for m in RE_RACE.finditer(txt):
        kind = m.group(1).strip()
        seg = txt[m.end():m.end() + 4000]
        frames = [f for f in RE_FRAME.findall(seg)[:12] if not f.startswith(("operator", "__tsan", "__interceptor"))]
        out.append((kind, tuple(frames[:3])))
    return out


def main(tier, replay=None, only=None):
    ctx = Ctx("C16", tier, "model_checking", 1500 if tier == "quick" else 5400, replay)
    build.build("tsan")
    explore.shim()
    bound = 1 if tier == "quick" else 2
    jobs_list = [2] if tier == "quick" else [2, 3]
    import os
    if only is None and os.environ.get("VERIF_C16_ONLY"):
        only = int(os.environ["VERIF_C16_ONLY"])
    if replay:
        a = replay["artefact"]
        sc = par.Scenario(a["letters"], a["opts"]).setup()
        srv = explore.Server(sc.args(a["jobs"], "thread"), sc.ws.dir, "t", variant="tsan", env=TSAN)
        x = srv.run([tuple(p) for p in a["prefix"]])
        srv.close()
        print(x.res.text_err()[-6000:])
        sc.close()
        return 1 if reports(x.res.err) or x.flag else 0
    per = []
    execs = points = 0
    for sc, sbound in (scenarios(tier) if only is None else scenarios(tier)[only:only + 1]):
        # scenarios with ~1000 choice points carry their own bound: default schedules in quick, one preemption in thorough
        sb = bound if sbound is None else (sbound if tier == "quick" else sbound + 1)
        if ctx.expired():
            break
        sc.setup()
        try:
            for jobs in jobs_list:
                def factory(sc=sc, jobs=jobs):
                    bd = sc.fresh_bdir()
                    srv = explore.Server(sc.args(jobs, "thread", bd), sc.ws.dir, "t", variant="tsan", env=TSAN)
                    if bd:      # every schedule must start from the same build-dir state: drop what the previous run cached
                        import glob, os
                        srv.pre_run = lambda bd=bd: [os.unlink(f) for f in glob.glob(os.path.join(bd, "*"))
                                                     if not f.endswith("files.txt")]
                    return srv
                pool = explore.ServerPool(factory)
                st = explore.Stats()

                def visit(x, sc=sc, jobs=jobs, pool=pool):
                    reps = reports(x.res.err)
                    if x.flag and not x.flag.startswith("DIVERGE"):
                        ctx.violation("sched:" + x.flag.split()[0], "%s -j%d: %s" % (sc.name, jobs, x.flag),
                                      {"letters": sc.letters, "opts": sc.opts, "jobs": jobs, "prefix": x.choices(), "flag": x.flag})
                    elif reps:
                        y = pool.run(x.choices())      # replay before believing
                        if not reports(y.res.err):
                            ctx.bump("unreproduced_reports")
                        else:
                            kind, frames = reps[0]
                            ctx.violation("race:%s:%s" % (kind, "|".join(frames[:2])),
                                          "%s -j%d: ThreadSanitizer %s at %s" % (sc.name, jobs, kind, " <- ".join(frames)),
                                          {"letters": sc.letters, "opts": sc.opts, "jobs": jobs, "prefix": x.choices(),
                                           "report": x.res.text_err()[-5000:]})
                    return sha([sorted(x.res.err.decode("latin1").splitlines()), len(reps)])
                explore.explore(pool.run, sb, visit, stats=st, deadline=ctx.deadline)
                pool.close()
                print("  %-60s -j%d schedules=%d %.0fs" % (sc.name[:60], jobs, st.execs, ctx.budget_s - ctx.time_left()), flush=True)
                if st.capped:
                    ctx.capped = True
                execs += st.execs
                points += st.points
                for h in st.harness_errors:
                    ctx.bump("harness_divergences")
                per.append({"bound": sb, "scenario": sc.name, "jobs": jobs, "schedules": st.execs, "by_preemptions": dict(st.by_cost),
                            "choice_points_max": st.max_points, "distinct_outputs": len(st.outcomes)})
                ctx.distinct("%s|%d" % (sc.name, jobs))
        finally:
            sc.close()
    ctx.cov.update({"states": max(1, points), "transitions": max(1, points), "traces_validated_against_impl": execs,
                    "evaluations": execs, "scenarios": len(per), "preemption_bound": bound, "per_scenario": per})
    ctx.samples = per[:5]
    ctx.assumptions = ["sequential consistency; races are judged by ThreadSanitizer's happens-before over the program's own "
                       "pthread synchronisation on each enumerated schedule (scheduler hand-off is invisible to TSan)",
                       "scheduling points: pthread_mutex_lock/trylock, pthread_create, pthread_join, pthread_once, "
                       "__cxa_guard_acquire, thread exit"]
    return ctx.finish(rule="scenario x job count; all schedules with <= %d preemptions of the real thread executor (tsan build); "
                           "every schedule is one complete run judged by TSan; nontrivial = distinct (scenario, jobs)" % bound)
