"""C06 -- typedef, alias, macro and template expansion is transparent.

An abstract program = a set S of <= 2 placeholders out of {T: typedef/using of a type, K: object-like macro constant,
M: function-like macro SQ(x), F: function template id<T> with explicit instantiation, B: class template Box<T> with
explicit instantiation} x a list of <= 2 (quick) / 3 (thorough) uses out of the value-relevant positions {initialiser,
condition, array index, call argument, member access, sizeof, cast}.  Every abstract program is printed once per
expansion mask (each placeholder either kept or replaced by its hand-written expansion); every pair of forms that
differs in exactly ONE expansion is compared:
  * findings on the using code (everything outside the declaration region of the placeholders) must be equal modulo
    the line offset of the removed declaration (and the column shift on the line of the expansion),
  * the Known / Impossible value-flow facts of --dump on corresponding tokens of the using code must be equal
    (tokens are aligned line by line: common token prefix / suffix of the two printed lines; the changed middle part
    is the expansion itself and is ignored unless it is a single token on both sides).
Many forms are analysed by one run of the real binary (findings and dump come from the same run).
"""
import collections, itertools, os, re, subprocess
import xml.etree.ElementTree as ET
from vlib import build, run
from vlib.core import Ctx, sha
from vlib import c05_rewrite as rwm

OPTS = ["-q", "--enable=style", "--inconclusive", "--emit-duplicates", "--dump"]
OPTS_ISOLATED = ["-q", "--enable=style", "--inconclusive", "--dump"]
WHOLE = ("unusedFunction", "checkersReport")
# whole-program check over all files of a run: the forms of a batch define the same struct names differently
BATCH_WHOLE = ("ctuOneDefinitionRuleViolation",)
BATCH = 160
MARK = "/* using code */"

TYPES = collections.OrderedDict([
    ("schar", ("signed char", "scalar")), ("uchar", ("unsigned char", "scalar")), ("short", ("short", "scalar")),
    ("int", ("int", "scalar")), ("long", ("long", "scalar")), ("ptr", ("int *", "ptr")), ("arr", ("int[3]", "arr")),
    ("struct", ("struct Rec", "struct")),
])
SCALARS = ["schar", "uchar", "short", "int", "long"]
KVALUES = [0, 3, 4, 300]
POSITIONS = ["init", "cond", "index", "callarg", "member", "sizeof", "cast"]


# ---- placeholders ------------------------------------------------------------------------------------------
def placeholders(lang):
    out = []
    for how in (("typedef", "using") if lang == "cpp" else ("typedef",)):
        for t in TYPES:
            out.append(("T", (how, t)))
    for v in KVALUES:
        out.append(("K", v))
    out.append(("M", None))
    if lang == "cpp":
        for t in SCALARS:
            out.append(("F", t))
        for t in SCALARS:
            out.append(("B", t))
    return out


def decl_lines(kind, par, expanded):
    if kind == "T":
        how, t = par
        sp = TYPES[t][0]
        if expanded:
            return []
        if how == "typedef":
            return ["typedef int T1[3];"] if t == "arr" else ["typedef %s T1;" % sp]
        return ["using T1 = %s;" % sp]
    if kind == "K":
        return [] if expanded else ["#define K1 %d" % par]
    if kind == "M":
        return [] if expanded else ["#define SQ(x) ((x)*(x))"]
    sp = TYPES[par][0]
    if kind == "F":
        if expanded:
            return ["%s id_x(%s x) { return x; }" % (sp, sp)]
        return ["template<class T> T id(T x) { return x; }", "template %s id<%s>(%s);" % (sp, sp, sp)]
    if kind == "B":
        if expanded:
            return ["struct Box_x { %s val; %s get() const { return val; } };" % (sp, sp)]
        return ["template<class T> struct Box { T val; T get() const { return val; } };",
                "template struct Box<%s>;" % sp]
    raise ValueError(kind)


class R:
    """renders the slots of one use for a placeholder set S and an expansion mask."""

    def __init__(self, S, mask, use_t, use_b):
        self.S, self.mask, self.use_t, self.use_b = S, mask, use_t, use_b

    def cls(self):
        if self.use_t:
            return TYPES[self.S["T"][1]][1]
        if self.use_b:
            return "box"
        return "scalar"

    def decl(self, name):
        if self.use_t:
            t = self.S["T"][1]
            if not self.mask["T"]:
                return "T1 " + name
            sp, c = TYPES[t]
            return "int %s[3]" % name if c == "arr" else "%s %s" % (sp, name)
        if self.use_b:
            return ("Box_x " if self.mask["B"] else "Box<%s> " % TYPES[self.S["B"]][0]) + name
        return "int " + name

    def tyname(self):
        if self.use_t:
            return TYPES[self.S["T"][1]][0] if self.mask["T"] else "T1"
        if self.use_b:
            return "Box_x" if self.mask["B"] else "Box<%s>" % TYPES[self.S["B"]][0]
        return "int"

    def k(self, default):
        if "K" in self.S:
            return str(self.S["K"]) if self.mask["K"] else "K1"
        return str(default)

    def w(self, e):
        if "F" in self.S:
            e = ("id_x(%s)" if self.mask["F"] else "id<%s>(%%s)" % TYPES[self.S["F"]][0]) % e
        if "M" in self.S:
            e = ("((%s)*(%s))" % (e, e)) if self.mask["M"] else "SQ(%s)" % e
        return e


def use_lines(r, pos, i):
    """source lines of use number i (one statement per line) or None if the position does not apply."""
    c = r.cls()
    x, a, h = "x%d" % i, "a%d" % i, "h%d" % i
    pre, body = [], None
    A = "int %s[4] = {0};" % a
    if c == "scalar":
        if pos == "init":
            body = [A, "%s = %s;" % (r.decl(x), r.w(r.k(300))), "return %s[%s];" % (a, x)]
        elif pos == "cond":
            body = ["%s = %s;" % (r.decl(x), r.k(3)), "if (%s == %s) {" % (r.w(x), r.k(3)), "return 1;", "}", "return 0;"]
        elif pos == "index":
            body = [A, "%s = %s;" % (r.decl(x), r.k(4)), "%s[%s] = 1;" % (a, r.w(x)), "return %s[0];" % a]
        elif pos == "callarg":
            body = ["%s = %s;" % (r.decl(x), r.k(0)), "return callee(%s);" % r.w(x)]
        elif pos == "member":
            pre = ["struct Hold%d {" % i, "%s;" % r.decl("fld"), "int oth;", "};"]
            body = [A, "struct Hold%d %s;" % (i, h), "%s.oth = 0;" % h, "%s.fld = %s;" % (h, r.w(r.k(4) + " - 2")),
                    "return %s[%s.fld] + %s.oth;" % (a, h, h)]
        elif pos == "sizeof":
            body = [A, "return %s[sizeof(%s) + %s];" % (a, r.tyname(), r.w(r.k(1)))]
        elif pos == "cast":
            body = [A, "int y%d = (%s)%s;" % (i, r.tyname(), r.w(r.k(300))), "return %s[y%d];" % (a, i)]
    elif c == "ptr":
        if pos == "init":
            body = ["int z%d = %s;" % (i, r.k(0)), "%s = &z%d;" % (r.decl(x), i), "return 100 / %s;" % r.w("*" + x)]
        elif pos == "cond":
            body = ["%s = 0;" % r.decl(x), "if (%s == 0) {" % x, "return %s;" % r.w(r.k(3)), "}", "return *%s;" % x]
        elif pos == "index":
            body = [A, "%s = %s;" % (r.decl(x), a), "%s[%s] = 1;" % (x, r.w(r.k(4))), "return %s[0];" % a]
        elif pos == "callarg":
            body = ["%s = 0;" % r.decl(x), "return deref(%s) + %s;" % (x, r.w(r.k(1)))]
        elif pos == "member":
            pre = ["struct Hold%d {" % i, "%s;" % r.decl("fld"), "int oth;", "};"]
            body = ["struct Hold%d %s;" % (i, h), "%s.oth = %s;" % (h, r.w(r.k(1))), "%s.fld = 0;" % h,
                    "return *%s.fld + %s.oth;" % (h, h)]
        elif pos == "sizeof":
            body = [A, "return %s[sizeof(%s) + %s];" % (a, r.tyname(), r.w(r.k(1)))]
        elif pos == "cast":
            body = ["%s = (%s)0;" % (r.decl(x), r.tyname()), "return *%s + %s;" % (x, r.w(r.k(1)))]
    elif c == "arr":
        if pos == "init":
            body = ["%s = {1, 2, 3};" % r.decl(x), "return %s[%s];" % (x, r.w(r.k(3)))]
        elif pos == "cond":
            body = ["%s = {1, 2, 3};" % r.decl(x), "if (%s[0] == 1) {" % x, "return %s;" % r.w(r.k(3)), "}", "return 0;"]
        elif pos == "index":
            body = ["%s;" % r.decl(x), "%s[0] = 0;" % x, "%s[%s] = 1;" % (x, r.w(r.k(3))), "return %s[0];" % x]
        elif pos == "callarg":
            body = ["%s = {0, 0, 0};" % r.decl(x), "return callee(%s[0]) + %s;" % (x, r.w(r.k(1)))]
        elif pos == "member":
            pre = ["struct Hold%d {" % i, "%s;" % r.decl("fld"), "int oth;", "};"]
            body = ["struct Hold%d %s;" % (i, h), "%s.oth = 0;" % h, "%s.fld[0] = 0;" % h,
                    "%s.fld[%s] = 1;" % (h, r.w(r.k(3))), "return %s.fld[0] + %s.oth;" % (h, h)]
        elif pos == "sizeof":
            body = [A, "return %s[sizeof(%s) + %s];" % (a, r.tyname(), r.w(r.k(1)))]
    elif c == "struct":
        if pos == "init":
            body = [A, "%s = {%s, 0};" % (r.decl(x), r.w(r.k(4))), "return %s[%s.m] + %s.n;" % (a, x, x)]
        elif pos == "cond":
            body = ["%s;" % r.decl(x), "%s.n = 0;" % x, "%s.m = %s;" % (x, r.k(3)),
                    "if (%s == %s) {" % (r.w(x + ".m"), r.k(3)), "return 1;", "}", "return %s.n;" % x]
        elif pos == "index":
            body = [A, "%s;" % r.decl(x), "%s.n = 0;" % x, "%s.m = %s;" % (x, r.k(4)),
                    "%s[%s] = 1;" % (a, r.w(x + ".m")), "return %s[0] + %s.n;" % (a, x)]
        elif pos == "callarg":
            body = ["%s;" % r.decl(x), "%s.n = 0;" % x, "%s.m = %s;" % (x, r.k(0)),
                    "return callee(%s) + %s.n;" % (r.w(x + ".m"), x)]
        elif pos == "member":
            body = [A, "%s;" % r.decl(x), "%s.m = %s;" % (x, r.w(r.k(4))), "%s.n = %s.m;" % (x, x),
                    "return %s[%s.n];" % (a, x)]
        elif pos == "sizeof":
            body = [A, "return %s[sizeof(%s) + %s];" % (a, r.tyname(), r.w(r.k(1)))]
    elif c == "box":
        if pos == "init":
            body = [A, "%s = { 0 };" % r.decl(x), "return %s[%s.val + %s];" % (a, x, r.w(r.k(4)))]
        elif pos == "cond":
            body = ["%s;" % r.decl(x), "%s.val = %s;" % (x, r.k(3)), "if (%s == %s) {" % (r.w(x + ".val"), r.k(3)),
                    "return 1;", "}", "return 0;"]
        elif pos == "index":
            body = [A, "%s;" % r.decl(x), "%s.val = %s;" % (x, r.k(4)), "%s[%s] = 1;" % (a, r.w(x + ".val")),
                    "return %s[0];" % a]
        elif pos == "callarg":
            body = ["%s;" % r.decl(x), "%s.val = %s;" % (x, r.k(0)), "return callee(%s);" % r.w(x + ".get()")]
        elif pos == "member":
            body = [A, "%s;" % r.decl(x), "%s.val = %s;" % (x, r.w(r.k(4))), "return %s[%s.get()];" % (a, x)]
        elif pos == "sizeof":
            body = [A, "return %s[sizeof(%s) + %s];" % (a, r.tyname(), r.w(r.k(1)))]
    if body is None:
        return None
    return pre + ["int use%d(void)" % i, "{"] + body + ["}"]


HEAD = ["struct Rec { int m; int n; };"]
COMMON = ["static int callee(int d) { return 100 / d; }", "static int deref(const int *q) { return *q; }"]
ORDER = "TKMFB"


def render(S, uses, mask):
    """-> text of the form 'mask' of abstract program (S, uses) or None if a use does not apply."""
    lines = list(HEAD)
    for kind in ORDER:
        if kind in S:
            lines += decl_lines(kind, S[kind], mask[kind])
    lines.append(MARK)
    lines += COMMON
    both = "T" in S and "B" in S
    for i, pos in enumerate(uses):
        use_t = "T" in S and (not both or i % 2 == 0)
        use_b = "B" in S and (not both or i % 2 == 1)
        ul = use_lines(R(S, mask, use_t, use_b), pos, i)
        if ul is None:
            return None
        lines += ul
    return "\n".join(lines) + "\n"


def uses_placeholders(S, uses, text0, text1set):
    return True


def abstract_programs(tier, lang):
    """simplest first: |S| = 1 then 2; 1 use then 2 (then 3)."""
    umax = 2 if tier == "quick" else 3
    phs = placeholders(lang)
    sets = [dict([p]) for p in phs]
    for p, q in itertools.combinations(phs, 2):
        if p[0] != q[0]:
            sets.append(dict([p, q]))
    for nu in range(1, umax + 1):
        for S in sets:
            ordered = "T" in S and "B" in S
            if ordered and nu < 2:
                continue
            it = itertools.permutations(POSITIONS, nu) if ordered else itertools.combinations(POSITIONS, nu)
            for uses in it:
                yield S, list(uses)


def quick_filter(S, uses, idx):
    """quick tier: all programs with one placeholder; of the programs with two placeholders every 6th."""
    return len(S) == 1 or idx % 6 == 0


def forms(S, uses):
    """-> list of (maskA, maskB, kind) pairs that differ in exactly one expansion, plus {mask: text}."""
    kinds = [k for k in ORDER if k in S]
    texts = {}
    for bits in itertools.product((False, True), repeat=len(kinds)):
        m = dict(zip(kinds, bits))
        t = render(S, uses, m)
        if t is None:
            return None, None
        texts[bits] = t
    pairs = []
    for bits in texts:
        for j, k in enumerate(kinds):
            if not bits[j]:
                b2 = bits[:j] + (True,) + bits[j + 1:]
                if texts[bits] != texts[b2]:
                    pairs.append((bits, b2, k))
    # every placeholder must occur in the using code (otherwise the program is no instance of the quantifier)
    for j, k in enumerate(kinds):
        b0 = tuple(False for _ in kinds)
        b1 = b0[:j] + (True,) + b0[j + 1:]
        u0 = texts[b0].split(MARK)[1]
        u1 = texts[b1].split(MARK)[1]
        if u0 == u1:
            return None, None
    return pairs, texts


# ---- alignment -----------------------------------------------------------------------------------------------
def mark_pairing(ta, tb):
    """line pairing of two forms of the placeholder grammar: head lines 1:1, lines after the marker by offset."""
    la, lb = ta.split("\n"), tb.split("\n")
    ma, mb = la.index(MARK) + 1, lb.index(MARK) + 1     # 1-based line of the marker
    assert len(la) - ma == len(lb) - mb
    return [(l, l) for l in range(1, len(HEAD) + 1)] + [(ma + k + 1, mb + k + 1) for k in range(len(la) - ma)]


class PairMap:
    """line / token correspondence between two forms that differ in one expansion.
    pairing: list of (lineA, lineB) of corresponding lines (1-based); lines that are not paired are the declaration
    region of the expanded entity.  The first `head` pairs are common code above the declaration."""

    def __init__(self, ta, tb, pairing=None, head=None):
        la, lb = ta.split("\n"), tb.split("\n")
        if pairing is None:
            pairing, head = mark_pairing(ta, tb), len(HEAD)
        self.pairing = [tuple(x) for x in pairing]
        self.nhead = head or 0
        self.a2b = dict(self.pairing)
        self.ia = {x[0]: i for i, x in enumerate(self.pairing)}       # canonical line index
        self.ib = {x[1]: i for i, x in enumerate(self.pairing)}
        self.heada = set(x[0] for x in self.pairing[:self.nhead])
        self.headb = set(x[1] for x in self.pairing[:self.nhead])
        self.tok = {}        # (lineA, colA) -> (lineB, colB) for aligned tokens
        self.mid = {}        # lineA -> ((colA0, colA1), (colB0, colB1)) changed region (half-open), if any
        for L1, L2 in self.pairing:
            a, b = la[L1 - 1], lb[L2 - 1]
            xa, xb = rwm.code(rwm.lex(a)), rwm.code(rwm.lex(b))
            n = 0
            while n < len(xa) and n < len(xb) and xa[n].text == xb[n].text:
                n += 1
            m = 0
            while m < len(xa) - n and m < len(xb) - n and xa[-1 - m].text == xb[-1 - m].text:
                m += 1
            if n + m < len(xa) or n + m < len(xb):
                # cv-qualifiers next to the rewritten type merge with it ('const T1' <-> 'const unsigned char')
                while n > 0 and xa[n - 1].text in ("const", "volatile"):
                    n -= 1
                while m > 0 and xa[len(xa) - m].text in ("const", "volatile"):
                    m -= 1
            for t1, t2 in list(zip(xa[:n], xb[:n])) + (list(zip(xa[len(xa) - m:], xb[len(xb) - m:])) if m else []):
                self.tok[(L1, t1.col)] = (L2, t2.col)
            mida, midb = xa[n:len(xa) - m], xb[n:len(xb) - m]
            if mida or midb:
                ca = (mida[0].col, mida[-1].col + len(mida[-1].text)) if mida else (0, 0)
                cb = (midb[0].col, midb[-1].col + len(midb[-1].text)) if midb else (0, 0)
                self.mid[L1] = (ca, cb)
                if len(mida) == 1 and len(midb) == 1 and mida[0].kind in ("id", "num") and midb[0].kind in ("id", "num"):
                    self.tok[(L1, mida[0].col)] = (L2, midb[0].col)     # K1 <-> 3

    def region_a(self, line):
        return "head" if line in self.heada else "use" if line in self.ia else "decl"

    def region_b(self, line):
        return "head" if line in self.headb else "use" if line in self.ib else "decl"

    def rel_a(self, line):
        return self.ia.get(line, -1)

    def rel_b(self, line):
        return self.ib.get(line, -1)

    def line_a2b(self, line):
        return self.a2b.get(line)

    def loc(self, line, col):
        """location of form A -> ('exact', (l, c)) | ('mid', (l, c0, c1)) | None"""
        r = self.tok.get((line, col))
        if r is not None:
            return ("exact", r)
        m = self.mid.get(line)
        if m and m[0][0] <= col < m[0][1]:
            return ("mid", (self.line_a2b(line), m[1][0], m[1][1]))
        return None


RE_TPL = re.compile(r"\b(id|Box)\s*<[^<>]*>")
RE_LINE = re.compile(r"\bline (\d+)\b")


def canon_msg(s, rel):
    s = RE_TPL.sub(lambda m: m.group(1) + "_x", s or "")
    return RE_LINE.sub(lambda m: "line @%d" % rel(int(m.group(1))), s)


SPELL = {"schar": ["signedchar", "signed char", "char"], "uchar": ["unsignedchar", "unsigned char"], "short": ["short"],
         "int": ["int"], "long": ["long"], "ptr": ["int*", "int *"], "arr": ["int[3]"], "struct": ["structRec", "struct Rec", "Rec"]}


RE_CV = re.compile(r"\bconst\b\s*")


def text_eq(a, b, spell):
    """texts of the unexpanded / expanded form are equal; where the unexpanded one quotes the typedef name the
    expanded one must quote a spelling of the type."""
    if a == b:
        return True
    if not spell:
        return False
    if not isinstance(spell, str):      # alias grammar: a use may repeat the alias's own cv-qualifier ('const T1')
        a, b = RE_CV.sub("", a), RE_CV.sub("", b)
        spell = sorted(set(RE_CV.sub("", x) for x in spell), key=lambda x: (-len(x), x))
        if a == b:
            return True
    if "T1" not in a:
        return False
    alt = "(?:" + "|".join(re.escape(x) for x in (SPELL[spell] if isinstance(spell, str) else spell)) + ")"
    rx = alt.join(re.escape(p) for p in re.split(r"\bT1\b", a))
    return re.fullmatch(rx, b) is not None


def compare_findings(fa, fb, pm, spell=None, skip=()):
    """findings (run.parse_xml dicts) of the two forms -> list of (kind, id, detail); decl-region findings ignored.
    spell: key of SPELL (the type behind the typedef name) when the pair differs in T."""
    def prep(fs, region, rel):
        out = []
        for f in fs:
            if f["id"].startswith(WHOLE) or f["id"] in skip:
                continue
            if not f["locs"] or region(f["locs"][0][1]) == "decl":
                continue
            out.append((f["id"], f["severity"], f["inconclusive"], canon_msg(f["msg"], rel),
                        canon_msg(f["verbose"], rel),
                        tuple((l[1], l[2], canon_msg(l[3], rel)) for l in f["locs"])))
        return out
    A = prep(fa, pm.region_a, pm.rel_a)
    B = prep(fb, pm.region_b, pm.rel_b)
    rest = list(B)
    diffs = []
    for f in A:
        hit = None
        for g in rest:
            if f[:3] != g[:3] or len(f[5]) != len(g[5]) or not text_eq(f[3], g[3], spell) or not text_eq(f[4], g[4], spell):
                continue
            ok = True
            for (l, c, i), (l2, c2, i2) in zip(f[5], g[5]):
                if not text_eq(i, i2, spell):
                    ok = False
                    break
                if pm.region_a(l) == "decl":
                    if pm.region_b(l2) != "decl":
                        ok = False
                        break
                    continue
                m = pm.loc(l, c)
                if m is None:
                    ok = (l2 == pm.line_a2b(l))       # unaligned position: demand the line only
                elif m[0] == "exact":
                    ok = (l2, c2) == m[1]
                else:
                    ok = l2 == m[1][0] and m[1][1] <= c2 < m[1][2]
                if not ok:
                    break
            if ok:
                hit = g
                break
        if hit is not None:
            rest.remove(hit)
        else:
            diffs.append(("only-in-unexpanded", f[0], f))
    for g in rest:
        diffs.append(("only-in-expanded", g[0], g))
    # pair up same-id leftovers to name what changed
    out, used = [], set()
    for d in diffs:
        if d[0] == "only-in-unexpanded":
            for j, e in enumerate(diffs):
                if j not in used and e[0] == "only-in-expanded" and e[1] == d[1]:
                    used.add(j)
                    f, g = d[2], e[2]
                    what = [n for n, x, y in (("severity", f[1], g[1]), ("certainty", f[2], g[2]),
                                              ("message", f[3], g[3]), ("message", f[4], g[4]),
                                              ("path-length", len(f[5]), len(g[5])),
                                              ("path-info", "|".join(x[2] for x in f[5]), "|".join(x[2] for x in g[5])))
                            if x != y and not (isinstance(x, str) and text_eq(x, y, spell))] or ["location"]
                    what = sorted(set(what), key=what.index)
                    out.append(("changed-" + "+".join(what), d[1], {"unexpanded": f, "expanded": g}))
                    break
            else:
                out.append(d)
    for j, e in enumerate(diffs):
        if e[0] == "only-in-expanded" and j not in used:
            out.append(e)
    return out


def parse_dump(path):
    """-> {(line, col): [(str, frozenset(facts))...]} for the first configuration; facts = Known/Impossible values"""
    toks, order = {}, []
    values = {}
    idpos = {}
    cfg = 0
    try:
        it = ET.iterparse(path, events=("start", "end"))
        cur = None
        for ev, el in it:
            if ev == "start":
                if el.tag == "dump":
                    cfg += 1
                elif el.tag == "values":
                    cur = el.get("id")
                    values[(cfg, cur)] = []
                continue
            if cfg > 1:
                continue
            if el.tag == "token" and el.get("id") and el.get("linenr"):
                order.append((el.get("id"), int(el.get("linenr")), int(el.get("column")), el.get("str"), el.get("values")))
                idpos[el.get("id")] = (int(el.get("linenr")), el.get("str"))
                el.clear()
            elif el.tag == "value" and cur is not None:
                values[(cfg, cur)].append(dict(el.attrib))
            elif el.tag == "values":
                cur = None
    except ET.ParseError:
        return None
    return order, {k[1]: v for k, v in values.items() if k[0] == 1}, idpos


REFATTR = ("tokvalue", "lifetime", "symbolic")


def facts_of(order, values, idpos, rel, region):
    out = {}
    for tid, line, col, s, vid in order:
        fs = set()
        for v in (values.get(vid, []) if vid else []):
            if v.get("known") != "true" and v.get("impossible") != "true":
                continue
            item = []
            for k, x in sorted(v.items()):
                if k == "path":
                    continue
                if k in REFATTR:
                    p = idpos.get(x)
                    x = "?" if p is None else ("decl" if region(p[0]) == "decl" else "%s@%d" % (RE_TPL.sub(r"\1_x", p[1]), rel(p[0])))
                elif k == "condition-line":
                    x = "@%d" % rel(int(x))
                item.append((k, x))
            fs.add(tuple(item))
        out.setdefault((line, col), []).append((s, frozenset(fs)))
    return out


def compare_facts(da, db, pm):
    """-> (number of aligned tokens with facts, list of differences)"""
    if da is None or db is None:
        return 0, [("dump-unparsable", "-", {})]
    FA = facts_of(da[0], da[1], da[2], pm.rel_a, pm.region_a)
    FB = facts_of(db[0], db[1], db[2], pm.rel_b, pm.region_b)
    n, diffs = 0, []
    for pa, pb in sorted(pm.tok.items()):
        if pm.region_a(pa[0]) != "use":
            continue
        la, lb = FA.get(pa, []), FB.get(pb, [])
        single = pm.mid.get(pa[0]) and pm.mid[pa[0]][0][0] == pa[1]      # K1 <-> 3 style pair: strings differ
        if not single:
            strs = set(s for s, _ in la) & set(s for s, _ in lb)
            la = [x for x in la if x[0] in strs]
            lb = [x for x in lb if x[0] in strs]
        if len(la) == len(lb):
            pairs = list(zip([f for _, f in la], [f for _, f in lb]))
        else:
            pairs = [(frozenset().union(*[f for _, f in la]) if la else frozenset(),
                      frozenset().union(*[f for _, f in lb]) if lb else frozenset())]
        for x, y in pairs:
            if x or y:
                n += 1
            if x != y:
                s = la[0][0] if la else (lb[0][0] if lb else "?")
                diffs.append(("fact", s, {"token": s, "at_unexpanded": list(pa), "at_expanded": list(pb),
                                          "only_unexpanded": sorted(map(str, x - y)), "only_expanded": sorted(map(str, y - x))}))
    return n, diffs


# ---- running -------------------------------------------------------------------------------------------------
def cppcheck_files(files, opts):
    """-> ({name: [finding dicts]}, {name: parsed dump}) ; one run of the real binary"""
    env = dict(os.environ)
    env.pop("CPPCHECK_HOME", None)
    env["LC_ALL"] = "C"
    with run.WS(files) as ws:
        errf = ws.path("stderr.xml")
        for attempt in range(60):
            with open(errf, "wb") as ef:
                try:
                    subprocess.run([build.cppcheck("plain"), "--xml"] + opts + sorted(files), cwd=ws.dir, env=env,
                                   stdout=subprocess.DEVNULL, stderr=ef, timeout=900)
                    break
                except subprocess.TimeoutExpired:
                    return None, None
                except OSError:     # binary being relinked by a concurrent build of the same variant
                    import time
                    time.sleep(1)
        else:
            return None, None
        try:
            fs = run.parse_xml(open(errf, "rb").read())
        except Exception:
            return None, None
        by = {n: [] for n in files}
        for f in fs:
            fn = os.path.basename(f["locs"][0][0]) if f["locs"] else "?"
            by.setdefault(fn if fn in by else "?", []).append(f)
        dumps = {}
        for n in files:
            p = ws.path(n + ".dump")
            dumps[n] = parse_dump(p) if os.path.exists(p) else None
    return by, dumps


def describe(S):
    out = []
    for k in ORDER:
        if k in S:
            v = S[k]
            out.append({"T": lambda: "%s:%s" % (v[0], v[1]), "K": lambda: "define:%s" % v, "M": lambda: "macro:SQ",
                        "F": lambda: "id<%s>" % v, "B": lambda: "Box<%s>" % v}[k]())
    return "+".join(out)


def class_key(kind, S, d, where):
    """violation class: expansion kind (+ its parameter) : what differs : finding id / fact"""
    par = S[kind]
    p = {"T": lambda: "%s:%s" % (par[0], par[1]), "K": lambda: "define-constant", "M": lambda: "macro-SQ",
         "F": lambda: "function-template:%s" % par, "B": lambda: "class-template:%s" % par}[kind]()
    if where == "fact":
        s = d[1]
        return "C06:%s:fact:%s" % (p, "name" if re.match(r"[A-Za-z_]", s) else "number" if re.match(r"[0-9]", s) else s)
    return "C06:%s:%s:%s" % (p, d[1], d[0])


def work(job):
    import time
    items, deadline, lang, knownkeys = job
    if time.time() > deadline:
        return None
    files, meta = {}, []
    for n, (S, uses) in enumerate(items):
        pairs, texts = forms(S, uses)
        if pairs is None:
            continue
        names = {}
        for bits, t in texts.items():
            nm = "f%d_%s.%s" % (n, "".join("1" if b else "0" for b in bits), lang)
            names[bits] = nm
            files[nm] = t
        meta.append((S, uses, pairs, texts, names))
    out = {"pairs": 0, "pairs_with_findings": 0, "pairs_with_facts": 0, "aligned_fact_tokens": 0, "problems": [],
           "programs": 0, "ids": collections.Counter(), "samples": [], "kinds": collections.Counter()}
    if not files:
        return out
    by, dumps = cppcheck_files(files, OPTS)
    if by is None:
        out["problems"].append(("harness:xml-unparsable", "batch output unparsable", {}))
        return out
    confirmed = set(knownkeys)
    for S, uses, pairs, texts, names in meta:
        out["programs"] += 1
        for ba, bb, kind in pairs:
            ta, tb = texts[ba], texts[bb]
            pm = PairMap(ta, tb)
            fa, fb = by[names[ba]], by[names[bb]]
            out["pairs"] += 1
            out["kinds"][kind] += 1
            spell = S["T"][1] if kind == "T" else None
            fd = compare_findings(fa, fb, pm, spell, BATCH_WHOLE)
            nf, vd = compare_facts(dumps[names[ba]], dumps[names[bb]], pm)
            if fd or vd:
                keys = set(class_key(kind, S, d, "finding") for d in fd)
                if vd:
                    keys.add(class_key(kind, S, vd[0], "fact"))
                if not all(k in confirmed for k in keys):
                    # confirm with two isolated single-file runs (default duplicate filter)
                    b1, d1 = cppcheck_files({"a." + lang: ta}, OPTS_ISOLATED)
                    b2, d2 = cppcheck_files({"a." + lang: tb}, OPTS_ISOLATED)
                    if b1 is None or b2 is None:
                        out["problems"].append(("harness:xml-unparsable", "isolated run unparsable", {}))
                        continue
                    fd = compare_findings(b1["a." + lang], b2["a." + lang], pm, spell)
                    nf2, vd = compare_facts(d1["a." + lang], d2["a." + lang], pm)
                    if not fd and not vd:
                        out["batch_only"] = out.get("batch_only", 0) + 1
                    for d in fd:
                        confirmed.add(class_key(kind, S, d, "finding"))
                    if vd:
                        confirmed.add(class_key(kind, S, vd[0], "fact"))
            ua = [f for f in fa if f["locs"] and pm.region_a(f["locs"][0][1]) == "use" and f["id"] not in BATCH_WHOLE]
            if ua:
                out["pairs_with_findings"] += 1
            for f in ua:
                out["ids"][f["id"]] += 1
            if nf:
                out["pairs_with_facts"] += 1
                out["aligned_fact_tokens"] += nf
            art = {"placeholders": describe(S), "uses": uses, "expanded": kind, "lang": lang, "spell": spell,
                   "unexpanded_form": ta, "expanded_form": tb}
            if len(out["samples"]) < 1 and ua and nf:
                out["samples"].append({"placeholders": describe(S), "uses": uses, "expansion_compared": kind,
                                       "finding_ids": sorted(set(f["id"] for f in ua)), "tokens_with_facts": nf})
            seen = set()
            for d in fd:
                k = class_key(kind, S, d, "finding")
                if k not in seen:
                    seen.add(k)
                    a2 = dict(art)
                    a2["differences"] = [list(map(str, x)) for x in fd][:6]
                    out["problems"].append((k, "%s uses=%s expand %s: finding %s %s" % (describe(S), uses, kind, d[0], d[1]), a2))
            if vd:
                k = class_key(kind, S, vd[0], "fact")
                a2 = dict(art)
                a2["differences"] = [x[2] for x in vd][:6]
                out["problems"].append((k, "%s uses=%s expand %s: value facts differ on token '%s'" % (
                    describe(S), uses, kind, vd[0][1]), a2))
    return out


# ==== second grammar: ONE alias (at file / namespace / class / function scope), SEVERAL uses in sequence ============
ALIAS_TYPES = collections.OrderedDict([      # name -> (base spelling, alias is const, kind)
    ("uchar", ("unsigned char", False, "base")), ("int", ("int", False, "base")),
    ("cuchar", ("unsigned char", True, "base")), ("cint", ("int", True, "base")),
    ("ptrc", ("const int *", False, "ptr")),     # pointer to const
    ("cptr", ("int * const", True, "ptr")),      # const pointer
])
PLACEMENTS = ["file", "namespace", "class", "function"]
QUALS = ["plain", "pre", "post"]            # T1 / const T1 / T1 const
ROLES = {"base": ["ptrparam", "ptrlocal", "local", "cast", "sizeof"], "ptr": ["param", "local", "cast", "sizeof"]}


def alias_decl(how, t):
    base, c, kind = ALIAS_TYPES[t]
    sp = base if kind == "ptr" else ("const " if c else "") + base
    return "typedef %s T1;" % sp if how == "typedef" else "using T1 = %s;" % sp


def alias_use(t, qual, expanded):
    """spelling of one use of the alias; the expanded form writes the underlying type with a single const"""
    if not expanded:
        return {"plain": "T1", "pre": "const T1", "post": "T1 const"}[qual]
    base, c, kind = ALIAS_TYPES[t]
    if kind == "base":
        return ("const " if (c or qual != "plain") else "") + base
    if t == "ptrc":
        return base + (" const" if qual != "plain" else "")
    return base


def alias_role(t, role, qt, i):
    """-> (parameter list, statements, result expression) of use i"""
    base, c, kind = ALIAS_TYPES[t]
    A = "int a%d[4] = {0};" % i
    if kind == "base":
        return {
            "ptrparam": ("%s *p%d" % (qt, i), [], "p%d[1]" % i),
            "ptrlocal": ("void", ["%s b%d[2] = {1, 2};" % (base, i), "%s *q%d = b%d;" % (qt, i, i)], "q%d[1]" % i),
            "local": ("void", [A, "%s x%d = 4;" % (qt, i)], "a%d[x%d]" % (i, i)),
            "cast": ("void", [A, "int y%d = (%s)300;" % (i, qt)], "a%d[y%d]" % (i, i)),
            "sizeof": ("void", [A], "a%d[sizeof(%s) + 3]" % (i, qt)),
        }[role]
    return {
        "param": ("%s p%d" % (qt, i), [], "p%d[1]" % i),
        "local": ("void", ["int z%d[2] = {0, 0};" % i, "%s q%d = z%d;" % (qt, i, i)], "100 / q%d[0]" % i),
        "cast": ("void", ["%s q%d = (%s)0;" % (qt, i, qt)], "*q%d" % i),
        "sizeof": ("void", [A], "a%d[sizeof(%s)]" % (i, qt)),
    }[role]


def alias_program(placement, how, t, seq):
    """-> (text unexpanded, text expanded, pairing, use index per unexpanded line) or None if not applicable"""
    kind = ALIAS_TYPES[t][2]
    for qual, role in seq:
        if role not in ROLES[kind] or (placement == "function" and role in ("ptrparam", "param")):
            return None
    rows = []       # (line_a | None, line_b | None, use index)

    def both(x, u=-1):
        rows.append((x, x, u))

    def use_rows(i, qual, role, expanded):
        qt = alias_use(t, qual, expanded)
        params, stmts, res = alias_role(t, role, qt, i)
        if placement == "function":
            return ["{"] + stmts + ["r += %s;" % res, "}"]
        return ["%sint f%d(%s)" % ("static " if placement == "class" else "", i, params), "{"] + stmts + \
               ["return %s;" % res, "}"]

    if placement == "namespace":
        both("namespace ns {")
    elif placement == "class":
        both("struct Reader {")
    elif placement == "function":
        both("int host(void)")
        both("{")
    rows.append((alias_decl(how, t), None, -1))
    if placement == "function":
        both("int r = 0;")
    for i, (qual, role) in enumerate(seq):
        for x, y in zip(use_rows(i, qual, role, False), use_rows(i, qual, role, True)):
            rows.append((x, y, i))
    if placement == "namespace":
        both("}")
    elif placement == "class":
        both("};")
    elif placement == "function":
        both("return r;")
        both("}")
    la = [r[0] for r in rows if r[0] is not None]
    lb = [r[1] for r in rows if r[1] is not None]
    pairing, useof, ia, ib = [], {}, 0, 0
    for x, y, u in rows:
        if x is not None:
            ia += 1
            useof[ia] = u
        if y is not None:
            ib += 1
        if x is not None and y is not None:
            pairing.append((ia, ib))
    return "\n".join(la) + "\n", "\n".join(lb) + "\n", pairing, useof


def alias_programs(nus, lang):
    """simplest first: 2 uses then 3; the placement / kind / type loops are innermost so that a stride over the
    enumeration index meets every combination of them."""
    hows = ("typedef", "using") if lang == "cpp" else ("typedef",)
    places = PLACEMENTS if lang == "cpp" else ["file", "function"]
    for nu in nus:
        for kind in ("base", "ptr"):
            opts = [(q, r) for r in ROLES[kind] for q in QUALS]
            for seq in itertools.product(opts, repeat=nu):
                for placement in places:
                    for how in hows:
                        for t in ALIAS_TYPES:
                            if ALIAS_TYPES[t][2] == kind:
                                yield placement, how, t, list(seq)


def alias_spell(t):
    base, c, kind = ALIAS_TYPES[t]
    out = set()
    for sp in ([base, "const " + base] if kind == "base" else [base, base + " const"]):
        out.add(sp)
        out.add(sp.replace(" ", ""))
    if "unsigned char" in base:
        out |= set(x.replace("unsigned char", "unsignedchar") for x in out)
    return sorted(out, key=lambda x: (-len(x), x))


def alias_key(placement, how, t, seq, useof, pm, d, where):
    """violation class: placement, alias kind, aliased type, the use (qualification-role) the difference sits on"""
    line = None
    if where == "fact":
        line = d[2]["at_unexpanded"][0]
    else:
        det = d[2]
        f = det.get("unexpanded") if isinstance(det, dict) else (det if d[0] == "only-in-unexpanded" else None)
        if f is not None:
            line = f[5][0][0]
        else:
            g = det.get("expanded") if isinstance(det, dict) else det
            inv = {b: a for a, b in pm.pairing}
            line = inv.get(g[5][0][0])
    u = useof.get(line, -1)
    use = "%s-%s" % seq[u] if u >= 0 else "outside-uses"
    head = "C06:alias@%s:%s:%s:%s" % (placement, how, t, use)
    if where == "fact":
        s = d[1]
        return head + ":fact:%s" % ("name" if re.match(r"[A-Za-z_]", s) else "number" if re.match(r"[0-9]", s) else s)
    return head + ":%s:%s" % (d[1], d[0])


def work_alias(job):
    import time
    items, deadline, lang, knownkeys = job
    if time.time() > deadline:
        return None
    files, meta = {}, []
    for n, (placement, how, t, seq) in enumerate(items):
        r = alias_program(placement, how, t, seq)
        if r is None:
            continue
        ta, tb, pairing, useof = r
        files["g%d_a.%s" % (n, lang)] = ta
        files["g%d_b.%s" % (n, lang)] = tb
        meta.append((n, placement, how, t, seq, ta, tb, pairing, useof))
    out = {"pairs": 0, "pairs_with_findings": 0, "pairs_with_facts": 0, "aligned_fact_tokens": 0, "problems": [],
           "programs": 0, "ids": collections.Counter(), "samples": [], "kinds": collections.Counter()}
    if not files:
        return out
    by, dumps = cppcheck_files(files, OPTS)
    if by is None:
        out["problems"].append(("harness:xml-unparsable", "batch output unparsable", {}))
        return out
    confirmed = set(knownkeys)
    for n, placement, how, t, seq, ta, tb, pairing, useof in meta:
        na, nb = "g%d_a.%s" % (n, lang), "g%d_b.%s" % (n, lang)
        pm = PairMap(ta, tb, pairing, 0)
        spell = alias_spell(t)
        out["programs"] += 1
        out["pairs"] += 1
        out["kinds"]["alias@" + placement] += 1
        fd = compare_findings(by[na], by[nb], pm, spell, BATCH_WHOLE)
        nf, vd = compare_facts(dumps[na], dumps[nb], pm)

        def keys_of(fd, vd):
            ks = [alias_key(placement, how, t, seq, useof, pm, d, "finding") for d in fd]
            if vd:
                ks.append(alias_key(placement, how, t, seq, useof, pm, vd[0], "fact"))
            return ks
        if fd or vd:
            if not all(k in confirmed for k in keys_of(fd, vd)):
                b1, d1 = cppcheck_files({"a." + lang: ta}, OPTS_ISOLATED)
                b2, d2 = cppcheck_files({"a." + lang: tb}, OPTS_ISOLATED)
                if b1 is None or b2 is None:
                    out["problems"].append(("harness:xml-unparsable", "isolated run unparsable", {}))
                    continue
                fd = compare_findings(b1["a." + lang], b2["a." + lang], pm, spell)
                nf2, vd = compare_facts(d1["a." + lang], d2["a." + lang], pm)
                if not fd and not vd:
                    out["batch_only"] = out.get("batch_only", 0) + 1
                confirmed.update(keys_of(fd, vd))
        ua = [f for f in by[na] if f["locs"] and pm.region_a(f["locs"][0][1]) == "use" and f["id"] not in BATCH_WHOLE]
        if ua:
            out["pairs_with_findings"] += 1
        for f in ua:
            out["ids"][f["id"]] += 1
        if nf:
            out["pairs_with_facts"] += 1
            out["aligned_fact_tokens"] += nf
        desc = "%s %s@%s uses=%s" % (how, t, placement, ["%s-%s" % x for x in seq])
        art = {"placeholders": desc, "uses": ["%s-%s" % x for x in seq], "expanded": "alias", "lang": lang,
               "spell": spell, "unexpanded_form": ta, "expanded_form": tb, "pairing": pairing}
        if len(out["samples"]) < 1 and ua and nf:
            out["samples"].append({"alias": desc, "finding_ids": sorted(set(f["id"] for f in ua)), "tokens_with_facts": nf})
        seen = set()
        for d in fd:
            k = alias_key(placement, how, t, seq, useof, pm, d, "finding")
            if k not in seen:
                seen.add(k)
                a2 = dict(art)
                a2["differences"] = [list(map(str, x)) for x in fd][:6]
                out["problems"].append((k, "%s: finding %s %s" % (desc, d[0], d[1]), a2))
        if vd:
            k = alias_key(placement, how, t, seq, useof, pm, vd[0], "fact")
            a2 = dict(art)
            a2["differences"] = [x[2] for x in vd][:6]
            out["problems"].append((k, "%s: value facts differ on token '%s'" % (desc, vd[0][1]), a2))
    return out


def work_any(job):
    return work_alias(job[1]) if job[0] == "alias" else work(job[1])


def main(tier, replay=None):
    import multiprocessing
    ctx = Ctx("C06", tier, "exploration", 170 if tier == "quick" else 1700, replay)
    build.build("plain")
    if replay:
        a = replay["artefact"]
        files = {"unexpanded." + a["lang"]: a["unexpanded_form"], "expanded." + a["lang"]: a["expanded_form"]}
        by, dumps = {}, {}
        for n in sorted(files, reverse=True):
            b1, d1 = cppcheck_files({n: files[n]}, OPTS_ISOLATED)
            by.update(b1)
            dumps.update(d1)
        pm = PairMap(a["unexpanded_form"], a["expanded_form"], a.get("pairing"), 0 if a.get("pairing") else None)
        for n in sorted(files, reverse=True):
            print("=== %s  (cppcheck %s %s)\n%s" % (n, " ".join(OPTS_ISOLATED), n, files[n]))
            print("--- findings")
            for f in by[n]:
                print("   ", run.fshort(f))
        na, nb = "unexpanded." + a["lang"], "expanded." + a["lang"]
        print("=== expected: equal findings on the using code (all lines but the declaration of the expanded entity, modulo "
              "the line offset) and equal Known/Impossible facts on aligned tokens")
        print("=== observed finding differences:")
        for d in compare_findings(by[na], by[nb], pm, a.get("spell")):
            print("   ", d)
        n, vd = compare_facts(dumps[na], dumps[nb], pm)
        print("=== observed fact differences (%d aligned tokens carry facts):" % n)
        for d in vd:
            print("   ", d[2])
        return 0

    jobs = []
    nprog = 0
    knownkeys = [k["key"] for k in ctx.known if k.get("status") == "known"]
    def alias_jobs(nus, langs, stride):
        out = []
        for lang in langs:
            cur, idx = [], 0
            for item in alias_programs(nus, lang):
                if alias_program(*item) is None:
                    continue
                idx += 1
                if idx % stride:
                    continue
                cur.append(item)
                if 2 * len(cur) >= BATCH:
                    out.append(("alias", (cur, ctx.deadline, lang, knownkeys)))
                    cur = []
            if cur:
                out.append(("alias", (cur, ctx.deadline, lang, knownkeys)))
        return out

    for lang in ("cpp", "c"):
        cur = []
        nf = 0
        for idx, (S, uses) in enumerate(abstract_programs(tier, lang)):
            if tier == "quick" and not quick_filter(S, uses, idx):
                continue
            if lang == "c" and tier == "quick" and len(S) > 1:
                continue
            cur.append((S, uses))
            nf += 2 ** len(S)
            nprog += 1
            if nf >= BATCH:
                jobs.append(("ph", (cur, ctx.deadline, lang, knownkeys)))
                cur, nf = [], 0
        if cur:
            jobs.append(("ph", (cur, ctx.deadline, lang, knownkeys)))
    if tier == "quick":     # every 5th two-use alias program (5 is coprime to the sizes of the inner loops)
        jobs = jobs + alias_jobs((2,), ("cpp",), 5)
    else:
        jobs = alias_jobs((2,), ("cpp", "c"), 1) + jobs + alias_jobs((3,), ("cpp", "c"), 1)
    if os.environ.get("C06_ONLY"):
        jobs = [j for j in jobs if j[0] == os.environ["C06_ONLY"]]
    lim = int(os.environ.get("C06_LIMIT", "0"))
    if lim:
        jobs = jobs[:lim]
    ids, kinds = collections.Counter(), collections.Counter()
    with multiprocessing.Pool(int(os.environ.get("VERIF_JOBS", "0")) or min(16, os.cpu_count() or 4)) as pool:
        for res in pool.imap(work_any, jobs):
            if res is None:
                ctx.capped = True
                continue
            ctx.count(res["pairs"])
            ctx.bump("abstract_programs", res["programs"])
            ctx.bump("pairs_with_findings_on_using_code", res["pairs_with_findings"])
            ctx.bump("pairs_without_findings_vacuous_for_findings", res["pairs"] - res["pairs_with_findings"])
            ctx.bump("pairs_with_value_facts", res["pairs_with_facts"])
            ctx.bump("pairs_without_value_facts_vacuous_for_facts", res["pairs"] - res["pairs_with_facts"])
            ctx.bump("aligned_tokens_with_facts", res["aligned_fact_tokens"])
            ids.update(res["ids"])
            kinds.update(res["kinds"])
            if res.get("batch_only"):
                ctx.bump("batch_only_differences", res["batch_only"])
            for s in res["samples"]:
                ctx.sample(s)
            for key, what, art in res["problems"]:
                ctx.bump("difference_class:" + key)
                ctx.violation(key, what, art)
    ctx.cov["distinct_nontrivial"] = ctx.cov.get("pairs_with_value_facts", 0)
    ctx.cov["pairs_per_expansion_kind"] = dict(kinds)
    ctx.cov["finding_ids_on_using_code"] = dict(ids)
    ctx.cov["states"] = ctx.cov.get("abstract_programs", 0)
    ctx.cov["transitions"] = ctx.evaluations
    ctx.cov["traces_validated_against_impl"] = ctx.evaluations
    ctx.assumptions = [
        "the two printed forms are equivalent programs: the expansions are the textbook ones (typedef/using -> the type "
        "with the declarator reshaped, #define -> its replacement list with the argument substituted, explicit "
        "instantiation -> the same entity with T replaced); all forms were compiled once with gcc/g++ during development",
        "options --enable=style --inconclusive --dump, default platform; findings in the declaration region of the "
        "placeholders and facts inside the expansion itself are ignored as the statement says",
    ]
    return ctx.finish(
        rule="abstract programs = placeholder sets S (|S|<=2 of T typedef/using x 8 types, K #define x 4 values, M SQ(x), "
             "F id<T> x 5 types, B Box<T> x 5 types) x use lists (<=%d of 7 positions); every program is printed in "
             "all 2^|S| expansion masks and every pair of forms that differs in one expansion is one evaluation "
             "(quick: all |S|=1 programs, every 6th |S|=2 program, C files for |S|=1 only); nontrivial = pairs with "
             "at least one aligned token carrying a Known/Impossible fact.  Second grammar: ONE alias (typedef/using of "
             "unsigned char, int, const unsigned char, const int, const int *, int * const) declared at file / namespace / "
             "class / function scope and used 2 (quick: every 5th program; thorough: all, then 3) times in sequence, each "
             "use plain / 'const T' / 'T const' as read-only pointer parameter, local pointer, local, cast or sizeof; the "
             "expanded form writes the type with a single const" % (2 if tier == "quick" else 3))
