"""C12 -- configuration selection honours -D/-U and covers guarded code.

Exhaustive enumeration of all conditional forests with <= N guards on distinct macros (4 directive forms,
with/without #else, any nesting and sibling order), every region marked by a distinct out-of-bounds index, each
forest run bare, with --max-configs K, --force, -D X, -U X, -D X -U Y.  Oracle = the property's own rule.
"""
import itertools, re, time
from vlib import build, run
from vlib.core import Ctx, pmap

MACROS = "ABCD"
KINDS = ("ifdef", "ifndef", "ifdefined", "ifnotdefined")


def forests(n):
    """All forests with exactly n nodes; tree = (kind, has_else, then_forest, else_forest)."""
    if n == 0:
        yield ()
        return
    for first in range(1, n + 1):           # size of first tree
        for t in trees(first):
            for rest in forests(n - first):
                yield (t,) + rest


def trees(n):
    for kind in KINDS:
        for k in range(0, n):               # nodes in then-part
            for tf in forests(k):
                rem = n - 1 - k
                if rem == 0:
                    yield (kind, False, tf, ())
                    yield (kind, True, tf, ())
                else:
                    for ef in forests(rem):
                        yield (kind, True, tf, ef)


class Printer:
    def __init__(self, names):
        self.lines = []
        self.regions = []     # (index, frozenset(defined-required), frozenset(undefined-required))
        self.names = names
        self.k = 0
        self.nreg = 0
        self.paths = {}
        self.stack = []
        self.taint = []

    def region(self, need_def, need_undef):
        idx = 10 + self.nreg
        self.nreg += 1
        self.regions.append((idx, frozenset(need_def), frozenset(need_undef)))
        self.paths[idx] = ("~" if any(self.taint) else "") + (">".join(self.stack) or "top")
        self.lines.append("void r%d(void){int a[1]; a[%d]=0;}" % (idx, idx))

    def forest(self, f, d, u):
        for t in f:
            self.tree(t, d, u)
            if t[1] and t[0] in ("ifdef", "ifdefined") and self.stack:
                # a positive guard with #else was closed while enclosing guards are still open
                self.taint = [True] * len(self.stack)

    def tree(self, t, d, u):
        kind, has_else, tf, ef = t
        kind_s = kind
        self.taint.append(False)
        m = self.names[self.k]
        self.k += 1
        self.lines.append({"ifdef": "#ifdef %s", "ifndef": "#ifndef %s", "ifdefined": "#if defined(%s)",
                           "ifnotdefined": "#if !defined(%s)"}[kind] % m)
        pos = kind in ("ifdef", "ifdefined")
        td, tu = (d | {m}, u) if pos else (d, u | {m})
        ed, eu = (d, u | {m}) if pos else (d | {m}, u)
        self.stack.append(kind_s + ".then")
        self.region(td, tu)
        self.forest(tf, td, tu)
        self.stack.pop()
        if has_else:
            self.lines.append("#else")
            self.stack.append(kind_s + ".else")
            self.region(ed, eu)
            self.forest(ef, ed, eu)
            self.stack.pop()
        self.lines.append("#endif")
        self.taint.pop()


def render(f, names):
    p = Printer(names)
    p.region(set(), set())
    p.forest(f, frozenset(), frozenset())
    return "\n".join(p.lines) + "\n", [r + (p.paths[r[0]],) for r in p.regions], p.k


def classify(path):
    """Map the guard path of a region that was never analysed to the known structural classes."""
    steps = path.lstrip("~").split(">")
    if any(st.startswith("ifnotdefined.") for st in steps[:-1]):
        return "nested-under-if-not-defined"
    if path.startswith("~"):
        return "after-closed-nested-ifdef-else"
    return path


RE_IDX = re.compile(r"accessed at index (\d+)")
RE_CFG = re.compile(r"^Checking t\.c: (.*)\.\.\.$", re.M)


def run_case(case):
    src, regions, nmac, names, opts = case
    with run.WS({"t.c": src}) as ws:
        r = run.cppcheck(["--template={line}:{id}:{message}"] + opts + ["t.c"], ws.dir)
    out, err = r.text_out(), r.text_err()
    reported = set(int(m) for m in RE_IDX.findall(err))
    cfgs = []
    for c in RE_CFG.findall(out):
        cfgs.append(set(x.split("=")[0] for x in c.split(";") if x))
    return reported, cfgs, r


def judge(ctx, case, res):
    src, regions, nmac, names, opts = case
    reported, cfgs, r = res
    D = [o[2:] for o in opts if o.startswith("-D")]
    U = [o[2:] for o in opts if o.startswith("-U")]
    maxc = 12
    force = "--force" in opts
    for o in opts:
        if o.startswith("--max-configs="):
            maxc = int(o.split("=")[1])
    bad = []
    keys = set()
    if r.rc != 0 or r.timed_out:
        bad.append("exit status %s" % r.rc)
    idxs = {i for i, _, _, _ in regions}
    if not reported <= idxs:
        bad.append("unknown region reported %s" % sorted(reported - idxs))
    for x in D:
        for c in cfgs:
            if x not in c:
                bad.append("-D%s: analysed configuration %s does not define it" % (x, sorted(c)))
        for i, d, u, path in regions:
            if x in u and i in reported:
                bad.append("-D%s: region %d (requires %s undefined) analysed" % (x, i, x))
                keys.add("D-not-honoured:" + path)
    for x in U:
        for c in cfgs:
            if x in c:
                bad.append("-U%s: analysed configuration %s defines it" % (x, sorted(c)))
        for i, d, u, path in regions:
            if x in d and i in reported:
                bad.append("-U%s: region %d (requires %s defined) analysed" % (x, i, x))
                keys.add("U-not-honoured:" + path)
    if not D and not U:
        # coverage: number of guard combinations is bounded above by the number of regions
        if force or len(regions) <= maxc:
            for i, d, u, path in regions:
                if i not in reported:
                    bad.append("region %d (needs def=%s undef=%s) never analysed (regions=%d max-configs=%d)" % (
                        i, sorted(d), sorted(u), len(regions), maxc))
                    keys.add("uncovered:" + classify(path))
    if bad:
        key = min(keys) if keys else "other:" + bad[0][:40]
        ctx.violation(key, bad[0], {"source": src, "options": opts, "reported": sorted(reported),
                                    "configurations": [sorted(c) for c in cfgs], "problems": bad,
                                    "stderr": r.text_err()[-2000:]})
    ctx.count()
    ctx.distinct(("%s|%s" % (src, " ".join(opts))))
    if len(reported) > 1:
        ctx.bump("runs_with_guarded_region_analysed")
    ctx.sample({"options": opts, "source": src.splitlines(), "reported_regions": sorted(reported)}, maxn=3)


def cases(tier):
    nmax = 2 if tier == "quick" else 3
    for n in range(1, nmax + 1):
        for f in forests(n):
            perms = [tuple(MACROS[:n])]
            if tier == "thorough" and n <= 3 or n <= 2:
                perms = list(itertools.permutations(MACROS[:n]))
            # macro names in a prefix relation (NET / NET_TLS / NET_TLS2): name handling must compare whole names
            pref = ("NET", "NET_TLS", "NET_TLS2")[:n]
            if n >= 2:
                perms += list(itertools.permutations(pref)) if (tier == "thorough" or n == 2) else [pref]
            for names in perms:
                src, regions, k = render(f, names)
                ms = sorted(names[:k])
                optsets = [[], ["--max-configs=1"], ["--max-configs=2"], ["--max-configs=12"], ["--force"]]
                optsets += [["-D" + x] for x in ms] + [["-U" + x] for x in ms]
                optsets += [["-D" + x, "-U" + y] for x in ms for y in ms if x != y]
                if n >= 2:
                    optsets += [["-D" + ms[0], "-D" + ms[1]], ["-U" + ms[0], "-U" + ms[1]]]
                for o in optsets:
                    yield (src, regions, k, names, o)
    if tier == "quick":   # n = 3 with the two #ifdef/#ifndef forms only, bare + one -D / -U each
        for f in forests(3):
            if any(k in repr(f) for k in ("ifdefined", "ifnotdefined")):
                continue
            src, regions, k = render(f, ("A", "B", "C"))
            for o in ([], ["-DB"], ["-UB"], ["-DA", "-UC"]):
                yield (src, regions, k, ("A", "B", "C"), o)
            src, regions, k = render(f, ("NET", "NET_TLS", "NET_TLS2"))
            yield (src, regions, k, ("NET", "NET_TLS", "NET_TLS2"), [])


def main(tier, replay=None):
    ctx = Ctx("C12", tier, "exploration", 900 if tier == "quick" else 3000, replay)
    build.build("plain")
    if replay:
        a = replay["artefact"]
        src = a["source"]
        print(src)
        with run.WS({"t.c": src}) as ws:
            r = run.cppcheck(["--template={line}:{id}:{message}"] + a["options"] + ["t.c"], ws.dir)
        print(r.text_out() + r.text_err())
        return 0
    allc = cases(tier)
    total = 0
    def work(c):
        if ctx.expired():
            return None
        return c, run_case(c)
    for x in pmap(work, allc):
        if x is None:
            continue
        total += 1
        judge(ctx, x[0], x[1])
    return ctx.finish(
        rule="all conditional forests with <= %d guards (4 directive forms x else/no-else x all nestings and sibling "
             "orders x macro-name permutations) x option sets {bare, --max-configs 1/2/12, --force, -D X, -U X, "
             "-D X -U Y, pairs}; distinct = distinct (source, options); nontrivial = every case (each has >= 2 regions)"
             % (2 if tier == "quick" else 3),
        extra={"bound_guards": 2 if tier == "quick" else 3})


if __name__ == "__main__":
    import sys
    sys.exit(main(sys.argv[1] if len(sys.argv) > 1 else "quick"))
