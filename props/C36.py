"""C36 -- the HTML report lists every reported finding.

Style I, reference = the XML results file itself.  /repo/htmlreport/cppcheck-htmlreport is loaded as a Python module and
its main() is driven in-process (a fork pool of workers, no process per case).  Bounded-exhaustive enumeration of
version-2 result files:

  A  one finding, message = every string of <= K tokens over the token alphabet TOKENS (markup, entities, quotes,
     non-ASCII, cppcheck's \\012 escape), x verbose equal/different x inconclusive x {readable file, readable file with
     location info = the string, nonexistent file}
  B  one finding, full product id x severity x inconclusive x cwe x location shape (no location, 6 file kinds x
     4 line classes, location info, two locations same/other/unreadable file) x plain/markup message x 3 source-dir modes
     (quick: the third mode '--source-dir=.' only for the undecodable source)
  C  every sequence (with repetition) of <= N findings over the reduced alphabet SEQ (same line twice, identical
     findings, no location, unreadable files, two files, second location) x 3 source-dir modes

Oracle (from the statement only): index.html lists every finding exactly once with its file (the group header), line,
id, severity and a message cell whose parsed text equals the message and contains no element; every finding whose
primary source is readable has exactly one annotation at its line in that file's page (reached through the index link)
whose parsed text is the message (or the location's info text) and one menu entry "id line"; no <b>/<i> element (only
messages contain them) appears anywhere.
"""
import collections, contextlib, importlib.machinery, importlib.util, io, itertools, json, multiprocessing, os, shutil, sys
from html.parser import HTMLParser
from vlib import build, run
from vlib.core import Ctx, sha, NCPU

HTMLREPORT = os.path.join(build.REPO, "htmlreport", "cppcheck-htmlreport")

# ------------------------------------------------------------------------------------------------ sources
SRC_A = "int f(void)\n{\n  int a[2];\n  a[2] = 0;\n  return 0;\n}\n"
SOURCES = {                       # name -> (kind, content)
    "a.c": ("readable", SRC_A),
    "b.c": ("readable", "void g(void)\n{\n}\n"),
    "sp ace&.c": ("readable", "int x;\nint y;\nint z;"),          # no trailing newline
    "lt<u>.c": ("readable", "int u;\nint v;\n"),
    "gone.c": ("nonexistent", None),
    "dir.c": ("directory", None),                               # open() fails with IsADirectoryError (an IOError)
    "bin.c": ("undecodable", b"int s;\nchar *p = \"\xff\xfe\";\n"),
}


def nlines(name):
    c = SOURCES[name][1]
    if isinstance(c, bytes):
        c = c.decode("latin-1")
    return len(c.splitlines())


def readable(name):
    return name in SOURCES and SOURCES[name][0] == "readable"


# ------------------------------------------------------------------------------------------------ alphabet
TOKENS = ["a", " ", "<", ">", "&", '"', "'", "é", "<b>x</b>", "&amp;", "&lt;", "%s", "\\012"]
SEVERITIES = ["error", "warning", "style", "performance", "portability", "information"]
IDS = ["arrayIndex", "misra-c2012-10.4"]
VDIFF = "V<i>v</i>&\"'"
MARKUP = "x<b>x</b>&\"'é"
INJECTED_TAGS = ("b", "i")
MODES = ("cwd", "abs", "rel")


def strings(k):
    yield ""
    for n in range(1, k + 1):
        for t in itertools.product(TOKENS, repeat=n):
            yield "".join(t)


def F(msg, locs=(), id="arrayIndex", severity="error", verbose=None, inconclusive=False, cwe=None):
    return {"id": id, "severity": severity, "msg": msg, "verbose": msg if verbose is None else verbose,
            "inconclusive": inconclusive, "cwe": cwe,
            "locs": [{"file": l[0], "line": l[1], "info": (l[2] if len(l) > 2 else None)} for l in locs]}


def line_classes(name):
    n = nlines(name) if SOURCES[name][1] is not None else 3
    return [0, 1, n, n + 1]


def shapes():
    """Location shapes of one finding."""
    yield []
    for name in SOURCES:
        if name == "b.c":
            continue
        for ln in line_classes(name):
            yield [(name, ln)]
    for ln in line_classes("a.c"):
        yield [("a.c", ln, "info<b>x</b>&")]
    yield [("a.c", 2), ("a.c", 5)]
    yield [("a.c", 2, "primary info"), ("a.c", 5, "second info")]
    yield [("a.c", 2), ("b.c", 1, "other file")]
    yield [("a.c", 2), ("gone.c", 1)]
    yield [("gone.c", 1), ("a.c", 2, "from here")]


SEQ = [
    F("m1", [("a.c", 2)]),
    F("m2<b>x</b>&", [("a.c", 2)], verbose=VDIFF, inconclusive=True, severity="warning"),
    F("m3", [("a.c", 6)], severity="style", cwe="398"),
    F("m4 & 'q'", [("b.c", 1)], id="misra-c2012-10.4", severity="style"),
    F("m5", [("gone.c", 3)], severity="information"),
    F("m6", [], severity="information", id="toomanyconfigs"),
    F("m7é", [("sp ace&.c", 1)], severity="portability"),
    F("m8", [("a.c", 4, "inner"), ("b.c", 1, "outer")], severity="performance"),
    F("m9", [("bin.c", 1)]),
    F("m1", [("a.c", 0)], verbose="m1 long"),
]


def cases(tier):
    k = 2 if tier == "quick" else 3
    nseq = 3 if tier == "quick" else 4
    # B first (structure), then A (texts), then C (sets): simplest first inside each phase
    for shape in shapes():
        for id_, sev, inc, cwe in itertools.product(IDS, SEVERITIES, (False, True), (None, "398")):
            for msg in ("plain msg", MARKUP):
                for mode in MODES:
                    if tier == "quick" and mode == "rel" and not any(l[0] == "bin.c" for l in shape):
                        continue        # quick: --source-dir=. only where it matters (undecodable source); thorough: all
                    yield {"phase": "B", "mode": mode,
                           "findings": [F(msg, shape, id=id_, severity=sev, inconclusive=inc, cwe=cwe)]}
    for s in strings(k):
        for verbose in (None, VDIFF):
            for inc in (False, True):
                yield {"phase": "A", "mode": "abs", "findings": [F(s, [("a.c", 2)], verbose=verbose, inconclusive=inc)]}
                yield {"phase": "A", "mode": "abs", "findings": [F("m", [("a.c", 2, s)], verbose=verbose, inconclusive=inc)]}
                yield {"phase": "A", "mode": "abs", "findings": [F(s, [("gone.c", 2)], verbose=verbose, inconclusive=inc)]}
    yield {"phase": "C", "mode": "abs", "findings": []}
    for n in range(2, nseq + 1):
        for seq in itertools.product(range(len(SEQ)), repeat=n):
            for mode in MODES:
                yield {"phase": "C", "mode": mode, "findings": [SEQ[i] for i in seq]}


# ------------------------------------------------------------------------------------------------ XML writer
def xa(s):
    s = s.replace("&", "&amp;").replace("<", "&lt;").replace(">", "&gt;").replace('"', "&quot;")
    return '"' + s.replace("\n", "&#10;").replace("\t", "&#9;").replace("\r", "&#13;") + '"'


def to_xml(findings):
    o = ['<?xml version="1.0" encoding="UTF-8"?>', '<results version="2">', '    <cppcheck version="2.21 dev"/>',
         '    <errors>']
    for f in findings:
        a = ' id=%s severity=%s msg=%s verbose=%s' % (xa(f["id"]), xa(f["severity"]), xa(f["msg"]), xa(f["verbose"]))
        if f["cwe"]:
            a += ' cwe=%s' % xa(f["cwe"])
        if f["inconclusive"]:
            a += ' inconclusive="true"'
        if f["locs"]:
            a += ' file0=%s' % xa(f["locs"][0]["file"])
        o.append('        <error%s>' % a)
        for l in f["locs"]:
            la = ' file=%s line="%d" column="1"' % (xa(l["file"]), l["line"])
            if l["info"] is not None:
                la += ' info=%s' % xa(l["info"])
            o.append('            <location%s/>' % la)
        o.append('        </error>')
    o += ['    </errors>', '</results>', '']
    return "\n".join(o)


# ------------------------------------------------------------------------------------------------ tiny DOM
VOID = {"meta", "link", "input", "br", "hr", "img"}


class Node:
    __slots__ = ("tag", "attrs", "children", "parent")

    def __init__(self, tag, attrs=None, parent=None):
        self.tag, self.attrs, self.children, self.parent = tag, dict(attrs or ()), [], parent

    def walk(self):
        for c in self.children:
            if isinstance(c, Node):
                yield c
                yield from c.walk()

    def text(self):
        return "".join(c if isinstance(c, str) else c.text() for c in self.children)

    def own_text(self):
        return "".join(c for c in self.children if isinstance(c, str))

    def elems(self):
        return [c for c in self.children if isinstance(c, Node)]

    def cls(self):
        return (self.attrs.get("class") or "").split()


class Dom(HTMLParser):
    def __init__(self):
        HTMLParser.__init__(self, convert_charrefs=True)
        self.root = Node("#root")
        self.cur = self.root

    def handle_starttag(self, tag, attrs):
        n = Node(tag, attrs, self.cur)
        self.cur.children.append(n)
        if tag not in VOID:
            self.cur = n

    def handle_startendtag(self, tag, attrs):
        self.cur.children.append(Node(tag, attrs, self.cur))

    def handle_endtag(self, tag):
        n = self.cur
        while n is not None and n.tag != tag:
            n = n.parent
        if n is not None and n.parent is not None:
            self.cur = n.parent

    def handle_data(self, data):
        self.cur.children.append(data)


def parse_html(text):
    d = Dom()
    d.feed(text)
    d.close()
    return d.root


def raw_text(s):
    """Text content a reader gets when s is inserted into HTML without escaping."""
    return parse_html("<x>" + s + "</x>").text()


# ------------------------------------------------------------------------------------------------ worker
_W = {}


def load_module():
    ld = importlib.machinery.SourceFileLoader("cppcheck_htmlreport_c36", HTMLREPORT)
    spec = importlib.util.spec_from_loader(ld.name, ld)
    sys.dont_write_bytecode = True
    m = importlib.util.module_from_spec(spec)
    ld.exec_module(m)
    return m


def make_sources(d):
    os.makedirs(d, exist_ok=True)
    for name, (kind, content) in SOURCES.items():
        p = os.path.join(d, name)
        if kind == "directory":
            os.makedirs(p, exist_ok=True)
        elif content is not None:
            with open(p, "wb") as f:
                f.write(content if isinstance(content, bytes) else content.encode("utf-8"))


def worker_init(base):
    me = os.path.join(base, "w%d" % os.getpid())
    os.makedirs(os.path.join(me, "else"), exist_ok=True)
    make_sources(os.path.join(me, "src"))
    _W.update(dir=me, mod=load_module())


def run_report(findings, mode):
    """Run cppcheck-htmlreport's main() in this process. -> (rc, exception text|None, stderr, report dir)"""
    me, m = _W["dir"], _W["mod"]
    src, out, xml = os.path.join(me, "src"), os.path.join(me, "out"), os.path.join(me, "r.xml")
    shutil.rmtree(out, ignore_errors=True)
    with open(xml, "w", encoding="utf-8") as f:
        f.write(to_xml(findings))
    args = ["--file=" + xml, "--report-dir=" + out, "--title=T"]
    if mode == "abs":
        cwd = os.path.join(me, "else")
        args.append("--source-dir=" + src)
    elif mode == "rel":
        cwd = src
        args.append("--source-dir=.")
    else:
        cwd = src
    old_argv, old_cwd = sys.argv, os.getcwd()
    so, se = io.StringIO(), io.StringIO()
    rc, exc = 0, None
    try:
        os.chdir(cwd)
        sys.argv = ["cppcheck-htmlreport"] + args
        with contextlib.redirect_stdout(so), contextlib.redirect_stderr(se):
            try:
                m.main()
            except SystemExit as e:
                rc = e.code if isinstance(e.code, int) else (0 if e.code is None else 1)
            except Exception as e:          # noqa: the report generator crashed
                exc = "%s: %s" % (type(e).__name__, e)
    finally:
        sys.argv = old_argv
        os.chdir(old_cwd)
    return rc, exc, se.getvalue(), out


def loc_text(f, l):
    return l["info"] if l["info"] else f["msg"]


def index_rows(root):
    """Document-order scan of the summary table -> (headers [(text, href)], rows [dict])."""
    table = None
    for n in root.walk():
        if n.tag == "table" and "summaryTable" in n.cls():
            table = n
            break
    if table is None:
        return None, None
    headers, rows = [], []
    cur = None
    seen_tbody_first = set()
    for n in table.walk():
        if n.tag != "tr":
            continue
        tds = [c for c in n.elems() if c.tag == "td"]
        if "issue" in n.cls():
            rows.append({"hdr": cur, "cells": tds, "tr": n})
            continue
        if not tds:
            continue            # the <th> row
        p = n.parent
        if p is not None and p.tag == "tbody" and id(p) not in seen_tbody_first:
            seen_tbody_first.add(id(p))
            a = [x for x in tds[0].walk() if x.tag == "a"]
            cur = len(headers)
            headers.append({"text": tds[0].text(), "href": a[0].attrs.get("href") if a else None,
                            "elems": [x.tag for x in tds[0].walk() if x.tag != "a"]})
    return headers, rows


def check_index(findings, root, fails):
    headers, rows = index_rows(root)
    if headers is None:
        fails.append(("index:no-summary-table", "index.html has no summaryTable"))
        return {}
    files = []
    for f in findings:
        fn = f["locs"][0]["file"] if f["locs"] else ""
        if fn not in files:
            files.append(fn)
    # map header -> expected file (exact text, or the text an unescaped insertion of the name yields)
    hmap, href = {}, {}
    for i, h in enumerate(headers):
        for fn in files:
            if h["text"] == fn:
                hmap[i] = fn
                break
        else:
            for fn in files:
                if h["text"] == raw_text(fn) or h["elems"]:
                    if h["text"] == raw_text(fn):
                        hmap[i] = fn
                        fails.append(("index:file-name-not-escaped",
                                      "file name %r is shown as %r (elements %s)" % (fn, h["text"], h["elems"])))
                        break
        if i in hmap:
            href.setdefault(hmap[i], h["href"])
    exp = collections.Counter()
    for f in findings:
        fn = f["locs"][0]["file"] if f["locs"] else ""
        ln = str(f["locs"][0]["line"]) if f["locs"] else ""
        exp[(fn, ln, f["id"], f["severity"], f["msg"])] += 1
    obs = collections.Counter()
    for r in rows:
        c = r["cells"]
        if len(c) != 6:
            fails.append(("index:row-shape", "finding row with %d cells: %r" % (len(c), [x.text() for x in c])))
            continue
        if c[4].elems():
            fails.append(("index:message-cell-has-elements", "message cell contains elements %s"
                          % [x.tag for x in c[4].walk()]))
        sev = c[3].text()
        if sev.endswith(", inconcl."):
            sev = sev[:-len(", inconcl.")]
        obs[(hmap.get(r["hdr"], "?hdr:%s" % (headers[r["hdr"]]["text"] if r["hdr"] is not None else None)),
             c[0].text(), c[1].text(), sev, c[4].text())] += 1
    names = ("file", "line", "id", "severity", "message")
    missing, surplus = list((exp - obs).elements()), list((obs - exp).elements())
    for m in missing:
        near = [s for s in surplus if sum(1 for x, y in zip(m, s) if x != y) == 1]
        if near:
            s = near[0]
            surplus.remove(s)
            k = [names[i] for i in range(5) if m[i] != s[i]][0]
            fn = m[0]
            kind = SOURCES[fn][0] if fn in SOURCES else ("nofile" if fn == "" else "other")
            fails.append(("index:%s-wrong:%s-source" % (k, kind), "finding %r is listed as %r" % (m, s)))
        else:
            fails.append(("index:finding-missing", "finding %r is not listed in index.html" % (m,)))
    for s in surplus:
        fails.append(("index:finding-surplus", "index.html lists %r more often than the results file" % (s,)))
    return href


def check_page(fn, grouped, path, selfname, fails):
    """fn readable; grouped = findings whose primary location is in fn."""
    with open(path, encoding="utf-8") as f:
        root = parse_html(f.read())
    n = nlines(fn)
    req, opt, mreq, mopt = (collections.Counter() for _ in range(4))
    for f in grouped:
        for i, l in enumerate(f["locs"]):
            if l["file"] != fn:
                continue
            (mreq if i == 0 else mopt)[(f["id"], str(l["line"]))] += 1
            if 1 <= l["line"] <= n:
                (req if i == 0 else opt)[(l["line"], loc_text(f, l))] += 1
    obs, mobs = collections.Counter(), collections.Counter()
    line = None
    for x in root.walk():
        if x.tag == "a" and (x.attrs.get("id") or "").startswith("line-"):
            try:
                line = int(x.attrs["id"][5:])
            except ValueError:
                pass
        elif x.tag == "span" and ("error2" in x.cls() or "inconclusive2" in x.cls()):
            kids = x.elems()
            marker = [k for k in kids if k.tag == "span" and "marker" in k.cls()]
            t = x.own_text()
            if [k for k in kids if k not in marker]:
                t = "?elements%s:%s" % ([k.tag for k in kids if k not in marker], t)
            elif not t.startswith("<--- "):
                t = "?prefix:" + t
            else:
                t = t[5:]
                if marker:
                    t = t[:-1] if t.endswith(" ") else "?marker:" + t
            obs[(line, t)] += 1
        elif x.tag == "a" and "#line-" in (x.attrs.get("href") or "") and x.parent is not None \
                and x.parent.attrs.get("id") == "menu":
            parts = x.text().strip().rsplit(" ", 1)
            mobs[tuple(parts) if len(parts) == 2 else ("?", x.text())] += 1
    for k in (req - obs).elements():
        fails.append(("page:annotation-missing", "%s: no annotation %r at line %s (annotations seen: %s)"
                      % (fn, k[1], k[0], sorted(obs.elements(), key=repr)[:6])))
    for k in (obs - req - opt).elements():
        fails.append(("page:annotation-surplus", "%s: annotation %r at line %s belongs to no finding / appears too often"
                      % (fn, k[1], k[0])))
    for k in (mreq - mobs).elements():
        fails.append(("page:menu-entry-missing", "%s: no menu entry %r" % (fn, k)))
    for k in (mobs - mreq - mopt).elements():
        fails.append(("page:menu-entry-surplus", "%s: surplus menu entry %r" % (fn, k)))
    for x in root.walk():
        if x.tag in INJECTED_TAGS:
            fails.append(("page:markup-element", "%s: element <%s> (only message texts contain it) in the page" % (fn, x.tag)))
            break


def evaluate_once(findings, mode):
    fails = []
    rc, exc, err, out = run_report(findings, mode)
    if exc:
        return [("crash:" + exc.split(":")[0], exc)], {"stderr": err[-500:]}
    if rc != 0:
        return [("exit:%s" % rc, "cppcheck-htmlreport exit status %s: %s" % (rc, err[-300:]))], {}
    ipath = os.path.join(out, "index.html")
    if not os.path.isfile(ipath):
        return [("index:not-written", "no index.html")], {}
    with open(ipath, encoding="utf-8") as f:
        iroot = parse_html(f.read())
    href = check_index(findings, iroot, fails)
    for x in iroot.walk():
        if x.tag in INJECTED_TAGS:
            fails.append(("index:markup-element", "element <%s> in index.html" % x.tag))
            break
    groups = collections.OrderedDict()
    for f in findings:
        if f["locs"]:
            groups.setdefault(f["locs"][0]["file"], []).append(f)
    pages = 0
    for fn, grouped in groups.items():
        if not readable(fn):
            continue
        h = href.get(fn)
        p = os.path.join(out, h) if h else None
        if not p or not os.path.isfile(p):
            fails.append(("page:not-written", "no page for readable source %r (index link %r)" % (fn, h)))
            continue
        pages += 1
        check_page(fn, grouped, p, h, fails)
    return fails, {"pages": pages}


def needs_escape(s):
    return "<" in s or "&" in s


def twin(findings):
    """Same result file with every annotation text that needs HTML escaping replaced by a neutral unique text."""
    out, n = [], 0
    for f in findings:
        g = json.loads(json.dumps(f))
        same = g["verbose"] == g["msg"]
        if needs_escape(g["msg"]):
            n += 1
            g["msg"] = "neutral%d" % n
            if same:
                g["verbose"] = g["msg"]
        for l in g["locs"]:
            if l["info"] and needs_escape(l["info"]):
                n += 1
                l["info"] = "neutral%d" % n
        out.append(g)
    return out, n


def evaluate(case):
    findings, mode = case["findings"], case["mode"]
    fails, info = evaluate_once(findings, mode)
    page_fails = [f for f in fails if f[0].startswith("page:")]
    if page_fails:
        tw, n = twin(findings)
        if n:
            tf, _ = evaluate_once(tw, mode)
            if not [f for f in tf if f[0].startswith("page:")]:
                # the page is correct as soon as no annotation text needs escaping: one class
                fails = [f for f in fails if not f[0].startswith("page:")]
                fails.append(("page:annotation-text-not-escaped", page_fails[0][1]))
                info["twin_clean"] = True
    return case, fails, info


# ------------------------------------------------------------------------------------------------ driver
def describe(case):
    return {"mode": case["mode"], "phase": case["phase"], "findings": case["findings"]}


def main(tier, replay=None):
    ctx = Ctx("C36", tier, "model_checking", 170 if tier == "quick" else 1700, replay)
    build.build("plain")
    base = os.path.join(run.scratch_base(), "c36")
    os.makedirs(base, exist_ok=True)
    if replay:
        a = replay["artefact"]
        worker_init(base)
        case = {"phase": a.get("phase", "replay"), "mode": a["mode"], "findings": a["findings"]}
        print("results file:\n" + to_xml(case["findings"]))
        _, fails, info = evaluate(case)
        print("expected: every finding once in index.html (file, line, id, severity, message text) and once at its line "
              "in the page of its readable source")
        _, _, err, out = run_report(case["findings"], case["mode"])      # evaluate() may have left the twin's report
        marks = ('class="error2', 'class="inconclusive2', "<tr class=", 'colspan="6"')
        for fn in sorted(os.listdir(out)) if os.path.isdir(out) else []:
            if fn.endswith(".html") and fn != "stats.html":
                for ln in open(os.path.join(out, fn), encoding="utf-8"):
                    if any(m in ln for m in marks):
                        print("observed %s: %s" % (fn, ln.strip()[:700]))
        if err.strip():
            print("stderr: " + err.strip()[:400])
        for k, w in fails:
            print("FAIL %s: %s" % (k, w))
        print("recorded key: %s -> %s" % (replay.get("key"), "reproduced" if replay.get("key") in [k for k, _ in fails]
                                          else "NOT reproduced"))
        return 0
    outcomes = collections.Counter()
    phase_n = collections.Counter()

    def gen():
        for c in cases(tier):
            if ctx.expired():
                return
            yield c
    mp = multiprocessing.get_context("fork")
    with mp.Pool(NCPU, initializer=worker_init, initargs=(base,)) as pool:
        for case, fails, info in pool.imap(evaluate, gen(), chunksize=16):
            ctx.count()
            phase_n[case["phase"]] += 1
            fs = case["findings"]
            if not fs:
                ctx.bump("vacuous_no_finding")
            else:
                ctx.distinct(sha(describe(case)))
            ctx.bump("findings_checked", len(fs))
            ctx.bump("pages_checked", info.get("pages", 0))
            keys = sorted(set(k for k, _ in fails))
            outcomes[",".join(keys) or "ok"] += 1
            seen = set()
            for k, w in fails:
                if k in seen:
                    continue
                seen.add(k)
                ctx.violation(k, w, dict(describe(case), failures=[list(x) for x in fails][:10]))
            if case["phase"] == "C" and len(fs) == 3:
                ctx.sample({"mode": case["mode"], "findings": [(f["id"], f["severity"], f["msg"],
                            [(l["file"], l["line"]) for l in f["locs"]]) for f in fs], "outcome": keys or "ok"}, maxn=3)
            elif case["phase"] == "A" and needs_escape(fs[0]["msg"]):
                ctx.sample({"mode": case["mode"], "finding": fs[0], "outcome": keys or "ok"}, maxn=5)
    shutil.rmtree(base, ignore_errors=True)
    ctx.cov.update({"states": max(1, len(ctx._distinct)), "transitions": max(1, ctx.evaluations),
                    "traces_validated_against_impl": ctx.evaluations,
                    "cases_per_phase": dict(phase_n), "outcome_classes": dict(outcomes),
                    "token_alphabet": TOKENS, "max_tokens_per_text": 2 if tier == "quick" else 3,
                    "max_findings_per_file": 3 if tier == "quick" else 4, "source_dir_modes": list(MODES)})
    ctx.assumptions = [
        "a location's info text is accepted as the annotation text of that location (the page shows info instead of msg)",
        "annotations are required only for the primary location and only for 1 <= line <= number of source lines; "
        "secondary-location annotations in the same file are allowed, not required",
        "severity cell may carry the suffix ', inconcl.'",
        "unreadable = nonexistent / directory / not valid UTF-8 (tests run as root, mode 000 would still be readable)"]
    return ctx.finish(
        rule="phase B: one finding, full product of id(2) x severity(6) x inconclusive(2) x cwe(2) x %d location shapes x "
             "2 messages x 3 source-dir modes (quick: --source-dir=. only for the undecodable source); phase A: one finding whose message / location info is each string of <= %d "
             "tokens over a %d-token alphabet x verbose equal/different x inconclusive x 3 placements; phase C: every "
             "sequence with repetition of 2..%d findings over a %d-finding alphabet x 3 modes. One case = one results file "
             "rendered in-process and fully checked; distinct = distinct (results file, mode); non-trivial = at least one "
             "finding" % (len(list(shapes())), 2 if tier == "quick" else 3, len(TOKENS), 3 if tier == "quick" else 4, len(SEQ)))


if __name__ == "__main__":
    sys.exit(main(sys.argv[1] if len(sys.argv) > 1 else "quick"))
