"""C32 -- compilation-database import reproduces the compiler's options.

Reference = POSIX word splitting (shlex.split, posix=True) for "command" strings + a GCC option table written from
GCC's documented forms.  Exhaustive enumeration: every ordered selection (no repetition) of <= K option items of a
21-item alphabet x compiler path x source-path form x entry form (arguments array / command string in four quoting
styles), plus pairs of entries naming the SAME file.  Hundreds of entries with distinct file names go into ONE
compile_commands.json; two runs of the real binary per batch observe every entry:
  * `-v`  : the "Checking <file> ..." / "Defines:" / "Undefines:" / "Includes:" block of every entry
  * `-E`  : the preprocessed marker file (m_A=A; ... m_STDC=__STDC_VERSION__; m_CPP=__cplusplus;) of every entry whose
            file exists -> macro values and the language standard as the preprocessor really saw them.
Oracle: equality of the define map (name -> value), the undefine set, the ordered -I list (made absolute) and the
standard with the reference.
"""
import collections, itertools, json, os, re, shlex
from vlib import build, run
from vlib.core import Ctx, pmap, sha

ITEMS = [("-DA",), ("-D", "A"), ("-DA=1",), ("-DA=x y",), ('-DS="q"',), ("-DS='q'",), ("-UA",), ("-U", "A"),
         ("-Iinc",), ("-I", "inc"), ("-I/abs/inc",), ("-isystem", "sys"), ("-std=c99",), ("-std=gnu++17",),
         ("-c",), ("-o", "out.o"), ("-o", "-DX"), ("-include", "pre.h"), ("-MF", "-DY.d"),
         ("-fPIC",), ("-fpie",), ("-municode",)]
COMPILERS = ["gcc", "/usr/bin/cc", "/Inst/gcc"]
SOURCES = ["rel", "dotrel", "abs", "Data", "Uni"]
FORMS = ["args", "none", "single", "double", "backslash", "inner"]
EXISTING = ("rel", "dotrel", "abs")
MARKERS = ["A", "S", "X", "__PIC__", "__pie__", "UNICODE"]
BATCH = 400

# ---- reference ---------------------------------------------------------------------------------------------------
# GCC options that take an argument, joined or separate; the argument is consumed and never reinterpreted
ARG_OPTS = ["-isystem", "-include", "-imacros", "-idirafter", "-iquote", "-MF", "-MT", "-MQ", "-D", "-U", "-I", "-o", "-x"]
IMPLICIT = {"-fPIC": {"__PIC__", "__pic__"}, "-fpic": {"__PIC__", "__pic__"},
            "-fPIE": {"__PIE__", "__pie__", "__PIC__", "__pic__"}, "-fpie": {"__PIE__", "__pie__", "__PIC__", "__pic__"},
            "-municode": {"UNICODE", "_UNICODE"}}
Ref = collections.namedtuple("Ref", "defs undefs incs sysincs std implicit consumed positional defseq")


def resolve(directory, p):
    return os.path.normpath(p if p.startswith("/") else os.path.join(directory, p))


def ref_parse(args, directory):
    """GCC's reading of an argument vector (args[0] = compiler)."""
    defs, undefs, incs, sysincs, std, implicit, consumed, positional, defseq = {}, set(), [], [], None, set(), [], [], []
    i = 1
    while i < len(args):
        a = args[i]
        i += 1
        opt = next((o for o in ARG_OPTS if a.startswith(o)), None)
        if opt:
            if len(a) > len(opt):
                val = a[len(opt):]
            elif i < len(args):
                val = args[i]
                i += 1
            else:
                continue
            if opt == "-D":
                n, eq, v = val.partition("=")
                defs[n] = v if eq else "1"          # a later -D of the same name replaces the earlier one
                defseq.append((n, defs[n]))
            elif opt == "-U":
                undefs.add(val)
            elif opt == "-I":
                d = resolve(directory, val)
                if d not in incs:
                    incs.append(d)
            elif opt == "-isystem":
                sysincs.append(resolve(directory, val))
            else:
                consumed.append((opt, val))
            continue
        if a.startswith("-std="):
            std = a[5:]
        elif a in IMPLICIT:
            implicit |= IMPLICIT[a]
        elif not a.startswith("-"):
            positional.append(a)
    return Ref(defs, undefs, incs, sysincs, std, implicit, consumed, positional, defseq)


# ---- entry construction ------------------------------------------------------------------------------------------
def quote(args, form):
    if form == "none":
        return " ".join(args)
    if form == "single":
        return " ".join("'" + a.replace("'", "'\\''") + "'" for a in args)
    if form == "double":
        return " ".join('"' + a.replace("\\", "\\\\").replace('"', '\\"') + '"' for a in args)
    if form == "backslash":
        return " ".join(re.sub(r"([ \"'\\])", r"\\\1", a) for a in args)
    if form == "inner":       # quotes only around the value part of a word, as build systems write it: -DA="x y"  -DS='"q"'
        out = []
        for a in args:
            if not re.search(r"[ \"'\\]", a):
                out.append(a)
                continue
            head, eq, val = a.partition("=")
            if not eq or re.search(r"[ \"'\\]", head):
                head, eq, val = "", "", a
            q = "'" + val + "'" if "'" not in val else '"' + val.replace("\\", "\\\\").replace('"', '\\"') + '"'
            out.append(head + eq + q)
        return " ".join(out)
    raise ValueError(form)


def make_entry(spec, n):
    """spec = (item indices, compiler, source form, entry form[, shared file number]) -> dict with placeholders {WS}."""
    items, comp, src, form = spec[:4]
    fno = spec[4] if len(spec) > 4 else n
    flat = [a for i in items for a in ITEMS[i]]
    ext = ".cpp" if "-std=gnu++17" in flat else ".c"
    base = "f%d%s" % (fno, ext)
    path = {"rel": base, "dotrel": "./s/../" + base, "abs": "{WS}/bld/" + base, "Data": "/Data/" + base,
            "Uni": "/Uni/" + base}[src]
    args = [comp] + flat + [path]
    e = {"directory": "{WS}/bld", "file": path}
    if form == "args":
        e["arguments"] = args
    else:
        e["command"] = quote(args, form)
    return e, base, src in EXISTING


def subst(e, ws):
    return json.loads(json.dumps(e).replace("{WS}", ws))


def specs(K, tier):
    seqs = [()]
    for k in range(1, K + 1):
        seqs += list(itertools.permutations(range(len(ITEMS)), k))
    for s in seqs:                       # simplest first
        for comp in COMPILERS:
            for src in SOURCES:
                for form in FORMS:
                    yield (s, comp, src, form)


def dup_specs():
    """Two entries naming the same file with different options (both must be analysed with their own options)."""
    n = len(ITEMS)
    for x in range(n):
        for y in range(n):
            for form in ("args", "none"):
                yield ((x,), "gcc", "rel", form), ((y,), "gcc", "rel", form)


# ---- observation -------------------------------------------------------------------------------------------------
RE_CHK = re.compile(r"^Checking (\S+) \.\.\.$")
MARKER_SRC = "m_ID=%d;\n" + "".join("m_%s=%s;\n" % (m, m) for m in MARKERS) + "m_STDC=__STDC_VERSION__;\nm_CPP=__cplusplus;\n"


def parse_verbose(text):
    """-> {basename: [ {defs, undefs, incs} per block in order ]}"""
    out, cur = collections.defaultdict(list), None
    for line in text.splitlines():
        m = RE_CHK.match(line)
        if m:
            cur = {"file": m.group(1), "defs": None, "undefs": None, "incs": None}
            out[os.path.basename(m.group(1))].append(cur)
        elif cur is not None:
            if line.startswith("Defines:") and cur["defs"] is None:
                d = collections.OrderedDict()
                for x in line[8:].split(";"):
                    if x:
                        n, _, v = x.partition("=")
                        d[n] = v
                cur["defs"] = d
            elif line.startswith("Undefines:") and cur["undefs"] is None:
                cur["undefs"] = set(x.strip() for x in line[10:].split(";") if x.strip())
            elif line.startswith("Includes:") and cur["incs"] is None:
                cur["incs"] = [x for x in line[9:].split(" -I") if x.strip()]
    return out


def parse_E(text):
    """-> {id: [ {marker: value} per block in order ]}"""
    out, cur = collections.defaultdict(list), None
    for line in text.splitlines():
        m = re.match(r"^m_(\w+)\s*=(.*);\s*$", line)
        if not m:
            continue
        k, v = m.group(1), re.sub(r"\s+", "", m.group(2))
        if k == "ID":
            cur = {}
            out[int(v)].append(cur)
        elif cur is not None:
            cur[k] = v
    return out


def run_batch(batch):
    """batch = list of (spec, n).  -> list of (spec, n, entry, obs_v, obs_E)"""
    with run.WS() as ws:
        os.makedirs(ws.path("bld/s"))
        entries, meta, count = [], [], collections.Counter()
        # control entries: no options, .c and .cpp -> the defaults of this binary
        for cn, ext in ((0, ".c"), (1, ".cpp")):
            ws.write("bld/ctl%d%s" % (cn, ext), MARKER_SRC % (2000000000 + cn))
            entries.append({"directory": ws.path("bld"), "file": "ctl%d%s" % (cn, ext),
                            "arguments": ["gcc", "-c", "ctl%d%s" % (cn, ext)]})
        for spec, n in batch:
            e, base, exists = make_entry(spec, n)
            fno = spec[4] if len(spec) > 4 else n
            fno = fno * 2 + (1 if base.endswith(".cpp") else 0)     # marker id, unique per file
            if exists and not os.path.exists(ws.path("bld/" + base)):
                ws.write("bld/" + base, MARKER_SRC % fno)
            entries.append(subst(e, ws.dir))
            meta.append((spec, n, e, base, exists, count[base], fno))
            count[base] += 1
        ws.write("compile_commands.json", json.dumps(entries, indent=0))
        rv = run.cppcheck(["-v", "--project=compile_commands.json"], ws.dir, timeout=600)
        rE = run.cppcheck(["-E", "--project=compile_commands.json"], ws.dir, timeout=600)
        if rv.timed_out or rE.timed_out:       # overloaded machine: no verdict from this batch
            return None, None, None
        V, E = parse_verbose(rv.text_out()), parse_E(rE.text_out())
        ctl = {"STDC": (E.get(2000000000) or [{}])[0].get("STDC"), "CPP": (E.get(2000000001) or [{}])[0].get("CPP")}
        res = []
        for spec, n, e, base, exists, k, fno in meta:
            bl = V.get(base, [])
            ov = bl[k] if k < len(bl) else None
            be = E.get(fno, [])
            oe = (be[k] if k < len(be) else None) if exists else None
            res.append((spec, n, e, base, exists, ov, oe, ws.dir))
        return res, ctl, (rv.rc, rE.rc)


# ---- oracle ------------------------------------------------------------------------------------------------------
def entry_args(e):
    return list(e["arguments"]) if "arguments" in e else shlex.split(e["command"], posix=True)


def explain(kind, text, args, ref, directory):
    """Class key for an element cppcheck has and the reference has not.  kind in D,U,I,S."""
    def as_kind(word, prefix_len):
        rest = word[prefix_len:]
        if kind == "D":
            return rest.partition("=")[0]
        if kind == "I":
            return resolve(directory, rest)
        return rest
    for w in [args[0]] + ref.positional:                  # paths
        if w.startswith("/" + kind) and as_kind(w, 2) == text:
            return "slash-path-parsed-as-option:/" + kind
    for opt, val in ref.consumed:                         # argument of -o, -MF, -include ...
        if val.startswith("-" + kind) and as_kind(val, 2) == text:
            return "consumed-argument-reinterpreted:" + opt
        if kind == "S" and val.startswith("-std=") and val[5:] == text:
            return "consumed-argument-reinterpreted:" + opt
    return None


def judge(ctx, spec, e_t, base, exists, ov, oe, wsdir, ctl):
    e = subst(e_t, wsdir)
    directory = e["directory"]
    args = entry_args(e)
    ref = ref_parse(args, directory)
    problems = []        # (class key | None, text)
    if ov is None or ov["defs"] is None or ov["undefs"] is None or ov["incs"] is None:
        problems.append((None, "entry not analysed: no 'Checking %s ...' block with Defines/Undefines/Includes" % base))
    else:
        od = collections.OrderedDict((k, v) for k, v in ov["defs"].items() if k not in ref.implicit)
        for k, v in od.items():
            if k not in ref.defs:
                problems.append((explain("D", k, args, ref, directory), "extra define %s=%s" % (k, v)))
            elif v != ref.defs[k]:
                problems.append((None, "define %s has value %r, expected %r" % (k, v, ref.defs[k])))
        for k in ref.defs:
            if k not in od:
                problems.append((None, "define %s=%s missing" % (k, ref.defs[k])))
        for u in sorted(ov["undefs"] - ref.undefs):
            problems.append((explain("U", u, args, ref, directory), "extra undefine %s" % u))
        for u in sorted(ref.undefs - ov["undefs"]):
            problems.append((None, "undefine %s missing" % u))
        oi = [resolve(wsdir, p) for p in ov["incs"]]
        oi = [p for p in oi if not (p in ref.sysincs and p not in ref.incs)]     # -isystem: optional (see notes)
        extra = [p for p in oi if p not in ref.incs]
        for p in extra:
            problems.append((explain("I", p, args, ref, directory), "extra include path %s" % p))
        oi2 = [p for p in oi if p in ref.incs]
        if oi2 != ref.incs:
            problems.append((None, "include paths %s, expected (ordered) %s" % (oi2, ref.incs)))
    if exists:
        if oe is None:
            problems.append((None, "entry's file not preprocessed in the -E run"))
        else:
            for m in ("A", "S", "X"):
                got = oe.get(m)
                if m in ref.undefs and m in ref.defs:
                    continue                                  # -D and -U of one name: order semantics not judged
                want = re.sub(r"\s+", "", ref.defs[m]) if m in ref.defs else m
                if got != want:
                    k = explain("D", m, args, ref, directory) if m not in ref.defs else None
                    if m in ref.defs and got in [re.sub(r"\s+", "", v) for n_, v in ref.defseq if n_ == m][:-1]:
                        k = "redefinition-earlier-D-wins"
                    problems.append((k, "preprocessor sees %s as %r, expected %r" % (m, got, want)))
            cpp = base.endswith(".cpp")
            want = None
            if ref.std is None:
                want = ctl["CPP"] if cpp else ctl["STDC"]
            elif ref.std == "c99" and not cpp:
                want = "199901L"
            elif ref.std == "gnu++17" and cpp:
                want = "201703L"
            if want is not None:
                got = oe.get("CPP" if cpp else "STDC")
                if got != want:
                    problems.append((explain("S", ref.std or "", args, ref, directory),
                                     "standard macro is %r, expected %r (-std=%s)" % (got, want, ref.std)))
                ctx.bump("entries_standard_judged")
            else:
                ctx.bump("entries_standard_not_judged_language_mismatch")
    ctx.count()
    if ref.defs:
        ctx.bump("entries_with_defines")
    if ref.incs:
        ctx.bump("entries_with_include_paths")
    if ref.undefs:
        ctx.bump("entries_with_undefines")
    if ref.std:
        ctx.bump("entries_with_standard")
    if ref.consumed:
        ctx.bump("entries_with_consumed_option_argument")
    if not (ref.defs or ref.incs or ref.undefs or ref.std):
        ctx.bump("entries_vacuous_no_D_U_I_std")
    else:
        ctx.distinct(sha([args, e["file"]]))
    if exists:
        ctx.bump("entries_file_exists_preprocessor_observed")
    art = {"entry": e_t, "expected": {"defines": ref.defs, "undefines": sorted(ref.undefs), "includes": ref.incs,
                                     "std": ref.std, "implicit_allowed": sorted(ref.implicit)},
           "observed_v": None if ov is None else {"defines": ov["defs"], "undefines": sorted(ov["undefs"] or []),
                                                  "includes": ov["incs"]},
           "observed_E": oe, "problems": [p[1] for p in problems], "argv_by_reference": args}
    seen = set()
    for key, text in problems:
        key = key or ("other:" + re.sub(r"[0-9/]+\S*", "#", text)[:50])
        if key in seen:
            continue
        seen.add(key)
        ctx.violation(key, "%s  [%s]" % (text, json.dumps(e_t, sort_keys=True)), art)
    return problems


def gcc_crosscheck(ctx):
    """The reference option table against the real gcc (preprocessor view of A, S, X) for every single item and a few
    pairs; an argv gcc rejects is skipped.  A mismatch means the REFERENCE is wrong (reported as a violation)."""
    import subprocess
    seqs = [()] + [(i,) for i in range(len(ITEMS))]
    idx = {ITEMS[i]: i for i in range(len(ITEMS))}
    for a, b in ((("-DA",), ("-DA=x y",)), (("-DA=x y",), ("-DA",)), (("-o", "-DX"), ("-DA",)), (("-DA=1",), ("-o", "-DX")),
                 (("-Iinc",), ("-o", "-DX")), (("-include", "pre.h"), ("-DA",))):
        seqs.append((idx[a], idx[b]))
    with run.WS() as ws:
        os.makedirs(ws.path("inc"))
        os.makedirs(ws.path("sys"))
        ws.write("pre.h", "\n")
        ws.write("t.c", MARKER_SRC % 1)
        ws.write("t.cpp", MARKER_SRC % 1)
        for s in seqs:
            flat = [a for i in s for a in ITEMS[i]]
            src = "t.cpp" if "-std=gnu++17" in flat else "t.c"
            args = ["gcc"] + flat + [src]
            ref = ref_parse(args, ws.dir)
            outfile = next((v for o, v in ref.consumed if o == "-o"), None)
            extra = ["-MD"] if any(o == "-MF" for o, v in ref.consumed) else []
            p = subprocess.run(["g++" if src.endswith("pp") else "gcc", "-E", "-P", "-w"] + extra + flat + [src], cwd=ws.dir,
                               stdout=subprocess.PIPE, stderr=subprocess.PIPE)
            if p.returncode != 0:
                ctx.bump("gcc_crosscheck_argv_rejected_by_gcc")
                continue
            text = open(ws.path(outfile)).read() if outfile else p.stdout.decode()
            got = (parse_E(text).get(1) or [{}])[0]
            ctx.bump("gcc_crosscheck_argv_compared")
            for m in ("A", "S", "X"):
                if m in ref.defs and m in ref.undefs:
                    continue
                want = re.sub(r"\s+", "", ref.defs[m]) if m in ref.defs else m
                if got.get(m) != want:
                    ctx.violation("reference-disagrees-with-gcc", "gcc %s: gcc sees %s as %r, reference says %r" % (" ".join(flat), m, got.get(m), want),
                                  {"entry": {"directory": "{WS}/bld", "file": src, "arguments": args}})


def main(tier, replay=None):
    ctx = Ctx("C32", tier, "model_checking", 600 if tier == "quick" else 1700, replay)
    build.build("plain")
    if replay:
        e_t = replay["artefact"]["entry"]
        base = os.path.basename(e_t["file"])
        with run.WS() as ws:
            os.makedirs(ws.path("bld/s"))
            exists = not e_t["file"].startswith(("/Data", "/Uni"))
            if exists:
                ws.write("bld/" + base, MARKER_SRC % 7)
            e = subst(e_t, ws.dir)
            ws.write("compile_commands.json", json.dumps([e], indent=1))
            print(json.dumps([e], indent=1))
            rv = run.cppcheck(["-v", "--project=compile_commands.json"], ws.dir)
            rE = run.cppcheck(["-E", "--project=compile_commands.json"], ws.dir)
            print("--- cppcheck -v --project=compile_commands.json\n" + rv.text_out() + rv.text_err())
            print("--- cppcheck -E --project=compile_commands.json\n" + rE.text_out())
            ref = ref_parse(entry_args(e), e["directory"])
            print("--- expected (shlex + GCC option table): defines=%s undefines=%s includes=%s std=%s" % (
                dict(ref.defs), sorted(ref.undefs), ref.incs, ref.std))
            V = parse_verbose(rv.text_out()).get(base, [None])[0]
            print("--- observed: %s" % ({k: (dict(v) if isinstance(v, dict) else v) for k, v in (V or {}).items()},))
            print("--- recorded problems: %s" % replay["artefact"].get("problems"))
        return 0
    gcc_crosscheck(ctx)
    K = 2 if tier == "quick" else 3
    work, n = [], 0
    for s in specs(K, tier):
        work.append((s, n))
        n += 1
    for s1, s2 in dup_specs():
        work.append((s1 + (n,), n))
        work.append((s2 + (n,), n + 1))
        n += 2
    # drop entries whose JSON is identical to an earlier one up to the file number (backslash == none when nothing to quote)
    seen, uniq = set(), []
    for spec, i in work:
        e, base, _ = make_entry(spec, 0 if len(spec) == 4 else -1)
        k = json.dumps(e, sort_keys=True) + ("#dup%d" % spec[4] if len(spec) > 4 else "")
        if k in seen:
            continue
        seen.add(k)
        uniq.append((spec, i))
    batches = []
    # keep the two entries of a shared file in one batch
    cur = []
    for spec, i in uniq:
        cur.append((spec, i))
        if len(cur) >= BATCH and not (len(spec) > 4 and spec[4] == i):
            batches.append(cur)
            cur = []
    if cur:
        batches.append(cur)
    ctx.cov["entries_enumerated"] = len(uniq)
    ctx.cov["batches"] = len(batches)

    def do(b):
        if ctx.expired():
            return None
        return run_batch(b)
    nproblem = 0
    for r in pmap(do, batches):
        if r is None:
            continue
        res, ctl, rcs = r
        if res is None:
            ctx.bump("batches_timed_out")
            ctx.capped = True
            continue
        ctx.bump("process_runs", 2)
        if ctl["STDC"] is None or ctl["CPP"] is None:
            ctx.violation("control-entry-not-observed", "control entries not preprocessed (rc=%s)" % (rcs,), {"entry": None})
            continue
        for spec, i, e_t, base, exists, ov, oe, wsdir in res:
            p = judge(ctx, spec, e_t, base, exists, ov, oe, wsdir, ctl)
            if p:
                nproblem += 1
            if len(ctx.samples) < 4 and spec[0] and i % 977 == 0:
                ctx.sample({"entry": e_t, "observed": None if ov is None else {"defines": ov["defs"], "undefines": sorted(ov["undefs"] or []), "includes": ov["incs"]},
                            "preprocessor": oe})
    ctx.cov["entries_disagreeing_with_reference"] = nproblem
    ctx.cov["entries_agreeing_with_reference"] = ctx.evaluations - nproblem
    ctx.cov.update({"states": max(1, ctx.evaluations), "transitions": max(1, ctx.evaluations),
                    "traces_validated_against_impl": ctx.evaluations, "alphabet": [" ".join(i) for i in ITEMS],
                    "max_items": K})
    ctx.assumptions = [
        "reference word splitting = Python shlex.split(posix=True); option semantics = GCC manual forms (-D/-U/-I joined or separate, "
        "-isystem, -std=, argument of -o/-MF/-MT/-MQ/-include/-imacros/-x consumed, argv[0] and positional words are not options)",
        "-isystem directories may or may not be listed by cppcheck (not judged); macros implied by -fPIC/-fpie/-municode are allowed, not demanded",
        "-D and -U are compared as sets (their relative order is not judged)",
        "the option table is cross-checked against the installed gcc/g++ (-E -P) for every single item and six pairs (gcc_crosscheck_* counters)",
        "standard observed through __STDC_VERSION__/__cplusplus of the -E run; only judged when -std matches the file's language; "
        "no -std = the binary's default (control entry of the same run)"]
    return ctx.finish(
        rule="all ordered selections without repetition of <= %d option items of a %d-item alphabet x 3 compiler paths x 5 source-path "
             "forms x 6 entry forms (arguments array, command string unquoted / single- / double-quoted / backslash-escaped / value-only quoted), identical "
             "JSON dropped, + all ordered pairs of single-item entries naming the same file; %d entries per cppcheck run; distinct/"
             "nontrivial = distinct (argv, file) whose reference has at least one -D/-U/-I/-std" % (K, len(ITEMS), BATCH),
        extra={"bound_items": K})


if __name__ == "__main__":
    import sys
    sys.exit(main(sys.argv[1] if len(sys.argv) > 1 else "quick"))
