"""C20 -- an interrupted run never corrupts later incremental results.

Engine F (crash-point enumeration): the mutating-syscall trace of a real run with --cppcheck-build-dir is recorded
(strace); EVERY prefix of it is a crash state, plus EVERY byte-prefix of every write to a cache file (torn write).
Each crash state is materialised on top of each pre-state (empty dir / complete run on the same inputs / complete run
on an older version of the inputs) and the COMPLETE command is run on it; it must report exactly what a run without a
build directory reports.  The state model is bound to the implementation by (1) full-trace replay == real final
directory, (2) really SIGKILLing the run at many syscall indices: the directory left behind must be one of the
enumerated crash states."""
import os, shutil, collections, itertools
from vlib import build, run, crashtrace as ct
from vlib.core import Ctx, sha, pmap

OPTS = ["-q", "--enable=all", "--inline-suppr", "--error-exitcode=7", "--suppress=missingIncludeSystem"]
H = "static int hv(int *p) { if (p) {} return *p; }\n#define HIDX 2\n"
A = "#include \"h.h\"\nvoid fa(void) { int a[2];\n a[HIDX] = 0; }\nint ua(void) { return 1; }\nvoid fn(int *q) { fb2(q); }\n"
A_OLD = "#include \"h.h\"\n\nvoid fa(void) { int a[2];\n a[1] = 0; }\nint ua(void) { return 1; }\nint ua_old(void) { return 2; }\nvoid fn(int *q) { fb2(q); }\n"
B = "#include \"h.h\"\n// cppcheck-suppress zerodiv\nvoid fb(int x) { int b[3];\n b[3] = x; }\nvoid fb2(int *p) { *p = 0; }\n"
C = ("void fb2(int *p);\nvoid fc(void) { int *z = 0; fb2(z); }\n"
     "#ifdef CFG_X\nvoid fx(void) { int x[2]; x[2] = 0; }\n#endif\n"       # three configurations, each with its own finding:
     "#ifdef CFG_Y\nvoid fy(void) { int y[3]; y[4] = 0; }\n#endif\n")      # a cache file written per configuration
FILES = {"h.h": H, "a.c": A, "b.c": B, "c.c": C}
ORDER = ["a.c", "b.c", "c.c"]


def observe(args, cwd):
    fs, r = run.findings_xml(args, cwd)
    if fs is None:
        return ("XML-BROKEN", r.rc, r.text_err()[-300:])
    return (tuple(sorted(run.fkey(f) for f in fs if f["id"] != "checkersReport")), r.rc)


def diffs(a, b):
    if a[0] == "XML-BROKEN" or b[0] == "XML-BROKEN":
        return {"xml": "broken", "detail": str(b)[:300]}
    ca, cb = collections.Counter(a[0]), collections.Counter(b[0])
    sh = lambda c: sorted("%s@%s:%s" % (k[0], k[5][-1][0] if k[5] else "", k[5][-1][1] if k[5] else "") for k in c.elements())
    return {"missing": sh(ca - cb), "extra": sh(cb - ca), "rc_fresh": a[1], "rc_after_crash": b[1]}


def main(tier, replay=None):
    ctx = Ctx("C20", tier, "fault_enumeration", 1500 if tier == "quick" else 5400, replay)
    build.build("plain")
    jobs_list = ["-j1"]
    base = run.WS(FILES)
    fresh = observe(OPTS + ORDER, base.dir)
    # pre-states
    pre = {}
    os.makedirs(base.path("pre/empty"))
    pre["empty"] = base.path("pre/empty")
    w = run.WS(FILES); os.makedirs(w.path("bd"))
    observe(OPTS + ["--cppcheck-build-dir=bd"] + ORDER, w.dir)
    shutil.copytree(w.path("bd"), base.path("pre/same")); pre["same"] = base.path("pre/same"); w.close()
    w = run.WS(dict(FILES, **{"a.c": A_OLD})); os.makedirs(w.path("bd"))
    observe(OPTS + ["--cppcheck-build-dir=bd"] + ORDER, w.dir)
    shutil.copytree(w.path("bd"), base.path("pre/older")); pre["older"] = base.path("pre/older"); w.close()
    if replay:
        a = replay["artefact"]
        w = run.WS(FILES); shutil.copytree(pre[a["pre"]], w.path("bd"))
        ops, rc, _ = ct.record(OPTS + ["--cppcheck-build-dir=bd"] + ORDER, w.dir, "bd")
        w2 = run.WS(FILES); ct.materialise(pre[a["pre"]], ops, a["n"], a["torn"], w2.path("bd"))
        got = observe(OPTS + ["--cppcheck-build-dir=bd"] + ORDER, w2.dir)
        print(diffs(fresh, got))
        return 0 if got == fresh else 1
    validated = 0
    total_states = 0
    per = []
    for pname, pdir in pre.items():
        # 1. record the trace of the real run on this pre-state
        w = run.WS(FILES); shutil.copytree(pdir, w.path("bd"))
        args = OPTS + ["--cppcheck-build-dir=bd"] + ORDER
        ops, rc, counts = ct.record(args, w.dir, "bd")
        final = ct.dirstate(w.path("bd"))
        w.close()
        # binding 1: full replay reproduces the real final directory
        chk = os.path.join(run.scratch_base(), "c20chk")
        if ct.dirstate(ct.materialise(pdir, ops, len(ops), None, chk)) != final:
            ctx.violation("harness:replay-mismatch", "trace replay does not reproduce the real final build dir (%s)" % pname, {"pre": pname})
            continue
        validated += 1
        # 2. enumerate crash states
        states = [(n, None) for n in range(len(ops) + 1)]
        for n, op in enumerate(ops):
            if op.kind == "write" and not op.path.startswith("checkers") and len(op.data) > 1:
                if tier == "thorough":
                    stride = 1
                elif pname == "older" and op.path.endswith(".a1"):
                    stride = 7
                else:
                    stride = 0
                if stride:
                    states += [(n, t) for t in range(1, len(op.data), stride)]
                if op.path.rsplit(".", 1)[-1].startswith("a") and tier != "thorough":
                    # every line boundary of a cache-file write: the tears that leave syntactically complete elements
                    states += [(n, i + 1) for i, ch in enumerate(op.data[:-1]) if ch == 10]
        mstates = {}
        uniq = []
        tmp = os.path.join(run.scratch_base(), "c20m")
        for n, t in states:           # canonicalise: identical directories are one state
            k = sha(sorted((p, sha(d)) for p, d in ct.dirstate(ct.materialise(pdir, ops, n, t, tmp)).items()))
            if k not in mstates:
                mstates[k] = (n, t)
                uniq.append((n, t))
        shutil.rmtree(tmp, ignore_errors=True)

        def work(st):
            if ctx.expired():
                return st, None
            n, t = st
            w2 = run.WS(FILES)
            ct.materialise(pdir, ops, n, t, w2.path("bd"))
            got = observe(args, w2.dir)
            w2.close()
            return st, got
        nbad = 0
        for (n, t), got in pmap(work, uniq, jobs=8):
            if got is None:
                continue
            ctx.count()
            total_states += 1
            ctx.distinct("%s|%d|%s" % (pname, n, t))
            if got != fresh:
                d = diffs(fresh, got)
                op = ops[n] if n < len(ops) else None
                cls = "torn" if t is not None else "prefix"
                fileclass = (op.path.rsplit(".", 1)[-1].rstrip("0123456789") if op else "end")
                key = "%s:%s:%s:%s" % (pname, cls, op.kind if op else "end", fileclass)
                ctx.violation(key, "pre-state %s, crash after %d ops%s (next op %s): complete run differs: %s" % (
                    pname, n, "" if t is None else " + %d bytes of the next write" % t, op, str(d)[:300]),
                    {"pre": pname, "n": n, "torn": t, "op": repr(op), "diff": d})
        # binding 2: real SIGKILL at syscall indices; the directory must be one of the enumerated states
        allkeys = set(mstates)
        gmax = max(counts.values())
        kills = range(0, gmax, 1 if tier == "thorough" else 19)
        for g in kills:
            if ctx.expired():
                break
            w3 = run.WS(FILES); shutil.copytree(pdir, w3.path("bd"))
            ct.real_kill(args, w3.dir, g)
            k = sha(sorted((p, sha(d)) for p, d in ct.dirstate(w3.path("bd")).items()))
            w3.close()
            if k in allkeys:
                validated += 1
            else:
                ctx.violation("harness:real-kill-state-not-in-model", "real SIGKILL at traced syscall %d (%s) left a build dir that is no "
                              "enumerated crash state" % (g, pname), {"pre": pname, "gidx": g})
        per.append({"pre_state": pname, "trace_ops": len(ops), "crash_states": len(states), "distinct_states": len(uniq),
                    "ops": [repr(o) for o in ops[:12]]})
    base.close()
    ctx.cov.update({"evaluations": total_states, "traces_validated_against_impl": validated, "per_pre_state": per,
                    "fresh_findings": len(fresh[0]) if fresh[0] != "XML-BROKEN" else -1})
    ctx.samples = per
    ctx.assumptions = ["kill model: every completed syscall persists, nothing after the kill point happens (process kill, not power loss)",
                       "single job (-j1) traces; torn writes enumerated at every byte offset (thorough) / every 7th offset of the re-written "
                       "cache files of the 'older' pre-state only (quick)"]
    return ctx.finish(rule="pre-states {empty, complete run on same inputs, complete run on older inputs} x every prefix of the recorded "
                           "mutating-syscall trace x byte-prefixes of each cache-file write; identical directories merged; each state is "
                           "followed by one complete run compared with the run without build dir; distinct = distinct (pre-state, prefix, torn offset)")
