"""C25 -- the exit status reflects the reported findings.

The option lattice  input x --error-exitcode x --exitcode-suppressions x executor x output format  is enumerated
completely; every element is one run of the real binary (two for the cached-replay inputs: the same command line
twice on a fresh --cppcheck-build-dir, both runs judged).  Oracle = the statement: with R = findings the run itself
reported (checkersReport excluded) and N = the exitcode-suppression entries, the status is the --error-exitcode value
(default 0) iff some r in R is not matched by N (matching decided by the C23 reference vlib/ref_suppress.py), else 0;
an invalid command line gives 1."""
import collections, itertools, os, re, shutil
from vlib import build, run, ref_suppress as ref
from vlib.core import Ctx, pmap, sha

OK1 = "static int ok1(int p){ return p+1; }\nint main(void){ return ok1(1); }\n"
OK2 = "int ok2(int p);\nint ok2(int p){ return p+2; }\n"
INPUTS = collections.OrderedDict([
    # name: (files, analysed files, options)
    ("none", ({"ok1.c": OK1, "ok2.c": OK2}, ["ok1.c", "ok2.c"], [])),
    ("error", ({"e.c": "int e(int x){ return x/0; }\n", "ok1.c": OK1}, ["e.c", "ok1.c"], [])),
    ("two-errors", ({"e2.c": "int e2(int x){ return x/0; }\nvoid e3(void){ int a[2]; a[3]=0; }\n", "ok1.c": OK1}, ["e2.c", "ok1.c"], [])),
    ("style", ({"st.c": "int st2(void){ int y = 5; y = y; return y; }\n", "ok1.c": OK1}, ["st.c", "ok1.c"], ["--enable=style"])),
    ("information", ({"mi.c": '#include "nosuch.h"\nint mi(int p){ return p; }\n', "ok1.c": OK1}, ["mi.c", "ok1.c"],
                     ["--enable=missingInclude"])),
    ("unmatchedSuppression", ({"ok1.c": OK1, "ok2.c": OK2}, ["ok1.c", "ok2.c"], ["--enable=information", "--suppress=nullPointer"])),
    ("unusedFunction", ({"uf.c": "int uf(int p){ return p; }\n", "ok1.c": OK1}, ["uf.c", "ok1.c"], ["--enable=unusedFunction"])),
    ("suppressed", ({"e.c": "int e(int x){ return x/0; }\n", "ok1.c": OK1}, ["e.c", "ok1.c"], ["--suppress=zerodiv"])),
    ("inline-suppressed", ({"is.c": "int is(int x){\n  // cppcheck-suppress zerodiv\n  return x/0; }\n", "ok1.c": OK1}, ["is.c", "ok1.c"],
                           ["--inline-suppr"])),
    ("syntax-error", ({"sy.c": "void sy(void){ if ( }\n", "ok1.c": OK1}, ["sy.c", "ok1.c"], [])),
    ("error-and-suppressed", ({"e2.c": "int e2(int x){ return x/0; }\nvoid e3(void){ int a[2]; a[3]=0; }\n", "ok1.c": OK1},
                              ["e2.c", "ok1.c"], ["--suppress=zerodiv"])),
])
# inputs whose ONLY finding is one kind of whole-program finding (prototypes in a shared header: the CTU call id is the
# location of the declaration)
WP_INPUTS = collections.OrderedDict([
    ("wp-staticFunction", ({"sf.c": "int helper(int p){ return p+1; }\nint main(void){ return helper(1); }\n", "decl.c": "typedef int decl_t;\n"},
                           ["sf.c", "decl.c"], ["--enable=style,unusedFunction"])),
    ("wp-unusedFunction", ({"uf.c": "int uf(int p){ return p; }\n", "ok1.c": OK1}, ["uf.c", "ok1.c"], ["--enable=unusedFunction"])),
    ("wp-ctunullpointer", ({"n.h": "int nf(const int *p);\n", "n1.c": '#include "n.h"\nint nf(const int *p){ return *p; }\n',
                            "n2.c": '#include "n.h"\nint main(void){ const int *q = 0; return nf(q); }\n'}, ["n1.c", "n2.c"], [])),
    ("wp-ctuuninitvar", ({"u.h": "int uf(int *p);\n", "u1.c": '#include "u.h"\nint uf(int *p){ return *p; }\n',
                          "u2.c": '#include "u.h"\nint main(void){ int x; return uf(&x); }\n'}, ["u1.c", "u2.c"], [])),
    ("wp-ctuArrayIndex", ({"a.h": "int af(const int *a);\n", "a1.c": '#include "a.h"\nint af(const int *a){ return a[10]; }\n',
                           "a2.c": '#include "a.h"\nint main(void){ int a[5] = {0}; return af(a); }\n'}, ["a1.c", "a2.c"], [])),
    ("wp-ctuOneDefinitionRuleViolation", ({"o1.cpp": "struct S { int a; };\nint of1(const S &s){ return s.a; }\n",
                                           "o2.cpp": "struct S { char a; int b; };\nint of2(const S &s){ return s.b; }\n"},
                                          ["o1.cpp", "o2.cpp"], [])),
])
INPUTS.update(WP_INPUTS)
CACHED = ["error", "two-errors", "style", "unmatchedSuppression", "unusedFunction", "suppressed", "inline-suppressed", "syntax-error"]
EXITCODES = [None, 0, 1, 7]
NKINDS = ["absent", "all", "partial", "none"]
EXECUTORS = collections.OrderedDict([("single", ["-j1"]), ("thread", ["-j2", "--executor=thread"]), ("process", ["-j2", "--executor=process"])])
FORMATS = ["text", "xml"]
RE_TEXT = re.compile(r"^(.*?):(\d+):(\d+): ([a-z]+): .*\[([A-Za-z0-9_.-]+)\]$", re.M)


def reported(fmt, r):
    """Findings the run reported -> list of dicts (id, file, line); None when the output cannot be parsed."""
    out = []
    if fmt == "xml":
        try:
            fs = run.parse_xml(r.err)
        except Exception:
            return None
        for f in fs:
            loc = f["locs"][0] if f["locs"] else None
            out.append({"id": f["id"], "file": loc[0] if loc else "", "line": loc[1] if loc else 0, "symbols": tuple(f["symbols"]),
                        "macros": frozenset()})
        return out
    for m in RE_TEXT.finditer(r.text_err()):
        file = "" if m.group(1) == "nofile" else m.group(1)
        out.append({"id": m.group(5), "file": file, "line": int(m.group(2)), "symbols": (), "macros": frozenset()})
    return out


def n_entries(nkind, probe):
    """The exitcode-suppression entries for a kind, built from the findings of a probe run of the same input."""
    fs = [f for f in probe if f["id"] != "checkersReport"]
    if nkind == "absent":
        return []
    if nkind == "all":
        return sorted(set(f["id"] for f in fs)) or ["zerodiv"]
    if nkind == "partial":                      # the first finding only, as precisely as the text format allows
        if not fs:
            return ["zerodiv:ok1.c:1"]
        f = fs[0]
        return ["%s:%s:%d" % (f["id"], f["file"], f["line"])] if f["file"] else [f["id"]]
    return ["nullPointer", "zerodiv:ok2.c", "*:nosuch.c"]


def expected_status(rep, entries, exitcode, cwd):
    N = [ref.parse_text(e) for e in entries]
    R = [f for f in rep if f["id"] != "checkersReport"]
    unmatched = []
    for f in R:
        m = ref.or3(ref.matches(s, f, cwd) for s in N) if N else False
        if m is None:
            return None, R, unmatched
        if not m:
            unmatched.append(f)
    return ((exitcode or 0) if unmatched else 0), R, unmatched


def run_case(case, probe):
    """case = (input, exitcode, nkind, executor, fmt, cached) -> list of (run number, Res, reported, entries, cwd)"""
    name, exitcode, nkind, executor, fmt, cached = case
    files, inputs, opts = INPUTS[name]
    entries = n_entries(nkind, probe)
    out = []
    with run.WS(files) as ws:
        args = ["-q"] + list(opts) + EXECUTORS[executor]
        if fmt == "xml":
            args.append("--xml")
        if exitcode is not None:
            args.append("--error-exitcode=%d" % exitcode)
        if entries:
            if nkind == "partial":
                args += ["--exitcode-suppress=" + e for e in entries]
            else:
                ws.write("nofail.txt", "# exit code suppressions\n" + "\n".join(entries) + "\n")
                args.append("--exitcode-suppressions=nofail.txt")
        if cached:
            os.makedirs(ws.path("bd"))
            args.append("--cppcheck-build-dir=bd")
        for i in range(2 if cached else 1):
            r = run.cppcheck(args + inputs, ws.dir)
            out.append((i, r, reported(fmt, r), entries, ws.dir, args + inputs))
    return out


def classify(case, runno, R, unmatched, exp, got):
    name, exitcode, nkind, executor, fmt, cached = case
    ids = sorted(set(f["id"] for f in R))
    if exp == 0 and got != 0 and ids == ["unmatchedSuppression"] and nkind in ("all", "partial"):
        return "unmatchedSuppression-ignores-exitcode-suppressions"
    if name in WP_INPUTS:
        mode = ("builddir-run%d" % (runno + 1)) if cached else "no-builddir"
        return "status:%s:%s:%s:N=%s:expected-%s" % (name, executor, mode, nkind, "zero" if exp == 0 else "exitcode")
    return "status:%s:N=%s:%s:%s:%s:expected-%s" % (name, nkind, executor, fmt, ("cached-run%d" % (runno + 1)) if cached else "fresh",
                                                    "zero" if exp == 0 else "exitcode")


INVALID = collections.OrderedDict([
    ("unknown-option", (["--bogus-option", "ok1.c"], {})),
    ("missing-file", (["nosuch.c"], {})),
    ("bad-suppress", (["--suppress=", "ok1.c"], {})),
    ("bad-suppress-line", (["--suppress=zerodiv:ok1.c:x", "ok1.c"], {})),
    ("nonexistent-build-dir", (["--cppcheck-build-dir=nosuchdir", "ok1.c"], {})),
    ("no-input-files", ([], {})),
    ("bad-error-exitcode", (["--error-exitcode=x", "ok1.c"], {})),
    ("missing-exitcode-suppressions-file", (["--exitcode-suppressions=nosuch.txt", "ok1.c"], {})),
    ("missing-suppressions-list", (["--suppressions-list=nosuch.txt", "ok1.c"], {})),
    ("bad-enable", (["--enable=nonsense", "ok1.c"], {})),
])


def main(tier, replay=None):
    ctx = Ctx("C25", tier, "model_checking", 600 if tier == "quick" else 1800, replay)
    build.build("plain")
    if replay:
        return do_replay(ctx, replay)
    # probe: the findings of every input (single job, xml) -- used only to build the exitcode-suppression entries
    probes = {}
    for name in INPUTS:
        for cached in (False, True):
            res = run_case((name, None, "absent", "single", "xml", cached), [])
            probes[(name, cached)] = res[0][2] or []
    cases = []
    for name in INPUTS:
        if name in WP_INPUTS:
            continue
        for exitcode, nkind, executor, fmt in itertools.product(EXITCODES, NKINDS, EXECUTORS, FORMATS):
            if tier == "quick" and executor != "single" and exitcode in (0, 1):
                continue                     # quick: the parallel executors with --error-exitcode absent / 7 only
            if tier == "quick" and nkind == "partial" and name not in ("two-errors", "error-and-suppressed", "unusedFunction"):
                continue                     # quick: with a single finding 'first finding only' says what 'all ids' says
            cases.append((name, exitcode, nkind, executor, fmt, False))
    # whole-program inputs: single job without build dir; single job, thread -j2 and process -j2 with a build dir (fresh run
    # and cached second run).  (-j2 without build dir does not run the whole-program checks at all.)
    wp_cases = []
    for name in WP_INPUTS:
        for exitcode, nkind, fmt in itertools.product(EXITCODES, ("absent", "all", "none"), FORMATS):
            if tier == "quick" and (fmt == "xml" or (exitcode in (0, 1) and nkind != "absent")):
                continue
            wp_cases.append((name, exitcode, nkind, "single", fmt, False))
            for executor in EXECUTORS:
                wp_cases.append((name, exitcode, nkind, executor, fmt, True))
    for name in CACHED:
        for exitcode, nkind, executor, fmt in itertools.product(EXITCODES, NKINDS, EXECUTORS, FORMATS):
            if tier == "quick" and (fmt == "xml" or exitcode in (0, 1) or nkind in ("partial", "none")):
                continue
            cases.append((name, exitcode, nkind, executor, fmt, True))

    cases += wp_cases
    ctx.cov["whole_program_cases"] = len(wp_cases)

    def work(c):
        if ctx.expired():
            return c, None
        return c, run_case(c, probes[(c[0], c[5])])
    tally = collections.Counter()
    for case, res in pmap(work, cases):
        if res is None:
            continue
        name, exitcode, nkind, executor, fmt, cached = case
        for runno, r, rep, entries, cwd, args in res:
            ctx.count()
            art = {"part": "lattice", "case": list(case), "run": runno, "args": args}
            if r.timed_out:
                ctx.bump("harness_timeouts")
                ctx.capped = True
                continue
            if rep is None:
                ctx.violation("output-unparsable:%s:%s" % (name, fmt), "cannot parse the output of %s" % args, art)
                continue
            exp, R, unmatched = expected_status(rep, entries, exitcode, cwd)
            if exp is None:
                tally["undecided"] += 1
                continue
            tally["runs_with_reported_findings" if R else "runs_without_findings"] += 1
            if name in WP_INPUTS:
                want = name[3:]
                ids = set(f["id"] for f in R)
                tally["wp_runs_whose_only_finding_is_the_whole_program_one" if ids == {want} else
                      "wp_runs_without_the_finding" if want not in ids else "wp_runs_with_other_findings_too"] += 1
            if R and not unmatched:
                tally["runs_where_every_finding_is_exitcode_suppressed"] += 1
            if R and unmatched and len(unmatched) < len(R):
                tally["runs_where_some_but_not_all_findings_are_exitcode_suppressed"] += 1
            tally["expected_nonzero" if exp else "expected_zero"] += 1
            if r.rc != exp:
                ctx.violation(classify(case, runno, R, unmatched, exp, r.rc),
                              "%s: exit status %s, expected %s (reported %s, exitcode-suppressions %s, not matched by them: %s)" % (
                                  " ".join(args), r.rc, exp, [(f["id"], f["file"], f["line"]) for f in R], entries,
                                  [(f["id"], f["file"], f["line"]) for f in unmatched]),
                              dict(art, expected=exp, observed=r.rc, reported=[(f["id"], f["file"], f["line"]) for f in R]))
        ctx.distinct("|".join(str(x) for x in case))
        ctx.sample({"case": dict(zip(("input", "error-exitcode", "exitcode-suppressions", "executor", "format", "cached"), case)),
                    "status": res[-1][1].rc}, maxn=4)
    # invalid command lines: always 1, whatever --error-exitcode says
    for name, (args, files) in INVALID.items():
        for exitcode, executor in itertools.product([None, 0, 7], EXECUTORS):
            with run.WS(dict({"ok1.c": OK1}, **files)) as ws:
                a = ["-q"] + EXECUTORS[executor] + (["--error-exitcode=%d" % exitcode] if exitcode is not None else []) + args
                r = run.cppcheck(a, ws.dir)
            if r.timed_out:
                ctx.bump("harness_timeouts")
                ctx.capped = True
                continue
            ctx.count()
            ctx.distinct("invalid|%s|%s|%s" % (name, exitcode, executor))
            tally["invalid_command_lines"] += 1
            if r.rc != 1:
                ctx.violation("invalid-command-line:%s" % name, "%s: exit status %s, expected 1" % (a, r.rc),
                              {"part": "invalid", "args": a, "expected": 1, "observed": r.rc})
    for k, v in tally.items():
        ctx.cov[k] = v
    ctx.cov["states"] = max(1, len(ctx._distinct))
    ctx.cov["transitions"] = max(1, ctx.evaluations)
    ctx.cov["traces_validated_against_impl"] = ctx.evaluations
    ctx.cov["lattice"] = {"inputs": list(INPUTS), "cached_inputs": CACHED, "error_exitcode": ["absent", 0, 1, 7],
                          "exitcode_suppressions": NKINDS, "executors": list(EXECUTORS), "formats": FORMATS}
    ctx.assumptions = ["R is read from the run's own output (default text format or --xml); checkersReport excluded as the statement says",
                       "'matched by an exitcode-suppression entry' is decided by vlib/ref_suppress.py (C23's reference)",
                       "--safety is excluded by the statement"]
    return ctx.finish(
        rule="full product inputs(11) x --error-exitcode{absent,0,1,7} x exitcode-suppressions{absent, all ids, first finding as "
             "id:file:line, non-matching} x executor{single, thread -j2, process -j2} x {text, xml}; cached inputs (8) run twice on a "
             "fresh build dir (quick: text, exitcode absent/7, N absent/all; parallel executors with exitcode absent/7 only; 'first finding' entries only for inputs with two findings); 10 invalid command lines x exitcode{absent,0,7} x "
             "executor; 6 inputs whose only finding is staticFunction / unusedFunction / ctunullpointer / ctuuninitvar / ctuArrayIndex "
             "/ ctuOneDefinitionRuleViolation x {single no build dir; single, thread -j2, process -j2 each with a fresh build dir, "
             "two runs} x exitcode x exitcode-suppressions{absent, matching, non-matching}; evaluation = one process run; distinct = lattice element; nontrivial = all")


def do_replay(ctx, replay):
    a = replay["artefact"]
    if a["part"] == "invalid":
        with run.WS({"ok1.c": OK1}) as ws:
            r = run.cppcheck(a["args"], ws.dir)
        print("args:", a["args"], "expected 1 observed", r.rc, r.text_out())
        return 0 if r.rc == 1 else 1
    case = tuple(a["case"])
    probe = run_case((case[0], None, "absent", "single", "xml", case[5]), [])[0][2] or []
    bad = 0
    for runno, r, rep, entries, cwd, args in run_case(case, probe):
        exp, R, unmatched = expected_status(rep or [], entries, case[1], cwd)
        print("run %d: %s" % (runno + 1, " ".join(args)))
        print("  reported:", [(f["id"], f["file"], f["line"]) for f in R], "exitcode-suppressions:", entries)
        print("  expected status %s observed %s" % (exp, r.rc))
        if runno == a["run"] and exp is not None and r.rc != exp:
            bad = 1
    return bad


if __name__ == "__main__":
    import sys
    sys.exit(main(sys.argv[1] if len(sys.argv) > 1 else "quick"))
