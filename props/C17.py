"""C17 -- a file's findings do not depend on the other files in the run.

Engine H (sequences): every sequence of <= L files from an alphabet aimed at the per-file state a single-job run
reuses (early returns after preprocessor errors, remark comments, macro locations, inline suppressions, shared
headers, markup files) is analysed in ONE run of the real binary; the result must equal the concatenation of the
single-file runs (first occurrence kept, the documented effect of the global duplicate filter; plain concatenation
with --emit-duplicates)."""
import itertools, collections
from vlib import build, run, par
from vlib.core import Ctx, sha, pmap

OPTS = ["-q", "--enable=style,information,missingInclude", "--inline-suppr"]
EXTRA = {
    "ERR": {"err.c": "#error stop here\nvoid er(void){int a[2];a[2]=0;}\n"},
    "MI": {"mi.c": "#include \"nosuch.h\"\nvoid mi(void){int a[2];a[9]=0;}\n"},
    "RM": {"hdr.h": par.HDR, "rm.c": "// REMARK this is a remark\n#include \"hdr.h\"\nvoid rm(void){ hf(); }\n"},
    "MAC": {"mac.c": "#define BAD(a) a[3]=0\nvoid mac(void){int a[2]; BAD(a);}\n"},
    # findings on the SAME line numbers as the inline suppressions of SI (line 3, arrayIndexOutOfBounds) and SU (line 2, zerodiv)
    "EL3": {"el3.c": "\n\nvoid el3(void){int a[2];a[6]=0;}\n"},
    "Z2": {"z2.c": "\nint z2(int x){ return x/0; }\n"},
    # same base name in another directory, finding on the line SI suppresses in si.c
    "DSI": {"sub/si.c": "\n\nvoid dsi(void){int a[2];a[7]=0;}\n"},
    "QML": {"m.qml": "import QtQuick 2.0\nItem { function f() { } }\n"},
}
ALPHA = ["E", "H1", "H2", "SI", "SU", "HS1", "HU1", "SM", "Y", "ERR", "MI", "RM", "MAC", "EL3", "Z2", "DSI"]
WHOLE = ("unusedFunction", "ctu", "checkersReport")


def files_for(letters):
    files, order = {}, []
    for l in letters:
        d = EXTRA.get(l) or par.FILES[l]
        for n, c in d.items():
            files[n] = c
            if (n.endswith(".c") or n.endswith(".qml")) and n not in order:
                order.append(n)
    return files, order


def observe(letters, extra_opts):
    files, order = files_for(letters)
    with run.WS(files) as ws:
        fs, r = run.findings_xml(OPTS + extra_opts + order, ws.dir)
    if fs is None:
        return None, r.rc
    return [run.fkey(f) for f in fs if not f["id"].startswith(WHOLE)], r.rc


def main(tier, replay=None):
    ctx = Ctx("C17", tier, "model_checking", 900 if tier == "quick" else 3600, replay)
    build.build("plain")
    L = 3 if tier == "quick" else 4
    if replay:
        a = replay["artefact"]
        got = observe(a["sequence"], a["opts"])
        print("together:", got)
        for l in a["sequence"]:
            print(l, observe([l], a["opts"]))
        return 0
    single = {}
    for eo in ([], ["--emit-duplicates"]):
        for l in ALPHA:
            single[(l, tuple(eo))] = observe([l], eo)
    seqs = [list(p) for n in range(2, L + 1) for p in itertools.permutations(ALPHA, n)]
    cases = [(s, eo) for s in seqs for eo in ([],)] + [(s, ["--emit-duplicates"]) for s in seqs if len(s) <= 2]
    states = set()
    failing_pairs = set()

    def work(c):
        if ctx.expired():
            return c, None
        return c, observe(c[0], c[1])
    for (seq, eo), got in pmap(work, cases):
        if got is None:
            continue
        ctx.count()
        exp, seen = [], set()
        rc_any = 0
        for l in seq:
            fs, rc = single[(l, tuple(eo))]
            for k in (fs or []):
                if eo or k not in seen:
                    exp.append(k)
                seen.add(k)
        gl = got[0]
        states.add(sha([seq, eo]))
        if gl is None or collections.Counter(gl) != collections.Counter(exp):
            g, e = collections.Counter(gl or []), collections.Counter(exp)
            miss = sorted("%s@%s" % (k[0], k[5][-1][:2] if k[5] else "") for k in (e - g).elements())
            extra = sorted("%s@%s" % (k[0], k[5][-1][:2] if k[5] else "") for k in (g - e).elements())
            # attribute to a failing ordered pair inside the sequence if there is one (pairs are enumerated first)
            key = "seq:" + ">".join(seq) + ("|dups" if eo else "")
            if len(seq) == 2:
                failing_pairs.add((seq[0], seq[1]))
            else:
                for a_, b_ in itertools.combinations(seq, 2):
                    if (a_, b_) in failing_pairs:
                        key = "seq:%s>%s" % (a_, b_) + ("|dups" if eo else "")
                        break
            ctx.violation(key, "sequence %s %s: missing %s extra %s" % (seq, eo, miss[:4], extra[:4]),
                          {"sequence": seq, "opts": eo, "missing": miss, "extra": extra})
        if len(set(tuple(single[(l, tuple(eo))][0] or []) for l in seq)) > 1:
            ctx.distinct(sha([seq, eo]))
    ctx.cov.update({"states": max(1, len(states)), "transitions": max(1, ctx.evaluations), "traces_validated_against_impl": ctx.evaluations,
                    "alphabet": ALPHA, "max_sequence_length": L})
    ctx.samples = [{"sequence": ["H1", "H2"], "meaning": "two files sharing a header with a finding, one run"},
                   {"sequence": ["ERR", "E"], "meaning": "file with #error (early return) followed by a file with a finding"}]
    ctx.assumptions = ["reference = single-file runs of the same binary with the same options",
                       "whole-program ids (unusedFunction, ctu*, checkersReport) projected out as the statement says"]
    return ctx.finish(rule="all ordered sequences without repetition of <= %d files over a %d-letter alphabet, with and without "
                           "--emit-duplicates; each sequence is one run; nontrivial = sequences whose files have different findings" % (L, len(ALPHA)))
