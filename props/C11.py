"""C11 -- preprocessing matches a conforming preprocessor (reference: gcc -E).

Bounded-exhaustive enumeration of the grammar Gpp of DESIGN.md (### C11): units made of <= 2 macro definitions,
<= 2 uses, <= 1 conditional block (nested once), <= 1 #include, each unit under every subset of the configuration
options {-DA, -DA=2, -DB=A, -UA, -Iinc, --include=pre.h} except the 16 that contain both -DA and -DA=2 (not one
configuration: gcc lets the last definition win and warns, cppcheck lets the first win).  Many units are put into ONE file (each unit uses its own
macro names M<k>/N<k>, starts with the marker `int unit<k>;` and #undefs everything it defined), the file is run
through `gcc -E -P -undef -nostdinc <cfg>` and `cppcheck -E --max-configs=1 <cfg>`, both outputs are tokenised with
the same pp-token lexer and compared unit by unit.

Verdicts per (unit, configuration):
  * gcc rejects the unit (error diagnostic located in the unit)  -> no reference sequence, nothing demanded
    (a capped number of those is also given to cppcheck alone to count "both reject").
  * gcc accepts, cppcheck rejects                                -> violation  class "reject:<minimal unit>"
  * both accept, token sequences differ                          -> violation  class "tokens:<minimal unit>"
Class keys: a disagreement is *minimal* when no neighbour in the enumeration (one line removed, one definition or
use replaced by an earlier one of the catalogue, one configuration option removed) disagrees in the same category
(comma / strspace / other / reject).  Only minimal disagreements are reported, keyed by category + unit text +
configuration; the non-minimal ones are counted as attributed to them.
"""
import itertools, os, re, subprocess, time
from vlib import build, run
from vlib.core import Ctx, pmap, sha

CFG_OPTS = ["-DA", "-DA=2", "-DB=A", "-UA", "-Iinc", "--include=pre.h"]

HEADERS = {
    "pre.h": "#define PRE 7\nint pre_tok;\n#ifdef A\nint pre_a = A;\n#endif\n",
    "q.h": "#define HQ 1\nint hq = HQ;\n",
    "inc/q.h": "#define HQ 2\nint hq2 = HQ;\n",
    "inc/i.h": "#define HI(x) x##3\nint hi;\n",
    "u.h": "int hu = HU;\n",
    "inc/g.h": "#ifndef G_H\n#define G_H\nint g;\n#endif\n",
    "inc/n.h": "#include \"q.h\"\nint n = HQ;\n",
}
HEADER_MACROS = ["HQ", "HI", "G_H", "HU"]

# ------------------------------------------------------------------------------------------------ lexer
PUNCT = ["%:%:", "...", "<<=", ">>=", "##", "<:", ":>", "<%", "%>", "%:", "->", "++", "--", "<<", ">>", "<=", ">=",
         "==", "!=", "&&", "||", "*=", "/=", "%=", "+=", "-=", "&=", "^=", "|="]
RE_TOK = re.compile(r"""
    (?P<ws>\s+)
  | (?P<cmt>//[^\n]*|/\*.*?\*/)
  | (?P<str>(?:u8|u|U|L)?"(?:[^"\\\n]|\\.)*")
  | (?P<chr>(?:u8|u|U|L)?'(?:[^'\\\n]|\\.)*')
  | (?P<num>\.?[0-9](?:[eEpP][+-]|[0-9A-Za-z_.])*)
  | (?P<id>[A-Za-z_$][A-Za-z_0-9$]*)
  | (?P<punct>%s)
  | (?P<other>.)
""" % "|".join(re.escape(p) for p in PUNCT), re.X | re.S)


def pp_tokens(text):
    out = []
    for m in RE_TOK.finditer(text):
        k = m.lastgroup
        if k in ("ws", "cmt"):
            continue
        out.append(m.group())
    return out


def strip_markers(text):
    """Remove cppcheck's #line / #file / #endfile location lines."""
    keep = []
    for l in text.split("\n"):
        s = l.lstrip()
        if s.startswith("#line ") or s.startswith("//#file") or s.startswith("//#endfile"):
            continue
        keep.append(l)
    return "\n".join(keep)


def split_units(tokens):
    """[prelude tokens], {k: tokens} using the marker sequence  int unit<k> ;"""
    units, cur, pre = {}, None, []
    i, n = 0, len(tokens)
    while i < n:
        if tokens[i] == "int" and i + 2 < n and tokens[i + 2] == ";" and tokens[i + 1].startswith("unit") \
                and tokens[i + 1][4:].isdigit():
            cur = int(tokens[i + 1][4:])
            units[cur] = []
            i += 3
            continue
        (pre if cur is None else units[cur]).append(tokens[i])
        i += 1
    return pre, units


# ------------------------------------------------------------------------------------------------ grammar
# macro definitions: (kind, parameter list or None, body); names: MM = this macro, OO = the other macro of the unit
OBJ = ["1", "X", "(X)", "X+1", "OO", "MM", "A", ""]
F0 = ["1", "OO", "MM()"]
F1 = ["x", "(x)", "x+1", "#x", "x##1", "X##x", "OO(x)", "MM(x)", "OO x"]
F2 = ["x+y", "y x", "#x #y", "x##y", "x ## y", "OO(x,y)", "OO(y)+x", "MM(y,x)"]
V0 = ["__VA_ARGS__", "#__VA_ARGS__", "OO(__VA_ARGS__)", "X##__VA_ARGS__"]
V1 = ["a+__VA_ARGS__", "#__VA_ARGS__", "#a", "a##__VA_ARGS__", "OO(a,__VA_ARGS__)", "OO(__VA_ARGS__)", "__VA_ARGS__ a"]


def all_defs():
    d = [("obj", None, b) for b in OBJ]
    d += [("f0", "", b) for b in F0]
    d += [("f1", "x", b) for b in F1]
    d += [("f2", "x,y", b) for b in F2]
    d += [("v0", "...", b) for b in V0]
    d += [("v1", "a,...", b) for b in V1]
    return d


# uses: template, number of arguments (None = no parentheses); TT = target macro, UU = the other macro
USES = [("TT", None), ("TT()", 0), ("TT(1)", 1), ("TT(1,2)", 2), ("TT((1,2))", 1), ("TT(,)", 2), ("TT(UU)", 1),
        ("TT(TT(1))", 1), ("TT(1,\n2)", 2), ("TT\n(1)", 1), ("TT(A)", 1), ("TT(B)", 1), ("TT(A,B)", 2),
        ("TT(/*c*/1)", 1), ("TT(UU(1))", 1)]


def arity_ok(kind, nargs):
    """Static well-formedness of an invocation (ISO C: number of arguments must match; C23/C++20 rule for `...`)."""
    if kind == "obj" or nargs is None:
        return True
    if kind == "f0":
        return nargs == 0
    if kind == "f1":
        return nargs in (0, 1)
    if kind == "f2":
        return nargs == 2
    if kind == "v0":
        return True
    if kind == "v1":
        return nargs >= 1 or nargs == 0     # M() = one empty argument
    return False


def defline(name, other, d):
    kind, params, body = d
    body = body.replace("MM", name).replace("OO", other)
    return "#define %s%s %s" % (name, "" if params is None else "(" + params + ")", body)


def macro_units(stage):
    """Units of 1 or 2 definitions (ordered pairs) and 1 or 2 uses, as lists of source lines with names MM / NN.
    A pair is *connected* when a body mentions the other macro (OO) or the use passes the other macro (UU).
    stage 1 (quick): single definitions x 1 use; connected pairs x 1 use.
    stage 2 (thorough adds): unconnected pairs x 1 use; single definitions x 2 uses; pairs with a body mentioning the
    other macro x (1 use of MM, 1 use of NN from the first 8 use forms)."""
    defs = all_defs()
    defsets = [(d,) for d in defs] + [(d, e) for d in defs for e in defs]
    for ds in defsets:
        lines = [defline("MM", "NN", ds[0])]
        kinds = {"MM": ds[0][0]}
        if len(ds) == 2:
            lines.append(defline("NN", "MM", ds[1]))
            kinds["NN"] = ds[1][0]
        linked = any("OO" in d[2] for d in ds)
        first = [(u.replace("TT", "MM").replace("UU", "NN"), n, "MM", "UU" in u) for u, n in USES]
        second = [(u.replace("TT", "NN").replace("UU", "MM"), n, "NN", True) for u, n in USES] if len(ds) == 2 else first
        for u1, n1, t1, uu in first:
            if not arity_ok(kinds[t1], n1):
                continue
            connected = len(ds) == 1 or linked or uu
            if (stage == 1) == connected:
                yield lines + [u1]
            if stage == 2 and (len(ds) == 1 or linked):
                for u2, n2, t2, _ in (second if len(ds) == 1 else second[:8]):
                    if arity_ok(kinds[t2], n2):
                        yield lines + [u1, u2]


CONDS = ["#ifdef A", "#ifndef A", "#if defined(A)", "#if defined A", "#if A", "#if A>1", "#if A==B", "#if !A",
         "#if PRE==7"]
ELIFS = ["#elif A", "#elif B", "#elif A>1", "#elif defined(B)", "#elif !A", "#elif A==B"]


def cond_shapes(conds, elifs, inner=None):
    """Flat shapes if / if-else / if-elif / if-elif-else for every condition; with `inner` (lines of a nested block)
    the block is placed into the then-part (with and without #else) or into the else-part."""
    for c in conds:
        if inner is None:
            yield [c, "t1 A B PRE", "#endif"]
            yield [c, "t1 A B", "#else", "t2 A B", "#endif"]
            for e in elifs:
                yield [c, "t1 A B", e, "t2 A B", "#endif"]
                yield [c, "t1 A B", e, "t2 A B", "#else", "t3 A B", "#endif"]
        else:
            yield [c, "t1 A"] + inner + ["#endif"]
            yield [c, "t1 A"] + inner + ["#else", "t2 B", "#endif"]
            yield [c, "t1 A", "#else", "t2 B"] + inner + ["#endif"]


def cond_units(tier):
    out = []
    for s in cond_shapes(CONDS, ELIFS):
        out.append(s)
    inners = [[c, "u1 B", "#endif"] for c in CONDS] + [[c, "u1 B", "#else", "u2 A", "#endif"] for c in CONDS]
    for inn in inners:
        for s in cond_shapes(CONDS, ELIFS, inn):
            out.append(s)
    # definitions selected by a conditional
    for c in CONDS:
        out.append([c, "#define MM 1", "#else", "#define MM 2", "#endif", "MM"])
        out.append([c, "#define MM(x) x A", "#endif", "MM(3)"])
    # conditions over the unit's own macros
    mconds = ["#if MM", "#if MM > 1", "#if MM == A", "#if defined(MM)", "#ifdef MM", "#if MM(1)", "#if MM(1,2) == 12",
              "#if !defined(MM) || MM"]
    defs = all_defs()
    for d in defs:
        for mc in mconds:
            if "MM(" in mc and d[0] == "obj":
                continue
            out.append([defline("MM", "NN", d), mc, "t1", "#else", "t2", "#endif"])
    if tier == "thorough":
        for d in defs:
            for e in defs:
                for mc in mconds[:6]:
                    out.append([defline("MM", "NN", d), defline("NN", "MM", e), mc, "t1", "#else", "t2", "#endif"])
    return out


INCLUDES = [
    (["#include \"q.h\"", "HQ"], "src"),                 # found next to the source file
    (["#include <q.h>", "HQ"], "inc"),                   # only through -Iinc (inc/q.h differs from ./q.h)
    (["#include \"i.h\"", "HI(4) HI(A)"], "inc"),
    (["#include <i.h>", "HI(4)"], "inc"),
    (["#define HU 5", "#include \"u.h\"", "HU"], "src"),
    (["#define HU (X+A)", "#include \"u.h\""], "src"),
    (["#include \"g.h\"", "#include \"g.h\"", "G_H"], "inc"),
    (["#include <n.h>"], "inc"),                         # nested include resolved relative to inc/n.h
    (["#include \"inc/i.h\"", "HI(5)"], "src"),
    (["#include \"./q.h\"", "HQ"], "src"),
    (["#define MM \"q.h\"", "#include MM", "HQ"], "src"),
    (["#define MM <i.h>", "#include MM", "HI(6)"], "inc"),
    (["#define MM(x) #x", "#include MM(q.h)", "HQ"], "src"),
]


def include_units():
    out = []
    for lines, need in INCLUDES:
        out.append((lines, need))
        inc = [l for l in lines if l.startswith("#include")]
        pre = lines[:lines.index(inc[0])]
        post = lines[lines.index(inc[-1]) + 1:]
        for c in CONDS:
            out.append((pre + [c] + inc + ["#endif"] + post, need))
            out.append((pre + [c, "e1", "#else"] + inc + ["#endif"] + post, need))
            out.append((pre + [c] + inc + ["#else", "e2", "#endif"] + post, need))
    return out


def all_units(tier):
    """-> list of (family, lines, needs_inc)"""
    us = []
    for l in macro_units(1):
        us.append(("macro", l, False))
    if tier == "thorough":
        for l in macro_units(2):
            us.append(("macro", l, False))
    for l in cond_units(tier):
        us.append(("cond", l, False))
    for l, need in include_units():
        us.append(("include", l, need == "inc"))
    return us


def unit_sig(lines):
    return "\n".join(lines)


def render(units):
    """units: list of (k, lines).  -> text, {line number: k}"""
    out, lmap, ln = [], {}, 1
    for k, lines in units:
        txt = ["int unit%d;" % k]
        for l in lines:
            txt.extend(l.replace("MM", "M%d" % k).replace("NN", "N%d" % k).split("\n"))
        txt.append(";")
        for nm in ("M%d" % k, "N%d" % k):
            txt.append("#undef " + nm)
        if any(h in l for l in lines for h in ("#include",)):
            txt.extend("#undef " + h for h in HEADER_MACROS)
        for t in txt:
            lmap[ln] = k
            ln += 1
        out.extend(txt)
    return "\n".join(out) + "\n", lmap


# ------------------------------------------------------------------------------------------------ running
RE_GCC_ERR = re.compile(r"^([^:\s]+):(\d+):(?:\d+:)? (?:fatal )?error: (.*)$")
RE_GCC_FROM = re.compile(r"^(?:In file included from|\s+from) ([^:\s]+):(\d+)")
RE_CPP_ERR = re.compile(r"^([^:\n]*):(\d+):error:([A-Za-z_]+):(.*)$", re.M)


def run_gcc(cfg, ws):
    e = dict(os.environ, LC_ALL="C")
    p = subprocess.run(["gcc", "-E", "-P", "-undef", "-nostdinc", "-fno-diagnostics-show-caret"] + cfg + ["t.c"], cwd=ws.dir, env=e,
                       stdout=subprocess.PIPE, stderr=subprocess.PIPE, timeout=120)
    err = p.stderr.decode("utf-8", "replace")
    bad, fatal, pend = {}, False, []
    for l in err.split("\n"):
        m = RE_GCC_FROM.match(l)
        if m:
            if m.group(1) == "t.c":
                pend.append(int(m.group(2)))
            continue
        m = RE_GCC_ERR.match(l)
        if m:
            if "fatal error" in l:
                fatal = True
            if m.group(1) == "t.c":
                bad.setdefault(int(m.group(2)), m.group(3))
            else:
                for x in pend:
                    bad.setdefault(x, m.group(3))
                if not pend:
                    bad.setdefault(0, m.group(3))
        if not l.startswith(" "):
            pend = [] if not RE_GCC_FROM.match(l) else pend
    return p.returncode, p.stdout.decode("utf-8", "replace"), bad, fatal, err


def _cppcheck(args, cwd, **kw):
    """run.cppcheck, retried while the binary is being relinked by a concurrent build (ETXTBSY / EACCES)."""
    for attempt in range(60):
        try:
            return run.cppcheck(args, cwd, **kw)
        except OSError:
            time.sleep(0.5)
    return run.cppcheck(args, cwd, **kw)


def run_cpp(cfg, ws):
    r = _cppcheck(["-q", "-E", "--max-configs=1", "--template={file}:{line}:{severity}:{id}:{message}"] + cfg + ["t.c"],
                     ws.dir)
    err = r.text_err()
    bad = [(m.group(1), int(m.group(2)), m.group(3), m.group(4)) for m in RE_CPP_ERR.finditer(err)]
    return r, strip_markers(r.text_out()), bad


def eval_batch(cfg, units):
    """units: list of (k, lines).  -> {k: verdict dict}, prelude verdict"""
    res = {}
    with run.WS(HEADERS) as ws:
        text, lmap = render(units)
        ws.write("t.c", text)
        rc, gout, gbad, fatal, gerr = run_gcc(cfg, ws)
        grej = {}
        for ln, msg in gbad.items():
            k = lmap.get(ln)
            if k is None:
                fatal = True
            else:
                grej.setdefault(k, msg)
        if fatal:
            if len(units) == 1:
                return {units[0][0]: {"v": "gcc-rejects", "gmsg": "fatal: " + gerr.strip()[:200]}}, None
            h = len(units) // 2
            a, _ = eval_batch(cfg, units[:h])
            b, _ = eval_batch(cfg, units[h:])
            a.update(b)
            return a, None
        gpre, gunits = split_units(pp_tokens(gout))
        for k, msg in grej.items():
            res[k] = {"v": "gcc-rejects", "gmsg": msg}
        live = [(k, l) for k, l in units if k not in grej]
        cpre, cunits = None, {}
        for _ in range(40):
            text, lmap = render(live)
            ws.write("t.c", text)
            r, cout, cbad = run_cpp(cfg, ws)
            if r.timed_out or r.rc != 0 and not cbad:
                cbad = [("t.c", 0, "exit", "exit status %s" % r.rc)]
            if not cbad:
                cpre, cunits = split_units(pp_tokens(cout))
                break
            ks = set()
            for f, ln, cid, msg in cbad:
                k = lmap.get(ln) if f == "t.c" else None
                if k is None:
                    ks = None
                    break
                ks.add(k)
                res[k] = {"v": "cppcheck-rejects", "cmsg": "%s: %s" % (cid, msg)}
            if ks is None:      # not attributable: bisect
                if len(live) == 1:
                    res[live[0][0]] = {"v": "cppcheck-rejects", "cmsg": "%s: %s" % (cbad[0][2], cbad[0][3])}
                    live = []
                    break
                h = len(live) // 2
                a, _ = eval_batch(cfg, live[:h])
                b, _ = eval_batch(cfg, live[h:])
                res.update(a)
                res.update(b)
                return res, None
            live = [(k, l) for k, l in live if k not in ks]
        else:
            for k, l in live:
                res[k] = {"v": "unresolved"}
            live = []
        for k, l in live:
            g, c = gunits.get(k), cunits.get(k)
            if g is None or c is None:
                res[k] = {"v": "tokens", "gcc": g, "cppcheck": c, "note": "unit marker lost"}
            elif g != c:
                res[k] = {"v": "tokens", "gcc": g, "cppcheck": c}
            else:
                res[k] = {"v": "ok", "n": len(g), "raw": g}
        pre = None
        if cpre is not None:
            pre = {"v": "ok" if gpre == cpre else "tokens", "gcc": gpre, "cppcheck": cpre}
        return res, pre


def eval_single(cfg, lines):
    r, _ = eval_batch(cfg, [(0, lines)])
    return r[0]


def cpp_only(cfg, lines):
    with run.WS(HEADERS) as ws:
        text, lmap = render([(0, lines)])
        ws.write("t.c", text)
        r, cout, cbad = run_cpp(cfg, ws)
    return bool(cbad)


# ------------------------------------------------------------------------------------------------ classes
def category(v):
    """Coarse category of a disagreement (part of the class key)."""
    if v["v"] != "tokens":
        return "reject"
    g, c = v.get("gcc"), v.get("cppcheck")
    if g is None or c is None:
        return "other"
    g2 = [t for i, t in enumerate(g) if not (t == "," and i + 1 < len(g) and g[i + 1] == ")")]
    c2 = [t for i, t in enumerate(c) if not (t == "," and i + 1 < len(c) and c[i + 1] == ")")]
    if g2 == c2:
        return "comma"          # only difference: a `,` directly before `)`
    nos = lambda l: [t.replace(" ", "") if t[:1] == '"' else t for t in l]
    if nos(g) == nos(c):
        return "strspace"       # only difference: blanks inside string literals (result of #)
    if nos(g2) == nos(c2):
        return "comma+strspace"
    return "other"


class Neighbours:
    def __init__(self):
        d = all_defs()
        self.cats = [[defline("MM", "NN", x) for x in d], [defline("NN", "MM", x) for x in d],
                     [u.replace("TT", "MM").replace("UU", "NN") for u, n in USES],
                     [u.replace("TT", "NN").replace("UU", "MM") for u, n in USES]]
        self.idx = [{l: i for i, l in enumerate(c)} for c in self.cats]

    @staticmethod
    def swap(u):
        """the same unit with the roles of MM and NN exchanged (definition of MM first)"""
        v = [l.replace("MM", "\0").replace("NN", "MM").replace("\0", "NN") for l in u]
        d = sorted([l for l in v if l.startswith("#define MM") or l.startswith("#define NN")])
        if len(d) == 2 and v[:2] != d and set(v[:2]) == set(d):
            v = d + v[2:]
        return tuple(v)

    def of(self, cfg, u):
        for c, n in self.of1(cfg, u):
            yield c, n
            yield c, self.swap(n)

    def of1(self, cfg, u):
        u, cfg = list(u), tuple(cfg)
        for i in range(len(u)):
            yield cfg, tuple(u[:i] + u[i + 1:])
        for i, l in enumerate(u):
            for cat, ix in zip(self.cats, self.idx):
                if l in ix:
                    for e in cat[:ix[l]]:
                        yield cfg, tuple(u[:i] + [e] + u[i + 1:])
        for i in range(len(cfg)):
            yield tuple(cfg[:i] + cfg[i + 1:]), tuple(u)


def configs():
    """All subsets of CFG_OPTS except those that define A twice with different values (-DA together with -DA=2 is not
    one configuration: gcc takes the last definition and warns, cppcheck takes the first)."""
    out = []
    for n in range(len(CFG_OPTS) + 1):
        for c in itertools.combinations(CFG_OPTS, n):
            if "-DA" in c and "-DA=2" in c:
                continue
            out.append(list(c))
    return out


def main(tier, replay=None):
    ctx = Ctx("C11", tier, "model_checking", 600 if tier == "quick" else 1700, replay)
    build.build("plain")
    if replay:
        a = replay["artefact"]
        cfg, lines = a["config"], a["unit"]
        text, _ = render([(0, lines)])
        print("configuration:", " ".join(cfg) or "(none)")
        print(text)
        v = eval_single(cfg, lines)
        print("expected (gcc -E -P -undef -nostdinc):", a.get("gcc"))
        print("recorded cppcheck -E                  :", a.get("cppcheck"), a.get("cmsg") or "")
        print("observed now                          :", v.get("cppcheck", v.get("raw")), v.get("cmsg") or "", "->", v["v"])
        return 0 if v["v"] in ("ok", "gcc-rejects") else 1
    cfgs = configs()
    BATCH = 2500
    # simplest first: the quick universe under all configurations, then (thorough) the extension
    stages = [all_units("quick")]
    if tier == "thorough":
        base = set(tuple(u[1]) for u in stages[0])
        stages.append([u for u in all_units("thorough") if tuple(u[1]) not in base])
    nunits = sum(len(s) for s in stages)
    fam_counts = {}
    tasks = []
    for sn, st in enumerate(stages):
        for u in st:
            fam_counts[u[0]] = fam_counts.get(u[0], 0) + 1
        for cfg in cfgs:
            has_inc = "-Iinc" in cfg
            pool = [(i, u) for i, u in enumerate(st) if not u[2] or has_inc]
            skipped = len(st) - len(pool)
            for b in range(0, len(pool), BATCH):
                tasks.append((cfg, pool[b:b + BATCH], skipped if b == 0 else 0, sn))

    def work(t):
        if ctx.expired():
            return t, None, None
        r, pre = eval_batch(t[0], [(i, u[1]) for i, u in t[1]])
        return t, r, pre

    ncompared_ok = 0
    F = {}              # (cfg tuple, unit tuple) -> verdict of a disagreement
    rejected, rej_classes = [], {}
    for (cfg, batch, skipped, sn), res, pre in pmap(work, tasks):
        if res is None:
            continue
        ctx.bump("batches")
        if skipped:
            ctx.bump("vacuous_header_not_found_without_-Iinc", skipped)
        if pre is not None and pre["v"] != "ok":
            F[(tuple(cfg), ("(tokens before the first unit: --include=pre.h)",))] = dict(pre, fam="prelude", stage=sn)
        for k, u in batch:
            v = res.get(k)
            if v is None:
                continue
            ctx.count()
            fam, lines = u[0], u[1]
            if v["v"] == "gcc-rejects":
                ctx.bump("vacuous_reference_rejects")
                cls = re.sub(r"\"[^\"]*\"|\d+", "_", v["gmsg"])
                if cls not in rej_classes:
                    rej_classes[cls] = 1
                    rejected.insert(len(rej_classes) - 1, (cfg, lines, v["gmsg"]))
                elif not cfg and len(rejected) < 4000:
                    rejected.append((cfg, lines, v["gmsg"]))
                continue
            ctx.bump("compared_" + fam)
            if v["v"] == "ok":
                ncompared_ok += 1
                if v["n"] == 0:
                    ctx.bump("compared_with_empty_output")
                if len(ctx.samples) < 5 and v["n"] > 3 and len(cfg) >= 2 and k % 97 == 0:
                    ctx.sample({"config": cfg, "unit": lines, "tokens": v["raw"]})
                continue
            F[(tuple(cfg), tuple(lines))] = dict(v, fam=fam, stage=sn)
    # "both reject" statistic on a bounded number of reference-rejected units (one per gcc message class first)
    cap = 150 if tier == "quick" else 1500
    only_gcc = {}

    def work2(x):
        if ctx.expired():
            return x, None
        return x, cpp_only(x[0], x[1])
    for (cfg, lines, msg), rej in pmap(work2, rejected[:cap]):
        if rej is None:
            continue
        if rej:
            ctx.bump("both_reject")
        else:
            ctx.bump("only_reference_rejects")
            cls = re.sub(r"\"[^\"]*\"|\d+", "_", msg)
            only_gcc.setdefault(cls, {"config": cfg, "unit": lines, "gcc": msg})
    # minimal disagreements -> class keys
    nb = Neighbours()
    cats = {k: category(v) for k, v in F.items()}
    cats0 = {k: c for k, c in cats.items() if F[k]["stage"] == 0}   # keys of the quick universe do not depend on the tier
    keys, attributed = {}, 0
    for (cfg, u), v in sorted(F.items(), key=lambda kv: (len(kv[0][0]), len(kv[0][1]), kv[0])):
        cat = cats[(cfg, u)]
        if v["fam"] != "prelude" and any((cats0 if v["stage"] == 0 else cats).get(n) == cat for n in nb.of(list(cfg), u)):
            attributed += 1
            continue
        key = "%s:%s @ %s" % (cat, " | ".join(u).replace("\n", "\\n"), " ".join(cfg) or "-")
        keys[key] = keys.get(key, 0) + 1
        if cat == "reject":
            what = "cppcheck rejects (%s) a unit gcc accepts: %s under %s" % (v.get("cmsg"), list(u), list(cfg))
        else:
            what = "cppcheck -E tokens %s != gcc -E tokens %s for unit %s under %s" % (
                v.get("cppcheck"), v.get("gcc"), list(u), list(cfg))
        ctx.violation(key, what, {"config": list(cfg), "unit": list(u), "gcc": v.get("gcc"),
                                  "cppcheck": v.get("cppcheck"), "cmsg": v.get("cmsg"), "category": cat})
    ctx.cov["distinct_nontrivial"] = ncompared_ok + len(F)    # (configuration, unit) pairs are distinct by construction
    ctx.cov["configurations_excluded_as_contradictory"] = 16
    ctx.cov["disagreements_total"] = len(F)
    ctx.cov["disagreements_minimal"] = sum(keys.values())
    ctx.cov["disagreements_attributed_to_a_minimal_one"] = attributed
    ctx.cov["disagreement_classes"] = sorted(keys)
    ctx.cov["reference_rejects_but_cppcheck_accepts_classes"] = list(only_gcc.values())[:20]
    ctx.cov["units"] = nunits
    ctx.cov["configurations"] = len(cfgs)
    ctx.cov["units_by_family"] = fam_counts
    ctx.assumptions = [
        "reference = gcc 12 `-E -P -undef -nostdinc` (conforming for the grammar: no predefined macros, no GNU "
        "extensions used); clang 14 -E gives the same tokens on every listed known finding (checked by hand)",
        "units in one file do not influence each other: unique macro names per unit, #undef at unit end, A/B/PRE never "
        "defined or undefined by a unit, every unit closed by a `;` line",
        "cppcheck -E --max-configs=1 prints Preprocessor::getcode of exactly the user-given configuration, the same "
        "simplecpp::preprocess result the tokenizer receives",
        "a unit gcc rejects has no reference token sequence: nothing is demanded of cppcheck there",
        "a non-minimal disagreement is attributed to a minimal neighbour of the same category (it is not reported "
        "separately); a new defect confined to inputs that already disagree in that category would be masked",
    ]
    nd = len(all_defs())
    return ctx.finish(
        rule="all units of Gpp: macro units = (1 macro definition or an ordered pair, from %d forms) x (1 use from %d forms, "
             "statically arity-valid)%s; conditional units = 9 conditions x {if, if-else, if-elif, if-elif-else} x 6 elif "
             "conditions, nested once in then/else, definitions selected by conditionals, 8 conditions over each unit "
             "macro%s; include units = 13 include forms x {bare, in then-branch, in else-branch, with else} x 9 "
             "conditions; every unit under all 48 non-contradictory subsets of {%s}; batched %d units per file and "
             "process; distinct/nontrivial = (configuration, unit) pairs which gcc accepts and whose token sequences "
             "were compared"
             % (nd, len(USES),
                " where the pair is connected (a body or the use mentions the other macro)" if tier == "quick" else
                " plus single definitions x 2 uses and body-linked pairs x (1 use of the first x 1 use of the second macro from the first 8 use forms)",
                "" if tier == "quick" else " and each ordered pair", " ".join(CFG_OPTS), BATCH))
